"""Coverage-guided stage:  python -m vt.fuzz PROP SUB --runs N --seed S --repo DIR --out FILE

Hands the SAME Hypothesis test as the seeded tier (strategy of the sub-check -> body with its oracle) to atheris /
libFuzzer through `test.hypothesis.fuzz_one_input`, with tracklib's own modules instrumented for coverage
(`atheris.instrument_imports(include=["tracklib"])`), so that the byte mutations libFuzzer keeps are those that reach
new code of tracklib.  The oracle stays inside the target: a violation is recorded with its case (plain JSON, replayable
with ./check PROP --replay) and the search goes on.  Statistics are flushed to --out every few hundred executions because
libFuzzer leaves the process without running Python's exit handlers.

This stage supplements the seeded search: a libFuzzer campaign is reproducible only approximately (fresh corpus,
-seed, -runs), so what it finds becomes a replay file and the deciding evidence stays the seeded run."""
import argparse
import importlib
import json
import os
import sys


def _repair_bytestring_provider():
    """Hypothesis 6.168's BytestringProvider.draw_integer (the decoder behind fuzz_one_input) draws
    `bits = (max - min).bit_length()` bits and rejects until min <= value <= max WITHOUT adding min: a range such as
    integers(8, 11) (2 bits: 0..3) can never be satisfied and every buffer ends in an overrun - st.permutations of more
    than a few elements, integers(5, 7), ... make a whole strategy undecodable (C11: 0 valid cases in 10 000 executions).
    The decoder is part of the fuzzing tool, not of the code under test: use offset + rejection instead."""
    from hypothesis.internal.conjecture import providers

    def draw_integer(self, min_value=None, max_value=None, *, weights=None, shrink_towards=0):
        if min_value is None and max_value is None:
            min_value, max_value = -(2 ** 127), 2 ** 127 - 1
        elif min_value is None:
            min_value = max_value - 2 ** 64
        elif max_value is None:
            max_value = min_value + 2 ** 64
        if min_value == max_value:
            return min_value
        bits = (max_value - min_value).bit_length()
        value = min_value + self._draw_bits(bits)
        while value > max_value:
            value = min_value + self._draw_bits(bits)
        return value

    providers.BytestringProvider.draw_integer = draw_integer


def main():
    ap = argparse.ArgumentParser()
    ap.add_argument("prop")
    ap.add_argument("sub")
    ap.add_argument("--runs", type=int, default=2000)
    ap.add_argument("--seed", type=int, default=1)
    ap.add_argument("--repo", default="/repo")
    ap.add_argument("--out", required=True)
    ap.add_argument("--corpus", required=True)
    a = ap.parse_args()
    import atheris
    repo = os.path.realpath(a.repo)
    sys.path.insert(0, repo)
    from vt import core
    core.REPO = repo
    with atheris.instrument_imports(include=["tracklib"], enable_loader_override=False):
        with core.quiet():
            import tracklib
            mod = importlib.import_module("vt.props." + a.prop.lower())
    got = os.path.realpath(os.path.dirname(tracklib.__file__))
    if got != os.path.join(repo, "tracklib"):
        print("HARNESS-ERROR: tracklib imported from %s" % got)
        os._exit(2)
    sub = next(s for s in mod.SUBCHECKS if s.name == a.sub)
    known = core.known_keys(a.prop.upper())
    stats = core.Stats()
    violations = []
    excluded = set()

    def flush():
        tmp = a.out + ".tmp"
        with open(tmp, "w") as f:
            json.dump(core.jsonable({"stats": stats.dump(), "violations": violations}), f)
        os.replace(tmp, a.out)

    from hypothesis import HealthCheck, given, settings
    _repair_bytestring_provider()

    @settings(database=None, deadline=None, suppress_health_check=list(HealthCheck))
    @given(sub.strategy())
    def test(case):
        info, bad = core.run_body(sub, case)
        stats.evaluations += 1
        if bad is None:
            for c in info.get("cls", ()):
                stats.classes[c] += 1
            if info.get("undef"):
                stats.undefined += 1
            if info.get("nt"):
                h = core.case_hash(sub.name, case)
                if h not in stats.nontrivial:
                    stats.nontrivial.add(h)
                    if len(stats.samples) < 2:
                        stats.samples.append({"subcheck": "fuzz:" + sub.name, "case": core.jsonable(case)})
        else:
            key, msg = bad
            if key in known:
                stats.known[key] += 1
            elif key not in excluded:
                excluded.add(key)
                violations.append({"subcheck": sub.name, "key": key, "msg": msg, "case": core.jsonable(case)})
                flush()
        if stats.evaluations % 250 == 0 or stats.evaluations >= a.runs - 1:
            flush()

    def target(data):
        try:
            test.hypothesis.fuzz_one_input(data)
        except core.HarnessError as e:
            sys.__stderr__.write("HARNESS-ERROR: %s\n" % e)
            sys.__stderr__.flush()
            os._exit(2)

    flush()
    os.makedirs(a.corpus, exist_ok=True)
    # starting corpus: besides the empty one, a few buffers of pseudo-random bytes (a pure function of --seed) long enough
    # for the strategy to complete its draws - with short inputs only, strategies that draw a lot reject every buffer and
    # libFuzzer never sees coverage to grow from
    import hashlib
    for k, size in enumerate((64, 256, 1024, 4096, 4096, 8192)):
        buf, c = b"", 0
        while len(buf) < size:
            buf += hashlib.blake2b(("%d|%d|%d" % (a.seed, k, c)).encode(), digest_size=64).digest()
            c += 1
        with open(os.path.join(a.corpus, "seed-%d" % k), "wb") as f:
            f.write(buf[:size])
    atheris.Setup([sys.argv[0], "-runs=%d" % a.runs, "-seed=%d" % (a.seed or 1), "-max_len=8192", "-len_control=0", "-timeout=600",
                   "-print_final_stats=1", "-verbosity=1", a.corpus], target)
    atheris.Fuzz()


if __name__ == "__main__":
    main()
