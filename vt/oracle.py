"""Reference implementations shared by several properties.  Nothing here calls tracklib."""
import math


# --- planar geometry --------------------------------------------------------------------------
def pt_seg_nearest(px, py, x1, y1, x2, y2):
    """(nx, ny, t, dist): nearest point of the closed segment to p; t in [0,1]; zero-length safe."""
    dx, dy = x2 - x1, y2 - y1
    L2 = dx * dx + dy * dy
    if L2 == 0.0:
        t = 0.0
    else:
        t = ((px - x1) * dx + (py - y1) * dy) / L2
        t = 0.0 if t < 0 else 1.0 if t > 1 else t
    nx, ny = x1 + t * dx, y1 + t * dy
    return nx, ny, t, math.hypot(px - nx, py - ny)


def pt_seg_dist(px, py, x1, y1, x2, y2):
    return pt_seg_nearest(px, py, x1, y1, x2, y2)[3]


def pt_polyline_dist(px, py, pts):
    """minimum distance from p to the polyline through pts = [(x, y, ...), ...] (len >= 1)"""
    if len(pts) == 1:
        return math.hypot(px - pts[0][0], py - pts[0][1])
    return min(pt_seg_dist(px, py, pts[i][0], pts[i][1], pts[i + 1][0], pts[i + 1][1])
               for i in range(len(pts) - 1))


def polyline_length(pts):
    return sum(math.hypot(pts[i + 1][0] - pts[i][0], pts[i + 1][1] - pts[i][1]) for i in range(len(pts) - 1))


def cum_lengths(pts):
    out = [0.0]
    for i in range(len(pts) - 1):
        out.append(out[-1] + math.hypot(pts[i + 1][0] - pts[i][0], pts[i + 1][1] - pts[i][1]))
    return out


def seg_hits_rect(x1, y1, x2, y2, xa, ya, xb, yb):
    """True iff the closed segment has a point in the closed rectangle [xa,xb]x[ya,yb] (Liang-Barsky)."""
    t0, t1 = 0.0, 1.0
    dx, dy = x2 - x1, y2 - y1
    for p, q in ((-dx, x1 - xa), (dx, xb - x1), (-dy, y1 - ya), (dy, yb - y1)):
        if p == 0:
            if q < 0:
                return False
        else:
            r = q / p
            if p < 0:
                if r > t1:
                    return False
                if r > t0:
                    t0 = r
            else:
                if r < t0:
                    return False
                if r < t1:
                    t1 = r
    return t0 <= t1


# --- graphs -----------------------------------------------------------------------------------
INF = float("inf")


def floyd_warshall(nodes, arcs):
    """nodes: list of ids; arcs: iterable of (u, v, w) already expanded by permitted direction.
    Returns dict (u, v) -> distance (INF when unreachable); D[u,u] = 0."""
    D = {(u, v): (0.0 if u == v else INF) for u in nodes for v in nodes}
    for u, v, w in arcs:
        if w < D[(u, v)]:
            D[(u, v)] = w
    for k in nodes:
        for i in nodes:
            dik = D[(i, k)]
            if dik == INF:
                continue
            for j in nodes:
                c = dik + D[(k, j)]
                if c < D[(i, j)]:
                    D[(i, j)] = c
    return D


def arcs_of_edges(edges):
    """edges: list of dicts(src, tgt, ori, w).  ori 0 = two-way, 1 = src->tgt only, -1 = tgt->src only."""
    out = []
    for e in edges:
        if e["ori"] in (0, 1):
            out.append((e["src"], e["tgt"], e["w"]))
        if e["ori"] in (0, -1):
            out.append((e["tgt"], e["src"], e["w"]))
    return out
