"""Expression trees for the analytical-feature evaluator (C02, reused by C01):
reference evaluator (documented operator semantics, Python arithmetic, no tracklib),
printer (tree -> the string a user would write) and Hypothesis strategies.

Tree encoding (JSON-able):  ["n", name] | ["l", number] | ["b", op, L, R] | ["u", E] (unary minus)
                            | ["f", NAME, E] (pointwise / shorthand / aggregate function)
                            | ["e", name] (external scalar variable: printed as its name, its value is handed to
                              Track.operate in the dictionary of externals and to `evaluate` as env[name] = number)
"""
import math

from hypothesis import strategies as st

BINOPS = ["+", "-", "*", "/", "^", "<", ">"]
LEVEL = {"<": 1, ">": 1, "+": 2, "-": 2, "*": 3, "/": 3, "^": 4}
POINTWISE = ["ABS", "SQRT", "LOG", "EXP", "COS", "SIN", "TAN", "SIGN", "DIODE"]
SHORTHAND = ["D", "I", "D2"]
AGGREGATES = ["SUM", "AVG", "VAR", "STD", "MSE", "RMSE", "MAD", "MIN", "MAX", "MEDIAN", "ARGMIN", "ARGMAX"]
FUNCS = POINTWISE + SHORTHAND + AGGREGATES
LITERALS = [0, 1, 2, 3, 0.5, 2.5, 10]
NAN = float("nan")
# external scalar variables (documented form track.operate("A=A/factor", {'factor': var})): names disjoint from every feature
# name and from the function names; values are Python ints and floats, negative ones and a non-dyadic one included
EXTERNALS = ["k", "w", "factor"]
EXT_VALUES = [-2, -0.5, 0, 1, 2, 3, 10, 0.5, 2.5, -1.0, 2.0, 4.0, 0.1]


class Undef(Exception):
    """the documented arithmetic is undefined or numerically fragile here: nothing is demanded"""


# ----------------------------------------------------------------------------------------------
# reference evaluator
def _dyadic(vs):
    for v in vs:
        if v != v:
            continue
        if abs(v) >= 2.0 ** 30 or not (v * 2.0 ** 20).is_integer():
            return False
    return True


def _check_mag(vs):
    for v in vs:
        if v != v:
            continue
        if math.isinf(v) or abs(v) > 1e100 or (v != 0 and abs(v) < 1e-100):
            raise Undef("magnitude")
    return vs


class Val:
    """vec: list of floats (one per observation); exact: every element is the exact real value of the
    expression (dyadic, small), so discontinuous operators may be judged on it."""
    __slots__ = ("vec", "exact")

    def __init__(self, vec, exact):
        self.vec = [float(v) for v in vec]
        self.exact = exact


def _pow(a, b):
    if a != a or b != b:
        # IEEE/Python: nan**0 == 1, 1**nan == 1; otherwise nan
        try:
            return a ** b
        except Exception:
            raise Undef("pow")
    if a == 0 and b < 0:
        raise Undef("0^negative")
    if a < 0 and not float(b).is_integer():
        raise Undef("negative^fraction")
    try:
        r = a ** b
    except (OverflowError, ZeroDivisionError):
        raise Undef("pow overflow")
    if isinstance(r, complex):
        raise Undef("complex")
    return r


def evaluate(tree, env, n):
    """env: name -> list of n floats.  Returns Val.  Raises Undef."""
    k = tree[0]
    if k == "n":
        v = env[tree[1]]
        return Val(v, _dyadic(v))
    if k == "l":
        return Val([tree[1]] * n, True)
    if k == "e":                       # external scalar: the value the caller passed for this evaluation
        v = float(env[tree[1]])
        return Val([v] * n, _dyadic([v]))
    if k == "u":
        e = evaluate(tree[1], env, n)
        return Val([0.0 - v for v in e.vec], e.exact)
    if k == "b":
        op = tree[1]
        L = evaluate(tree[2], env, n)
        R = evaluate(tree[3], env, n)
        both = L.exact and R.exact
        out = []
        for a, b in zip(L.vec, R.vec):
            if op == "+":
                r = a + b
            elif op == "-":
                r = a - b
            elif op == "*":
                r = a * b
            elif op == "/":
                if b == 0:
                    raise Undef("x/0")
                r = a / b
            elif op == "^":
                r = _pow(a, b)
            elif op == "<":
                r = 1.0 if a < b else 0.0
            else:
                r = 1.0 if a > b else 0.0
            if not both and a == a and b == b:
                if op in "+-" and r == r and abs(r) <= 1e-6 * max(abs(a), abs(b)) and (a != 0 or b != 0):
                    raise Undef("cancellation of inexact operands")
                if op in "<>" and abs(a - b) <= 1e-6 * max(1.0, abs(a), abs(b)):
                    raise Undef("comparison of nearly equal inexact operands")
                if op == "^" and a < 0 and not R.exact:
                    raise Undef("negative base, inexact exponent")
            out.append(r)
        _check_mag(out)
        if op in "<>":
            exact = True
        elif op in "+-*":
            exact = both and _dyadic(out)
        elif op == "/":
            exact = both and _dyadic(out) and all(
                b != b or (b != 0 and math.frexp(abs(b))[0] == 0.5 and 2.0 ** -10 <= abs(b) <= 2.0 ** 10) for b in R.vec)
        else:
            exact = both and _dyadic(out) and all(b != b or (float(b).is_integer() and 0 <= b <= 6) for b in R.vec)
        return Val(out, exact)
    if k == "f":
        name = tree[1]
        e = evaluate(tree[2], env, n)
        v = e.vec
        if name in POINTWISE:
            out = []
            for x in v:
                if x != x:
                    raise Undef("pointwise function of NaN")
                if name == "ABS":
                    r = abs(x)
                elif name == "DIODE":
                    r = x if x > 0 else 0.0
                elif name == "SIGN":
                    if x == 0 or (not e.exact and abs(x) <= 1e-6):
                        raise Undef("SIGN(0)")
                    r = 1.0 if x > 0 else -1.0
                elif name == "SQRT":
                    if x < 0 or (not e.exact and x <= 1e-6):
                        raise Undef("SQRT<0")
                    r = math.sqrt(x)
                elif name == "LOG":
                    if x <= 0 or (not e.exact and x <= 1e-6):
                        raise Undef("LOG<=0")
                    r = math.log(x)
                elif name == "EXP":
                    if x > 230:
                        raise Undef("EXP overflow")
                    r = math.exp(x)
                else:
                    if not e.exact and abs(x) > 1e3:
                        raise Undef("trig of large inexact argument")
                    if abs(x) > 1e15:
                        raise Undef("trig of huge argument")
                    r = {"COS": math.cos, "SIN": math.sin, "TAN": math.tan}[name](x)
                    if name == "TAN" and abs(r) > 1e6:
                        raise Undef("TAN near pole")
                out.append(r)
            _check_mag(out)
            return Val(out, e.exact and name in ("ABS", "DIODE", "SIGN"))
        if name == "I":
            out = [0.0] * n
            for i in range(1, n):
                out[i] = out[i - 1] + v[i]
            _check_mag(out)
            return Val(out, e.exact and _dyadic(out))
        if name == "D":
            out = [NAN] + [v[i] - v[i - 1] for i in range(1, n)]
            if not e.exact:
                for i in range(1, n):
                    if out[i] == out[i] and abs(out[i]) <= 1e-6 * max(abs(v[i]), abs(v[i - 1])) and (v[i] != 0 or v[i - 1] != 0):
                        raise Undef("cancellation of inexact operands")
            return Val(_check_mag(out), e.exact and _dyadic(out))
        if name == "D2":
            out = [NAN] * n
            for i in range(1, n - 1):
                out[i] = v[i + 1] - 2 * v[i] + v[i - 1]
                if not e.exact and out[i] == out[i] and abs(out[i]) <= 1e-6 * max(abs(v[i + 1]), abs(v[i]), abs(v[i - 1])):
                    raise Undef("cancellation of inexact operands")
            return Val(_check_mag(out), e.exact and _dyadic(out))
        # aggregates: skip NaN, broadcast
        w = [x for x in v if x == x]
        if not w:
            raise Undef("aggregate of all-NaN vector")
        exact = False
        if name == "SUM":
            r = 0.0
            for x in w:
                r += x
            exact = e.exact and _dyadic([r])
        elif name == "AVG":
            r = sum(w) / len(w)
        elif name in ("VAR", "STD"):
            m = sum(w) / len(w)
            r = sum((x - m) ** 2 for x in w) / len(w)
            # x - m cancels: the relative rounding error of the result is about eps * max|x| / sqrt(r); beyond 1e-10
            # the value depends on the order of the additions, not on the documented definition
            if r <= 1e-10 * max(x * x for x in w) and len(set(w)) > 1:
                raise Undef("VAR/STD dominated by cancellation (spread tiny against magnitude)")
            if name == "STD":
                r = math.sqrt(r)
        elif name in ("MSE", "RMSE"):
            r = sum(x ** 2 for x in w) / len(w)
            if name == "RMSE":
                r = math.sqrt(r)
        elif name in ("MIN", "MAX"):
            r = min(w) if name == "MIN" else max(w)
            exact = e.exact
        elif name in ("MEDIAN", "MAD"):
            if name == "MEDIAN" and len(w) != len(v):
                raise Undef("MEDIAN with NaN")
            s = sorted(abs(x) for x in w) if name == "MAD" else sorted(w)
            N = len(s)
            r = s[N // 2] if N % 2 else 0.5 * (s[N // 2 - 1] + s[N // 2])
            exact = e.exact and _dyadic([r])
        else:   # ARGMIN / ARGMAX: first index of the extremum (NaN skipped)
            best = min(w) if name == "ARGMIN" else max(w)
            if not e.exact:
                near = [x for x in w if abs(x - best) <= 1e-6 * max(1.0, abs(best))]
                if len(near) > 1:
                    raise Undef("ARGMIN/ARGMAX tie among inexact values")
            r = float(next(i for i, x in enumerate(v) if x == best))
            exact = True
        _check_mag([r])
        return Val([r] * n, exact)
    raise ValueError("bad tree %r" % (tree,))


def shift_ref(vec, k, circular):
    """documented meaning of the shift operators (tracklib/core/operators.py, class Operator):
    SHIFT y(t) = x(t-k), NaN where t-k is not an index; SHIFT_CIRCULAR y(t) = x((t-k) % n).
    (SHIFT_REV / SHIFT_CIRCULAR_REV are the same with -k; SHIFT_RIGHT / _LEFT are k = +1 / -1.)"""
    n = len(vec)
    if circular:
        return [vec[(i - k) % n] for i in range(n)]
    return [vec[i - k] if 0 <= i - k < n else NAN for i in range(n)]


# ----------------------------------------------------------------------------------------------
# structural facts used by the non-trivial rule
def features(tree):
    """dict of structural facts about a tree"""
    f = {"ops": 0, "levels": set(), "noncomm_chain": False, "scalar_left": False, "literal_only": False,
         "paren_needed": False, "funcs": set(), "neg": False, "depth": 0, "names": set(), "externals": set()}

    def lit_only(t):
        if t[0] in "le":               # an external is a scalar for the evaluator, like a literal
            return True
        if t[0] == "n":
            return False
        if t[0] == "u":
            return lit_only(t[1])
        if t[0] == "b":
            return lit_only(t[2]) and lit_only(t[3])
        return False

    def level(t):
        if t[0] == "b":
            return LEVEL[t[1]]
        if t[0] == "u":
            return 2
        return 5

    def walk(t, d):
        f["depth"] = max(f["depth"], d)
        if t[0] == "n":
            f["names"].add(t[1])
        elif t[0] == "e":
            f["externals"].add(t[1])
        elif t[0] == "u":
            f["neg"] = True
            walk(t[1], d + 1)
        elif t[0] == "f":
            f["funcs"].add(t[1])
            walk(t[2], d + 1)
        elif t[0] == "b":
            f["ops"] += 1
            f["levels"].add(LEVEL[t[1]])
            p = LEVEL[t[1]]
            if t[2][0] == "b" and LEVEL[t[2][1]] == p and (t[1] in "-/^<>" or t[2][1] in "-/^<>"):
                f["noncomm_chain"] = True
            if level(t[2]) < p or level(t[3]) <= p:
                f["paren_needed"] = True
            if lit_only(t[2]) and not lit_only(t[3]):
                f["scalar_left"] = True
            if lit_only(t) and True:
                f["literal_only"] = True
            walk(t[2], d + 1)
            walk(t[3], d + 1)
    walk(tree, 1)
    return f


def nontrivial(tree):
    f = features(tree)
    return (len(f["levels"]) >= 2 or f["noncomm_chain"] or f["scalar_left"] or f["literal_only"] or f["paren_needed"])


# ----------------------------------------------------------------------------------------------
# printer
def fmt_num(v):
    if float(v).is_integer():
        return str(int(v))
    return repr(float(v))


class Style:
    """source of the optional printing choices; `pick(k)` returns an int in [0, k)"""

    def __init__(self, pick=None):
        self.pick = pick or (lambda k: 0)


def render(tree, style=None):
    """string a user would write for the tree: minimal parentheses for the documented precedence
    (= | < > | + - | * / | ^ | f{}) and left-to-right associativity; optional redundant parentheses,
    blanks, ** for ^, f(e) for f{e} and the documented unary-minus forms are chosen by style."""
    style = style or Style()

    def level(t):
        if t[0] == "b":
            return LEVEL[t[1]]
        if t[0] == "u":
            return 2
        return 5

    def sp():
        return " " if style.pick(6) == 1 else ""

    def pr(t, minlev, at_start):
        """print t so that it can stand where an operand of binding level >= minlev is required"""
        k = t[0]
        extra = style.pick(8) == 1            # redundant parentheses
        if k == "n" or k == "e":
            s = t[1]
        elif k == "l":
            s = fmt_num(t[1])
        elif k == "f":
            inner = pr(t[2], 0, True)
            s = t[1] + ("(" + inner + ")" if style.pick(4) == 1 else "{" + inner + "}")
        elif k == "u":
            if not at_start or minlev > 2:
                return "(" + sp() + "-" + pr(t[1], 3, False) + sp() + ")"
            s = "-" + pr(t[1], 3, False)
            if extra:
                return "(" + s + ")"
            return s
        else:
            op = t[1]
            p = LEVEL[op]
            need = p < minlev
            start_inner = at_start or need or extra
            left = pr(t[2], p, start_inner)
            right_t = t[3]
            # documented pairs: a+-b, a--b (only where they denote the same tree numerically)
            if op in "+-" and right_t[0] == "u" and level(right_t[1]) >= 3 and style.pick(3) == 1:
                right = "-" + pr(right_t[1], 3, False)
            else:
                right = pr(right_t, p + 1, False)
            sym = "**" if (op == "^" and style.pick(3) == 1) else op
            s = left + sp() + sym + sp() + right
            if need or extra:
                return "(" + s + ")"
            return s
        if extra and k != "b":
            return "(" + s + ")"
        return s

    return pr(tree, 0, True)


# ----------------------------------------------------------------------------------------------
# strategies
VALUES = [-2.0, -1.0, -0.5, 0.0, 0.5, 1.0, 2.0, 3.0]


def weighted(*pairs):
    """choice between strategies with integer weights: weighted((7, s1), (1, s2)).  Not one_of: Hypothesis drops alternatives
    of one_of that are the same strategy object (repeating an object does NOT weight it) and flattens nested one_of into
    equally likely branches.  Here an index is drawn first; it shrinks towards the first alternative."""
    table = [s for w, s in pairs for _ in range(w)]
    return st.integers(0, len(table) - 1).flatmap(lambda k: table[k])


def leaf(names, externals=()):
    alts = [st.sampled_from(names).map(lambda s: ["n", s]),
            st.sampled_from(LITERALS).map(lambda v: ["l", v])]
    if externals:
        alts.append(st.sampled_from(list(externals)).map(lambda s: ["e", s]))
    return st.one_of(*alts)


def externals_of(tree):
    """sorted names of the external variables in the tree"""
    return sorted(features(tree)["externals"])


def ext_values(names):
    """dictionary name -> scalar for the given external names"""
    names = list(names)
    return st.lists(st.sampled_from(EXT_VALUES), min_size=len(names), max_size=len(names)).map(
        lambda vs: dict(zip(names, vs)))


def trees(names, max_depth=6, with_funcs=True, max_ops=8, externals=()):
    """trees with a drawn operator budget: ~70 % binary nodes, ~20 % functions, ~10 % unary minus;
    externals: names of external scalar variables that may stand where a literal may"""
    def has_name(t):
        if t[0] == "n":
            return True
        if t[0] in "le":
            return False
        if t[0] in "uf":
            return has_name(t[-1])
        return has_name(t[2]) or has_name(t[3])

    kinds = ["b"] * 7 + (["f"] * 2 if with_funcs else []) + ["u"]

    @st.composite
    def node(draw, budget, depth_left):
        if budget <= 0 or depth_left <= 1:
            return draw(leaf(names, externals))
        kind = draw(st.sampled_from(kinds))
        if kind == "b":
            lb = draw(st.integers(0, budget - 1))
            return ["b", draw(st.sampled_from(BINOPS)), draw(node(lb, depth_left - 1)),
                    draw(node(budget - 1 - lb, depth_left - 1))]
        if kind == "u":
            return ["u", draw(node(budget - 1, depth_left - 1))]
        arg = draw(node(budget - 1, depth_left - 1))
        if not has_name(arg):       # function arguments contain a feature name (documented form LOG{X})
            arg = ["b", "+", arg, ["n", draw(st.sampled_from(names))]]
        return ["f", draw(st.sampled_from(FUNCS)), arg]

    return st.integers(0, max_ops).flatmap(lambda k: node(k, max_depth))


def depth(t):
    if t[0] in "nle":
        return 1
    if t[0] in "uf":
        return 1 + depth(t[-1])
    return 1 + max(depth(t[2]), depth(t[3]))


@st.composite
def styled(draw, tree_strategy):
    """(tree, string) with Hypothesis-drawn printing choices"""
    tree = draw(tree_strategy)
    plain = draw(st.booleans())
    if plain:
        return tree, render(tree)
    picks = draw(st.lists(st.integers(0, 7), min_size=0, max_size=60))
    it = iter(picks)

    def pick(k):
        return next(it, 0) % k
    return tree, render(tree, Style(pick))


# magnitudes far from 1 (tiny but perfectly regular numbers, a rounding-residue-sized one, large ones): ordinary arithmetic
# treats them like any other number - only an exact 0 is a zero; the reference evaluator judges them with the relative
# tolerance (they are not on the dyadic lattice) and gives up (Undef) where a result leaves 1e-100 .. 1e100
WIDE = [2.0 ** -60, -2.0 ** -70, 1e-17, -2.5e-16, 5.6e-17, 1e-40, 2.0 ** 40, -1e12]


def vectors(n, allow_nan=True, wide=True):
    """feature vectors: three fifths over VALUES (+ NaN), two fifths mixing in values of WIDE magnitudes"""
    vals = st.sampled_from(VALUES)
    if allow_nan:
        vals = weighted((7, vals), (1, st.just(NAN)))
    ordinary = st.lists(vals, min_size=n, max_size=n)
    if not wide:
        return ordinary
    mixed = st.lists(weighted((1, vals), (1, st.sampled_from(WIDE))), min_size=n, max_size=n)
    return weighted((3, ordinary), (2, mixed))
