"""C08 - the grid spatial index never omits a feature that is geometrically there.

One-directional oracle (no false negatives): own segment/cell clipping (Liang-Barsky against the
cell shrunk by EPS cell units) and own point-polyline distance.  The grid geometry is read from the
public fields of the index (xmin, ymin, dX, dY, csize, lsize).  Extra candidates never fail a case.

History dimensions: features may reach the judged index in two stages (incremental addEdge, index created again,
bbox() asked before the last features are added), and other queries (nearest-feature search unit=-1, fixed-unit
neighbourhoods, point / segment / track requests) are issued on the same index object before each judged query.
"""
import math

from hypothesis import strategies as st

from tracklib.core.network import Edge, Network, Node
from tracklib.core.obs_coords import ENUCoords
from tracklib.core.spatial_index import SpatialIndex
from tracklib.core.track_collection import TrackCollection

from vt import gen, oracle
from vt.core import HarnessError, SubCheck, Violation

EPS = 1e-9                      # cell units: grazing contacts thinner than this are not demanded
LO, HI = 0.0, 16.0
RES = [0.5, 1.0, 2.0, 3.7]
MARGINS = [0, 0.05, 0.25, 1]
RING_CAP = 700                  # cells; above it the 'outer-ring' label is not computed (cost only)

HANG_IS_VIOLATION = False      # cost depends on generated grid / file sizes: a CPU budget hit is inconclusive here
ASSUMPTIONS = [
    "grid geometry (xmin, ymin, dX, dY, csize, lsize) is read from the index's public fields; the check "
    "demands separately that this extent contains every indexed vertex",
    "features: ENU polylines with 2..5 vertices in [0,16]^2 (quarter lattice, integer lattice, floats), at least "
    "0.25 of extent on each axis; zero-length segments allowed; networks built with Node/Edge/addEdge exactly as "
    "NetworkReader does (edge geometry runs source->target, weight = 2D length; nodes are shared by position)",
    "with plan 'incremental' the queries of the case are asked once, unjudged, before the late edges are added (query, extend, "
    "query again on the same index object)",
    "features may arrive in two stages (case fields late = 1..2 trailing features, plan): 'incremental' (network) = index on "
    "the first ones, the others enter that index through addEdge (demanded only if they lie inside its extent); 'reindex' = "
    "index on the first ones, the others are added (addEdge / addTrack), the index is created again; 'bbox-first' = bbox() of "
    "the first ones is asked, the others are added, the index is created once.  A second-stage feature is a free polyline "
    "(new nodes) or a by-pass between two existing end vertices (existing nodes) whose middle vertices may leave the first "
    "extent.  The judged index is the last one; after reindex / bbox-first every feature is demanded and its extent must "
    "contain every vertex",
    "history (case field pre = one list per judged query): 0..3 other queries are issued on the same index object before the "
    "judged one, from the same point / the centre of the same cell / a neighbouring cell / elsewhere: nearest-feature search "
    "neighborhood(p, unit=-1), neighborhood(p, unit=0..3), request(p), request(segment|track), neighborhood(segment|track, "
    "unit=-1..3) (the segment nearest search only on grids of <= 900 cells); their answers are not judged (the nearest search "
    "is outside the statement); every judged query, also the 2nd..4th of a case, keeps the full oracle",
    "resolution None (default) or (rx, ry) from {0.5,1,2,3.7}^2 with rx, ry <= bounding-box side; margin in {0,0.05,0.25,1}",
    "queries lie inside the closed index extent; a query within 1e-9 cell units of a cell border may be answered "
    "from any of the cells whose closed extent contains it",
    "a feature is demanded in a cell only if one of its segments reaches the cell shrunk by 1e-9 cell units; "
    "a neighbourhood membership is demanded only if the feature has a point within d*(1-1e-9)",
    "rounding-decided zone (DESIGN section 6): a path-query vertex or feature vertex within 1e-9 cell units of a grid "
    "corner but not exactly on it is excluded (query skipped / feature not demanded) and counted as 'rounding-excluded-*'; "
    "vertices exactly on corners and on borders stay in",
    "reference geometry: vt.oracle.seg_hits_rect (Liang-Barsky), vt.oracle.pt_polyline_dist; no tracklib code",
]


# ================================================================================================
# model of the constructor's arithmetic -- used ONLY by the generator to aim queries at cell borders
# and corners and to keep them inside the extent (the oracle reads the real fields of the index)
def _bbox(polys):
    xs = [p[0] for pl in polys for p in pl]
    ys = [p[1] for pl in polys for p in pl]
    return min(xs), max(xs), min(ys), max(ys)


def _model_grid(polys, res, margin):
    x0, x1, y0, y1 = _bbox(polys)
    dx, dy = x1 - x0, y1 - y0
    xmin, xmax = x0 - margin * dx, x1 + margin * dx
    ymin, ymax = y0 - margin * dy, y1 + margin * dy
    ax, ay = xmax - xmin, ymax - ymin
    if res is None:
        r = max(ax, ay) / 100
        cs, ls = int(ax / r), int(ay / r)
    else:
        cs, ls = int(ax / res[0]), int(ay / res[1])
    cs, ls = max(cs, 1), max(ls, 1)
    return {"xmin": xmin, "xmax": xmax, "ymin": ymin, "ymax": ymax, "cs": cs, "ls": ls,
            "dX": ax / cs, "dY": ay / ls}


def _clip(v, lo, hi):
    return lo if v < lo else hi if v > hi else v


# ================================================================================================
# strategies (all elementary strategies are module constants: building them per draw is slow)
S_COORD = st.one_of(
    st.integers(0, 16).map(float),                     # integer lattice: lines up with cells of 0.5/1/2
    st.integers(0, 8).map(lambda k: 2.0 * k),
    gen.lattice(0.25, LO, HI),
    st.floats(min_value=LO, max_value=HI, allow_nan=False, allow_infinity=False, width=64),
    st.sampled_from([0.1, 0.3, 3.7, 7.4, 12.3, 15.9]),
)
S_NVERT = st.integers(2, 5)
S_MODE = st.sampled_from(["free", "free", "free", "free", "same_x", "same_y", "diag", "anti", "repeat"])
S_LATK = gen.lattice(0.25, -16, 16)
S_UNIT = st.one_of(st.sampled_from([0.0, 0.25, 0.5, 0.75, 1.0]),
                   st.floats(min_value=0.0, max_value=1.0, allow_nan=False, width=64))
S_BIG = st.integers(0, 2 ** 20)
S_BOOL = st.booleans()
S_QFAM = st.sampled_from(["lattice", "vertex", "float", "grid", "grid", "corner", "onfeat", "onfeat",
                          "nearfeat", "extent-border"])
S_OFF = st.sampled_from([-1.0, -0.25, 0.0, 0.25, 1.0])
S_KIND = st.sampled_from(["tracks", "network"])
S_MARGIN = st.sampled_from(MARGINS)
S_NPATH = st.sampled_from([2, 2, 2, 3, 4])
S_DFAM = st.sampled_from(["lattice", "float", "small-side", "big-side", "reach", "reach", "zero"])
S_HALF = st.sampled_from([0.0, 0.0, 0.5])
S_REACH = st.sampled_from([1.0, 1.001, 1.25])
# history: other queries issued on the same index object before a judged query
S_NPRE = st.sampled_from([0, 0, 0, 1, 1, 2, 3])
S_OP = st.sampled_from(["nearest", "nearest", "nearest", "nearest", "nbh", "request", "request-path", "nbh-path",
                        "nearest-path"])
S_AT = st.sampled_from(["same", "same", "same", "same-cell", "next-cell", "other"])
S_PREU = st.sampled_from([0, 1, 1, 2, 3])
S_SIGN = st.sampled_from([-1.0, 0.0, 1.0])
NEAREST_PATH_CAP = 900          # cells; the nearest search from a segment scans whole windows per crossed cell
PLANS = {"tracks": ["reindex", "bbox-first"],
         "network": ["incremental", "incremental", "reindex", "bbox-first", "reindex", "bbox-first"]}


def _int(draw, lo, hi):
    """integer in [lo, hi] from a constant strategy"""
    return lo + draw(S_BIG) % (hi - lo + 1)


def _polyline(draw):
    n = draw(S_NVERT)
    pts = [[draw(S_COORD), draw(S_COORD)]]
    for _ in range(n - 1):
        mode = draw(S_MODE)
        px, py = pts[-1]
        if mode == "free":
            p = [draw(S_COORD), draw(S_COORD)]
        elif mode == "same_x":
            p = [px, draw(S_COORD)]
        elif mode == "same_y":
            p = [draw(S_COORD), py]
        elif mode == "repeat":
            p = [px, py]
        else:
            k = draw(S_LATK)
            p = [_clip(px + k, LO, HI), _clip(py + (k if mode == "diag" else -k), LO, HI)]
        pts.append(p)
    return pts


def _widen(polys):
    """at least 0.25 of extent on both axes (the constructor divides the extent by the resolution)"""
    for axis in (0, 1):
        vals = [p[axis] for pl in polys for p in pl]
        if max(vals) - min(vals) < 0.25:
            v = polys[0][0][axis]
            polys[0][0][axis] = v + 1.0 if v + 1.0 <= HI else v - 1.0
    return polys


def _lat_in(draw, lo, hi):
    """quarter-lattice value inside [lo, hi] (hi - lo >= 0.25 is not guaranteed: fall back to lo)"""
    a, b = math.ceil(lo / 0.25), math.floor(hi / 0.25)
    if b < a:
        return lo
    return _int(draw, a, b) * 0.25


def _qpoint(draw, G, polys):
    fam = draw(S_QFAM)
    xmin, xmax, ymin, ymax = G["xmin"], G["xmax"], G["ymin"], G["ymax"]

    def free(lo, hi):
        return lo + draw(S_UNIT) * (hi - lo)

    def aligned(lo, d, n):
        return lo + _int(draw, 0, n) * d

    if fam == "lattice":
        x, y = _lat_in(draw, xmin, xmax), _lat_in(draw, ymin, ymax)
    elif fam == "vertex":
        pl = polys[_int(draw, 0, len(polys) - 1)]
        x, y = pl[_int(draw, 0, len(pl) - 1)]
    elif fam == "float":
        x, y = free(xmin, xmax), free(ymin, ymax)
    elif fam == "grid":
        if draw(S_BOOL):
            x, y = aligned(xmin, G["dX"], G["cs"]), free(ymin, ymax)
        else:
            x, y = free(xmin, xmax), aligned(ymin, G["dY"], G["ls"])
    elif fam == "corner":
        x, y = aligned(xmin, G["dX"], G["cs"]), aligned(ymin, G["dY"], G["ls"])
    elif fam == "extent-border":
        side = _int(draw, 0, 4)
        x = xmax if side in (0, 2) else xmin if side == 3 else free(xmin, xmax)
        y = ymax if side in (1, 2) else ymin if side == 4 else free(ymin, ymax)
    else:
        pl = polys[_int(draw, 0, len(polys) - 1)]
        k = _int(draw, 0, len(pl) - 2)
        t = draw(S_UNIT)
        x = pl[k][0] + t * (pl[k + 1][0] - pl[k][0])
        y = pl[k][1] + t * (pl[k + 1][1] - pl[k][1])
        if fam == "nearfeat":
            x += draw(S_OFF) * G["dX"]
            y += draw(S_OFF) * G["dY"]
    return [_clip(x, xmin, xmax), _clip(y, ymin, ymax)]


def _history(draw, G, polys, anchor):
    """0..3 queries that are issued (not judged) on the same index before the judged query at `anchor`"""
    ops = []
    for _ in range(draw(S_NPRE)):
        op, at = draw(S_OP), draw(S_AT)
        if at == "same":
            p = [anchor[0], anchor[1]]
        elif at == "same-cell":         # centre of the (modelled) cell of the anchor
            i = min(max(math.floor((anchor[0] - G["xmin"]) / G["dX"]), 0), G["cs"] - 1)
            j = min(max(math.floor((anchor[1] - G["ymin"]) / G["dY"]), 0), G["ls"] - 1)
            p = [G["xmin"] + (i + 0.5) * G["dX"], G["ymin"] + (j + 0.5) * G["dY"]]
        elif at == "next-cell":
            p = [_clip(anchor[0] + draw(S_SIGN) * G["dX"], G["xmin"], G["xmax"]),
                 _clip(anchor[1] + draw(S_SIGN) * G["dY"], G["ymin"], G["ymax"])]
        else:
            p = _qpoint(draw, G, polys)
        if op == "nearest-path" and G["cs"] * G["ls"] > NEAREST_PATH_CAP:
            op = "nearest"
        if op == "nearest":
            ops.append(["nearest", p])
        elif op == "nbh":
            ops.append(["nbh", p, draw(S_PREU)])
        elif op == "request":
            ops.append(["request", p])
        else:
            path = [p] + [_qpoint(draw, G, polys) for _ in range(draw(S_NPATH) - 1)]
            if op == "request-path":
                ops.append(["request-path", path])
            else:
                ops.append(["nbh-path", path, -1 if op == "nearest-path" else draw(S_PREU)])
    return ops


def _case(qkind):
    @st.composite
    def build(draw):
        kind = draw(S_KIND)
        nf = _int(draw, 1, 4)
        polys = _widen([_polyline(draw) for _ in range(nf)])
        # features in two stages: the last `late` ones are added after the extent was first computed
        late, plan = 0, None
        if nf >= 2 and _int(draw, 0, 9) < 4:
            late = 2 if nf >= 3 and _int(draw, 0, 2) == 0 else 1
            plan = PLANS[kind][_int(draw, 0, len(PLANS[kind]) - 1)]
        early = polys[:nf - late]
        if late:
            early = _widen(early)
            for k in range(nf - late, nf):
                if draw(S_BOOL):            # by-pass: from one existing end vertex (network node) to another
                    a = early[_int(draw, 0, len(early) - 1)][-_int(draw, 0, 1)]
                    b = early[_int(draw, 0, len(early) - 1)][-_int(draw, 0, 1)]
                    mid = polys[k][1:-1] or [[draw(S_COORD), draw(S_COORD)]]
                    polys[k] = [list(a)] + mid + [list(b)]
        final = early if plan in (None, "incremental") else polys     # features the judged index is built from
        margin = draw(S_MARGIN)
        x0, x1, y0, y1 = _bbox(early)
        if _int(draw, 0, 13) == 0:
            res = None
        else:
            okx = [r for r in RES if r <= x1 - x0] or [x1 - x0]
            oky = [r for r in RES if r <= y1 - y0] or [y1 - y0]
            rx = okx[_int(draw, 0, len(okx) - 1)]
            ry = oky[_int(draw, 0, len(oky) - 1)]
            if (x1 - x0) / rx > 24:                       # second chance for a coarser grid (cost of the build)
                rx = max(rx, okx[_int(draw, 0, len(okx) - 1)])
            if (y1 - y0) / ry > 24:
                ry = max(ry, oky[_int(draw, 0, len(oky) - 1)])
            if _int(draw, 0, 3) == 0 and rx <= y1 - y0:
                ry = rx                                   # square request
            res = [rx, ry]
        G = _model_grid(final, res, margin)
        case = {"kind": kind, "feats": polys, "late": late, "res": res, "margin": margin}
        if plan:
            case["plan"] = plan
        nq = _int(draw, 1, 4)
        if qkind == "point":
            case["pts"] = [_qpoint(draw, G, final) for _ in range(nq)]
            case["pre"] = [_history(draw, G, final, q) for q in case["pts"]]
        elif qkind == "path":
            case["paths"] = [[_qpoint(draw, G, final) for _ in range(draw(S_NPATH))] for _ in range(nq)]
            case["pre"] = [_history(draw, G, final, q[0]) for q in case["paths"]]
        else:
            diag = math.hypot(G["xmax"] - G["xmin"], G["ymax"] - G["ymin"])
            small, big = min(G["dX"], G["dY"]), max(G["dX"], G["dY"])
            qs = []
            for _ in range(nq):
                q = _qpoint(draw, G, final)
                fam = draw(S_DFAM)
                if fam == "zero":
                    d = 0.0
                elif fam == "lattice":
                    d = _int(draw, 0, int(diag / 0.25)) * 0.25
                elif fam == "float":
                    d = draw(S_UNIT) * diag
                elif fam == "small-side":
                    d = _int(draw, 0, 6) * small + draw(S_HALF) * small
                elif fam == "big-side":
                    d = _int(draw, 0, 4) * big + draw(S_HALF) * small
                else:       # just far enough to reach one of the features
                    pl = polys[_int(draw, 0, len(polys) - 1)]
                    d = oracle.pt_polyline_dist(q[0], q[1], pl) * draw(S_REACH)
                qs.append([q[0], q[1], min(d, diag)])
            case["nbh"] = qs
            case["pre"] = [_history(draw, G, final, q) for q in qs]
        return case
    return build


# ================================================================================================
# building the tracklib objects
KEY_BORDER = "max-border-cell-index"


def _plan(case):
    """(plan, late): how the features reach the judged index.
    incremental - (network only) createSpatialIndex on the first nf-late edges, the others enter that index through addEdge
    reindex     - index on the first nf-late features, the others are added, the index is created AGAIN
    bbox-first  - bbox() of the first nf-late features is asked, the others are added, the index is created once
    Without late features everything is built at once."""
    late = case.get("late", 0)
    plan = case.get("plan") or "incremental"
    if case["kind"] == "tracks" and plan == "incremental":
        late = 0
    return (plan, late) if late else ("at-once", 0)


def _build(case):
    """-> (index, list of feature numbers that are demanded)"""
    polys = case["feats"]
    res = None if case["res"] is None else (case["res"][0], case["res"][1])
    margin = case["margin"]
    nf = len(polys)
    plan, late = _plan(case)
    tracks = [gen.make_track([(p[0], p[1]) for p in pl]) for pl in polys]

    def guarded(fn, feats):
        # with margin 0 the vertices that define the bounding box sit on the max border of the grid
        try:
            return fn()
        except IndexError:
            if margin == 0:
                x0, x1, y0, y1 = _bbox(feats)
                raise Violation(KEY_BORDER, "building the index with margin=0 raises IndexError: a vertex on the max "
                                "border (x=%r or y=%r) is mapped to cell index csize/lsize" % (x1, y1))
            raise

    if case["kind"] == "tracks":
        coll = TrackCollection(tracks[:nf - late])
        if plan == "reindex":
            guarded(lambda: SpatialIndex(coll, res, margin, False), polys[:nf - late])
        elif plan == "bbox-first":
            coll.bbox()
        for k in range(nf - late, nf):
            coll.addTrack(tracks[k])
        si = guarded(lambda: SpatialIndex(coll, res, margin, False), polys)
    else:
        net = Network()
        ids = {}

        def node(p):
            key = (p[0], p[1])
            if key not in ids:
                ids[key] = "n%d" % len(ids)
            return Node(ids[key], ENUCoords(p[0], p[1], 0.0))

        def add(k):
            e = Edge("e%d" % k, tracks[k])
            e.orientation = (Edge.DOUBLE_SENS, Edge.SENS_DIRECT, Edge.SENS_INVERSE)[k % 3]
            e.weight = oracle.polyline_length(polys[k])
            net.addEdge(e, node(polys[k][0]), node(polys[k][-1]))

        for k in range(nf - late):
            add(k)
        if plan == "bbox-first":
            net.bbox()
        else:
            guarded(lambda: net.createSpatialIndex(res, margin, False), polys[:nf - late])
        si = net.spatial_index
        if plan == "incremental" and si is not None and case.get("early", True):
            # the queries of the case are also asked BEFORE the late edges arrive (unjudged: an index that is queried, then
            # extended with addEdge, then queried again is the ordinary life of an incrementally built network); an answer
            # remembered from this first round must not survive the arrival of new features
            for (x, y, d) in case.get("nbh", []):
                try:
                    si.neighborhood(ENUCoords(x, y, 0.0), unit=si.groundDistanceToUnits(d))
                except Exception:
                    pass
            for q in case.get("pts", []):
                try:
                    si.request(ENUCoords(q[0], q[1], 0.0))
                except Exception:
                    pass
        for k in range(nf - late, nf):
            try:
                add(k)
            except IndexError:
                # an edge added later may have a vertex exactly on the max border of the extent
                if si is not None and any(
                        (p[0] - si.xmin) / si.dX >= si.csize or (p[1] - si.ymin) / si.dY >= si.lsize
                        for p in polys[k] if si.xmin <= p[0] <= si.xmax and si.ymin <= p[1] <= si.ymax):
                    raise Violation(KEY_BORDER, "addEdge after createSpatialIndex raises IndexError: a vertex of %r on "
                                    "the max border of the extent is mapped to cell index csize/lsize" % (polys[k],))
                raise
        if plan in ("reindex", "bbox-first"):
            guarded(lambda: net.createSpatialIndex(res, margin, False), polys)
            si = net.spatial_index
    # the judged index was built from `base` features; later ones entered it through addEdge
    base = nf - late if plan == "incremental" else nf
    for k in range(base):
        for p in polys[k]:
            if not (si.xmin <= p[0] <= si.xmax and si.ymin <= p[1] <= si.ymax):
                raise Violation("extent-excludes-vertex", "vertex %r of feature %d outside index extent %r (features "
                                "arrived by plan %r, %d of %d in the second stage)" % (
                                    p, k, (si.xmin, si.xmax, si.ymin, si.ymax), plan, late, nf))
    demanded = list(range(base))
    for k in range(base, nf):          # an edge added later is indexed only where it fits the extent
        if all(si.xmin <= p[0] <= si.xmax and si.ymin <= p[1] <= si.ymax for p in polys[k]):
            demanded.append(k)
    return si, demanded


class _Geo:
    """own view of the grid: which demanded features reach the shrunk interior of a cell"""

    def __init__(self, si, polys, demanded):
        self.si = si
        self.xmin, self.ymin, self.dX, self.dY = si.xmin, si.ymin, si.dX, si.dY
        self.cs, self.ls = si.csize, si.lsize
        self.polys = polys
        # a feature with a vertex in the rounding-decided zone (see fragile) is not demanded
        self.fragile_feats = [k for k in demanded if any(self.fragile(p[0], p[1]) for p in polys[k])]
        self.demanded = [k for k in demanded if k not in self.fragile_feats]
        self.cache = {}

    def fragile(self, x, y):
        """vertex within EPS cell units of a grid corner but not exactly on it (in cell coordinates): whether the
        segment ending there touches the border next to the corner is decided by rounding alone, not by geometry"""
        cx, cy = (x - self.xmin) / self.dX, (y - self.ymin) / self.dY
        fx, fy = abs(cx - round(cx)), abs(cy - round(cy))
        return fx < EPS and fy < EPS and (fx != 0.0 or fy != 0.0)

    def rect(self, i, j):
        return (self.xmin + (i + EPS) * self.dX, self.ymin + (j + EPS) * self.dY,
                self.xmin + (i + 1 - EPS) * self.dX, self.ymin + (j + 1 - EPS) * self.dY)

    def must(self, i, j):
        got = self.cache.get((i, j))
        if got is None:
            xa, ya, xb, yb = self.rect(i, j)
            got = set()
            for k in self.demanded:
                pl = self.polys[k]
                for s in range(len(pl) - 1):
                    if oracle.seg_hits_rect(pl[s][0], pl[s][1], pl[s + 1][0], pl[s + 1][1], xa, ya, xb, yb):
                        got.add(k)
                        break
            self.cache[(i, j)] = got
        return got

    def cells_of_point(self, x, y):
        """cells whose closed extent contains (x, y) up to EPS cell units; [] when outside the extent"""
        out = []
        cx, cy = (x - self.xmin) / self.dX, (y - self.ymin) / self.dY
        for i in sorted({math.floor(cx - EPS), math.floor(cx + EPS)}):
            for j in sorted({math.floor(cy - EPS), math.floor(cy + EPS)}):
                if 0 <= i < self.cs and 0 <= j < self.ls:
                    out.append((i, j))
        return out, cx, cy

    def inside(self, x, y):
        return self.si.xmin <= x <= self.si.xmax and self.si.ymin <= y <= self.si.ymax

    def on_max_border(self, x, y):
        cx, cy = (x - self.xmin) / self.dX, (y - self.ymin) / self.dY
        return math.floor(cx) >= self.cs or math.floor(cy) >= self.ls

    def border_class(self, cx, cy):
        fx = abs(cx - round(cx)) < EPS
        fy = abs(cy - round(cy)) < EPS
        return "corner" if fx and fy else "border" if fx or fy else "interior"

    def cells_of_segment(self, a, b):
        """cells whose shrunk interior the closed segment a-b reaches"""
        ca = ((a[0] - self.xmin) / self.dX, (a[1] - self.ymin) / self.dY)
        cb = ((b[0] - self.xmin) / self.dX, (b[1] - self.ymin) / self.dY)
        i0 = max(0, math.floor(min(ca[0], cb[0])) - 1)
        i1 = min(self.cs - 1, math.floor(max(ca[0], cb[0])) + 1)
        j0 = max(0, math.floor(min(ca[1], cb[1])) - 1)
        j1 = min(self.ls - 1, math.floor(max(ca[1], cb[1])) + 1)
        out = []
        for i in range(i0, i1 + 1):
            for j in range(j0, j1 + 1):
                xa, ya, xb, yb = self.rect(i, j)
                if oracle.seg_hits_rect(a[0], a[1], b[0], b[1], xa, ya, xb, yb):
                    out.append((i, j))
        return out


def _base_cls(case, si):
    cls = ["kind=" + case["kind"], "margin=%s" % case["margin"],
           "res=default" if case["res"] is None else "res=explicit"]
    nonsq = abs(si.dX - si.dY) > 1e-9 * max(si.dX, si.dY)
    cls.append("cells=nonsquare" if nonsq else "cells=square")
    plan, late = _plan(case)
    if late:
        cls.append("late-edge" if plan == "incremental" else "two-stage")
        cls.append("plan=" + plan)
        polys = case["feats"]
        early = polys[:len(polys) - late]
        x0, x1, y0, y1 = _bbox(early)
        mx, my = case["margin"] * (x1 - x0), case["margin"] * (y1 - y0)
        ends = set((pl[s][0], pl[s][1]) for pl in early for s in (0, -1))
        for pl in polys[len(polys) - late:]:
            outside = any(not (x0 - mx <= p[0] <= x1 + mx and y0 - my <= p[1] <= y1 + my) for p in pl)
            bypass = (pl[0][0], pl[0][1]) in ends and (pl[-1][0], pl[-1][1]) in ends
            cls.append("late:%s,%s" % ("between-existing-nodes" if bypass else "new-node",
                                       "leaves-first-extent" if outside else "inside-first-extent"))
    return cls, nonsq


def _run_pre(si, g, ops, cls):
    """history: queries issued on the same index before a judged one; their answers are not judged (the nearest-feature
    search unit=-1 is not covered by the property), they must only leave the index able to answer the judged query"""
    for op in ops or []:
        name, arg = op[0], op[1]
        pts = [arg] if name in ("nearest", "nbh", "request") else arg
        if not all(g.inside(p[0], p[1]) for p in pts):
            cls.append("pre-skipped-outside-extent")
            continue
        co = [ENUCoords(p[0], p[1], 0.0) for p in pts]
        if name == "nearest":
            fn = lambda: si.neighborhood(co[0], unit=-1)
        elif name == "nbh":
            fn = lambda: si.neighborhood(co[0], unit=op[2])
        elif name == "request":
            fn = lambda: si.request(co[0])
        elif name == "request-path":
            if len(co) == 2:
                fn = lambda: si.request([co[0], co[1]])
            else:
                fn = lambda: si.request(gen.make_track([(p[0], p[1]) for p in pts]))
        elif name == "nbh-path":
            if len(co) == 2:
                fn = lambda: si.neighborhood([co[0], co[1]], unit=op[2])
            else:
                fn = lambda: si.neighborhood(gen.make_track([(p[0], p[1]) for p in pts]), unit=op[2])
        else:
            raise HarnessError("unknown history operation %r" % (op,))
        try:
            _call(fn, g, pts, "%s%r" % (name, tuple(op[1:])))
        except TypeError:
            # neighborhood(track, unit=-1) iterates over the answer of the segment search, which is None when that search
            # finds nothing at all; the nearest search is outside the statement, so this is only counted
            if name == "nbh-path" and op[2] == -1 and len(co) > 2:
                cls.append("pre-nearest-track-found-nothing")
                continue
            raise
        cls.append("pre=" + (name if name != "nbh-path" or op[2] != -1 else "nearest-path"))


def _after_history(case, key, ask, missing):
    """narrower key when the omission depends on what was asked before: a fresh index built from the same case gives
    the omitted feature(s) for the same query"""
    si2, _ = _build(case)
    fresh = ask(si2)
    if fresh is not None and set(missing) <= set(fresh):
        return key + "-after-earlier-queries"
    return key


def _call(fn, g, pts, what):
    """run a query; an IndexError for a query on the max border of the extent is the border defect"""
    try:
        return fn()
    except IndexError:
        if any(g.on_max_border(p[0], p[1]) for p in pts):
            raise Violation(KEY_BORDER, "%s raises IndexError: a coordinate on the max border of the extent is "
                            "mapped to cell index csize/lsize (csize=%d, lsize=%d)" % (what, g.cs, g.ls))
        raise


# ================================================================================================
# (a) point queries
def body_point(case):
    si, demanded = _build(case)
    g = _Geo(si, case["feats"], demanded)
    cls, nonsq = _base_cls(case, si)
    if g.fragile_feats:
        cls.append("rounding-excluded-feature")
    nt = False
    pre = case.get("pre") or []
    for qi, q in enumerate(case["pts"]):
        if not g.inside(q[0], q[1]):
            cls.append("query-outside-extent")
            continue
        _run_pre(si, g, pre[qi] if qi < len(pre) else [], cls)
        got = _call(lambda: si.request(ENUCoords(q[0], q[1], 0.0)), g, [q], "request(%r)" % (q,))
        got = set(got)
        cells, cx, cy = g.cells_of_point(q[0], q[1])
        where = g.border_class(cx, cy)
        cls.append("q=" + where)
        best = None
        for c in cells:
            miss = g.must(*c) - got
            if best is None or len(miss) < len(best[1]):
                best = (c, miss)
        if best is None:
            raise HarnessError("no cell of the grid contains %r although it is inside the extent" % (q,))
        if best[1]:
            key = "request-point-omits"
            if qi or (qi < len(pre) and pre[qi]):
                key = _after_history(case, key, lambda s2: s2.request(ENUCoords(q[0], q[1], 0.0)), best[1])
            raise Violation(key, "request(%r) = %s; cell %s (of candidates %s, cell coords "
                            "(%r, %r)) is crossed by feature(s) %s" % (q, sorted(got), best[0], cells, cx, cy,
                                                                         sorted(best[1])))
        dem = min(len(g.must(*c)) for c in cells)
        cls.append("demand>0" if dem else "demand=0")
        if dem and (nonsq or where != "interior"):
            nt = True
    return {"nt": nt, "cls": cls}


# ================================================================================================
# (b) segment / track queries
def body_path(case):
    si, demanded = _build(case)
    g = _Geo(si, case["feats"], demanded)
    cls, nonsq = _base_cls(case, si)
    if g.fragile_feats:
        cls.append("rounding-excluded-feature")
    nt = False
    pre = case.get("pre") or []
    for qi, path in enumerate(case["paths"]):
        if not all(g.inside(p[0], p[1]) for p in path):
            cls.append("query-outside-extent")
            continue
        if any(g.fragile(p[0], p[1]) for p in path):
            cls.append("rounding-excluded-query")
            continue
        _run_pre(si, g, pre[qi] if qi < len(pre) else [], cls)
        crossed = []
        for s in range(len(path) - 1):
            for c in g.cells_of_segment(path[s], path[s + 1]):
                if c not in crossed:
                    crossed.append(c)
        coords = [ENUCoords(p[0], p[1], 0.0) for p in path]
        results = []
        if len(path) == 2:
            results.append(("request([c1,c2])", "request-segment-omits",
                            _call(lambda: si.request([coords[0], coords[1]]), g, path, "request(%r)" % (path,))))
        tr = gen.make_track([(p[0], p[1]) for p in path])
        results.append(("request(track)", "request-track-omits",
                        _call(lambda: si.request(tr), g, path, "request(track %r)" % (path,))))
        dem = 0
        for name, key, got in results:
            got = set(got)
            for c in crossed:
                reg = set(si.request(c[0], c[1]))
                geo = g.must(*c)
                dem = max(dem, len(reg | geo))
                if reg - got:
                    raise Violation(key, "%s for %r = %s omits %s registered in crossed cell %s" % (
                        name, path, sorted(got), sorted(reg - got), c))
                if geo - got:
                    raise Violation(key, "%s for %r = %s omits %s crossing the crossed cell %s" % (
                        name, path, sorted(got), sorted(geo - got), c))
        ends = [g.border_class(*g.cells_of_point(p[0], p[1])[1:]) for p in path]
        onb = any(e != "interior" for e in ends)
        cls.append("q=on-border" if onb else "q=interior")
        cls.append("cells-crossed=%s" % ("0" if not crossed else "1" if len(crossed) == 1 else "2-5" if len(crossed) <= 5 else "6+"))
        cls.append("demand>0" if dem else "demand=0")
        cls.append("q=track" if len(path) > 2 else "q=segment")
        if dem and (nonsq or onb):
            nt = True
    return {"nt": nt, "cls": cls}


# ================================================================================================
# (c) neighbourhood with a radius converted from a ground distance
def body_nbh(case):
    si, demanded = _build(case)
    polys = case["feats"]
    g = _Geo(si, polys, demanded)
    demanded = g.demanded
    cls, nonsq = _base_cls(case, si)
    if g.fragile_feats:
        cls.append("rounding-excluded-feature")
    nt = False
    pre = case.get("pre") or []
    for qi, (x, y, d) in enumerate(case["nbh"]):
        if not g.inside(x, y):
            cls.append("query-outside-extent")
            continue
        ops = pre[qi] if qi < len(pre) else []
        _run_pre(si, g, ops, cls)
        u = si.groundDistanceToUnits(d)
        got = _call(lambda: si.neighborhood(ENUCoords(x, y, 0.0), unit=u), g, [[x, y]],
                    "neighborhood(%r, unit=%r)" % ((x, y), u))
        if got is None:
            raise Violation("neighborhood-none-inside-extent", "neighborhood(%r) is None inside the extent" % ((x, y),))
        got = set(got)
        need = set(k for k in demanded if oracle.pt_polyline_dist(x, y, polys[k]) <= d * (1 - 1e-9))
        miss = need - got
        if miss:
            k = min(miss)
            dist = oracle.pt_polyline_dist(x, y, polys[k])
            u_small = math.floor(d / min(si.dX, si.dY) + 1)
            key = "neighborhood-omits"
            if isinstance(u, int) and u < u_small:
                # would the omitted feature have been found with the radius measured in the smaller cell side?
                again = si.neighborhood(ENUCoords(x, y, 0.0), unit=u_small)
                if again is not None and k in again:
                    key = "ground-units-too-few"
                    if nonsq and u == math.floor(d / max(si.dX, si.dY) + 1):
                        key = "ground-units-from-larger-cell-side"
            if key == "neighborhood-omits" and (qi or ops):
                key = _after_history(case, key, lambda s2: s2.neighborhood(ENUCoords(x, y, 0.0), unit=u), miss)
            raise Violation(key, "feature %d is at distance %r <= d=%r of %r but neighborhood(unit="
                            "groundDistanceToUnits(d)=%r) = %s; cells are %r x %r, %r units would be needed"
                            % (k, dist, d, (x, y), u, sorted(got), si.dX, si.dY, u_small))
        cells, cx, cy = g.cells_of_point(x, y)
        where = g.border_class(cx, cy)
        cls.append("q=" + where)
        cls.append("demand>0" if need else "demand=0")
        cls.append("d=0" if d == 0 else "d<small-side" if d < min(si.dX, si.dY) else "d>=small-side")
        if need and any(g.cells_of_point(op[1][0], op[1][1])[0][:1] == cells[:1] for op in ops
                        if op[0] == "nearest" and g.inside(op[1][0], op[1][1])):
            cls.append("demand>0-after-nearest-search-from-same-cell")
        outer = False
        if need and isinstance(u, int) and (2 * u + 1) ** 2 <= RING_CAP and cells:
            i0, j0 = math.floor(cx), math.floor(cy)
            i0, j0 = min(i0, g.cs - 1), min(j0, g.ls - 1)
            for k in need:
                ring = None
                for i in range(max(0, i0 - u), min(g.cs, i0 + u + 1)):
                    for j in range(max(0, j0 - u), min(g.ls, j0 + u + 1)):
                        if k in g.must(i, j):
                            r = max(abs(i - i0), abs(j - j0))
                            ring = r if ring is None else min(ring, r)
                if ring is not None and ring == u and u > 0:
                    outer = True
            if outer:
                cls.append("outer-ring-only")
        if need and (nonsq or where != "interior" or outer):
            nt = True
    return {"nt": nt, "cls": cls}


RULE = ("Every case builds one index (TrackCollection or Network, 1-4 polylines on integer/quarter lattices and floats, "
        "resolution default or from {0.5,1,2,3.7}^2, margin from {0,0.05,0.25,1}) and asks 1-4 queries aimed at lattice points, "
        "feature vertices, points of feature segments, cell borders/corners of the modelled grid and the border of the extent. "
        "In 3 of 10 cases with >= 2 features the last 1-2 features arrive in a second stage (incremental addEdge / index created "
        "again / bbox() asked first), half of them between existing end vertices; each judged query is preceded by 0-3 unjudged "
        "queries on the same index (nearest search from the same cell most often).  Class labels plan=*, late:*, pre=* and "
        "'demand>0-after-nearest-search-from-same-cell' measure these.  "
        "Non-trivial: at least one membership is demanded by the oracle AND (cells are non-square OR a query point / path vertex "
        "lies on a cell border or corner OR (neighbourhood) a demanded feature is reached only in the outermost ring of cells). "
        "Distinct = hash of the case.")

SUBCHECKS = [
    SubCheck("point", body_point, strategy=_case("point"), quick=8500, thorough=240000, qshards=5,
             rule="request(coord) must list every feature crossing the (shrunk) cell of the point"),
    SubCheck("path", body_path, strategy=_case("path"), quick=6000, thorough=160000, qshards=5,
             rule="request([c1,c2]) / request(track) must list everything registered in, or crossing, each crossed cell"),
    SubCheck("neighbourhood", body_nbh, strategy=_case("nbh"), quick=9000, thorough=240000, qshards=5,
             rule="neighborhood(q, unit=groundDistanceToUnits(d)) must list every feature within d of q"),
]
