"""C08 - the grid spatial index never omits a feature that is geometrically there.

One-directional oracle (no false negatives): own segment/cell clipping (Liang-Barsky against the
cell shrunk by EPS cell units) and own point-polyline distance.  The grid geometry is read from the
public fields of the index (xmin, ymin, dX, dY, csize, lsize).  Extra candidates never fail a case.
"""
import math

from hypothesis import strategies as st

from tracklib.core.network import Edge, Network, Node
from tracklib.core.obs_coords import ENUCoords
from tracklib.core.spatial_index import SpatialIndex
from tracklib.core.track_collection import TrackCollection

from vt import gen, oracle
from vt.core import HarnessError, SubCheck, Violation

EPS = 1e-9                      # cell units: grazing contacts thinner than this are not demanded
LO, HI = 0.0, 16.0
RES = [0.5, 1.0, 2.0, 3.7]
MARGINS = [0, 0.05, 0.25, 1]
RING_CAP = 700                  # cells; above it the 'outer-ring' label is not computed (cost only)

HANG_IS_VIOLATION = False      # cost depends on generated grid / file sizes: a CPU budget hit is inconclusive here
ASSUMPTIONS = [
    "grid geometry (xmin, ymin, dX, dY, csize, lsize) is read from the index's public fields; the check "
    "demands separately that this extent contains every indexed vertex",
    "features: ENU polylines with 2..5 vertices in [0,16]^2 (quarter lattice, integer lattice, floats), at least "
    "0.25 of extent on each axis; zero-length segments allowed; networks built with Node/Edge/addEdge exactly as "
    "NetworkReader does (edge geometry runs source->target, weight = 2D length), optionally one edge added after "
    "createSpatialIndex (demanded only if it lies inside the index extent)",
    "resolution None (default) or (rx, ry) from {0.5,1,2,3.7}^2 with rx, ry <= bounding-box side; margin in {0,0.05,0.25,1}",
    "queries lie inside the closed index extent; a query within 1e-9 cell units of a cell border may be answered "
    "from any of the cells whose closed extent contains it",
    "a feature is demanded in a cell only if one of its segments reaches the cell shrunk by 1e-9 cell units; "
    "a neighbourhood membership is demanded only if the feature has a point within d*(1-1e-9)",
    "rounding-decided zone (DESIGN section 6): a path-query vertex or feature vertex within 1e-9 cell units of a grid "
    "corner but not exactly on it is excluded (query skipped / feature not demanded) and counted as 'rounding-excluded-*'; "
    "vertices exactly on corners and on borders stay in",
    "reference geometry: vt.oracle.seg_hits_rect (Liang-Barsky), vt.oracle.pt_polyline_dist; no tracklib code",
]


# ================================================================================================
# model of the constructor's arithmetic -- used ONLY by the generator to aim queries at cell borders
# and corners and to keep them inside the extent (the oracle reads the real fields of the index)
def _bbox(polys):
    xs = [p[0] for pl in polys for p in pl]
    ys = [p[1] for pl in polys for p in pl]
    return min(xs), max(xs), min(ys), max(ys)


def _model_grid(polys, res, margin):
    x0, x1, y0, y1 = _bbox(polys)
    dx, dy = x1 - x0, y1 - y0
    xmin, xmax = x0 - margin * dx, x1 + margin * dx
    ymin, ymax = y0 - margin * dy, y1 + margin * dy
    ax, ay = xmax - xmin, ymax - ymin
    if res is None:
        r = max(ax, ay) / 100
        cs, ls = int(ax / r), int(ay / r)
    else:
        cs, ls = int(ax / res[0]), int(ay / res[1])
    cs, ls = max(cs, 1), max(ls, 1)
    return {"xmin": xmin, "xmax": xmax, "ymin": ymin, "ymax": ymax, "cs": cs, "ls": ls,
            "dX": ax / cs, "dY": ay / ls}


def _clip(v, lo, hi):
    return lo if v < lo else hi if v > hi else v


# ================================================================================================
# strategies (all elementary strategies are module constants: building them per draw is slow)
S_COORD = st.one_of(
    st.integers(0, 16).map(float),                     # integer lattice: lines up with cells of 0.5/1/2
    st.integers(0, 8).map(lambda k: 2.0 * k),
    gen.lattice(0.25, LO, HI),
    st.floats(min_value=LO, max_value=HI, allow_nan=False, allow_infinity=False, width=64),
    st.sampled_from([0.1, 0.3, 3.7, 7.4, 12.3, 15.9]),
)
S_NVERT = st.integers(2, 5)
S_MODE = st.sampled_from(["free", "free", "free", "free", "same_x", "same_y", "diag", "anti", "repeat"])
S_LATK = gen.lattice(0.25, -16, 16)
S_UNIT = st.one_of(st.sampled_from([0.0, 0.25, 0.5, 0.75, 1.0]),
                   st.floats(min_value=0.0, max_value=1.0, allow_nan=False, width=64))
S_BIG = st.integers(0, 2 ** 20)
S_BOOL = st.booleans()
S_QFAM = st.sampled_from(["lattice", "vertex", "float", "grid", "grid", "corner", "onfeat", "onfeat",
                          "nearfeat", "extent-border"])
S_OFF = st.sampled_from([-1.0, -0.25, 0.0, 0.25, 1.0])
S_KIND = st.sampled_from(["tracks", "network"])
S_MARGIN = st.sampled_from(MARGINS)
S_NPATH = st.sampled_from([2, 2, 2, 3, 4])
S_DFAM = st.sampled_from(["lattice", "float", "small-side", "big-side", "reach", "reach", "zero"])
S_HALF = st.sampled_from([0.0, 0.0, 0.5])
S_REACH = st.sampled_from([1.0, 1.001, 1.25])


def _int(draw, lo, hi):
    """integer in [lo, hi] from a constant strategy"""
    return lo + draw(S_BIG) % (hi - lo + 1)


def _polyline(draw):
    n = draw(S_NVERT)
    pts = [[draw(S_COORD), draw(S_COORD)]]
    for _ in range(n - 1):
        mode = draw(S_MODE)
        px, py = pts[-1]
        if mode == "free":
            p = [draw(S_COORD), draw(S_COORD)]
        elif mode == "same_x":
            p = [px, draw(S_COORD)]
        elif mode == "same_y":
            p = [draw(S_COORD), py]
        elif mode == "repeat":
            p = [px, py]
        else:
            k = draw(S_LATK)
            p = [_clip(px + k, LO, HI), _clip(py + (k if mode == "diag" else -k), LO, HI)]
        pts.append(p)
    return pts


def _widen(polys):
    """at least 0.25 of extent on both axes (the constructor divides the extent by the resolution)"""
    for axis in (0, 1):
        vals = [p[axis] for pl in polys for p in pl]
        if max(vals) - min(vals) < 0.25:
            v = polys[0][0][axis]
            polys[0][0][axis] = v + 1.0 if v + 1.0 <= HI else v - 1.0
    return polys


def _lat_in(draw, lo, hi):
    """quarter-lattice value inside [lo, hi] (hi - lo >= 0.25 is not guaranteed: fall back to lo)"""
    a, b = math.ceil(lo / 0.25), math.floor(hi / 0.25)
    if b < a:
        return lo
    return _int(draw, a, b) * 0.25


def _qpoint(draw, G, polys):
    fam = draw(S_QFAM)
    xmin, xmax, ymin, ymax = G["xmin"], G["xmax"], G["ymin"], G["ymax"]

    def free(lo, hi):
        return lo + draw(S_UNIT) * (hi - lo)

    def aligned(lo, d, n):
        return lo + _int(draw, 0, n) * d

    if fam == "lattice":
        x, y = _lat_in(draw, xmin, xmax), _lat_in(draw, ymin, ymax)
    elif fam == "vertex":
        pl = polys[_int(draw, 0, len(polys) - 1)]
        x, y = pl[_int(draw, 0, len(pl) - 1)]
    elif fam == "float":
        x, y = free(xmin, xmax), free(ymin, ymax)
    elif fam == "grid":
        if draw(S_BOOL):
            x, y = aligned(xmin, G["dX"], G["cs"]), free(ymin, ymax)
        else:
            x, y = free(xmin, xmax), aligned(ymin, G["dY"], G["ls"])
    elif fam == "corner":
        x, y = aligned(xmin, G["dX"], G["cs"]), aligned(ymin, G["dY"], G["ls"])
    elif fam == "extent-border":
        side = _int(draw, 0, 4)
        x = xmax if side in (0, 2) else xmin if side == 3 else free(xmin, xmax)
        y = ymax if side in (1, 2) else ymin if side == 4 else free(ymin, ymax)
    else:
        pl = polys[_int(draw, 0, len(polys) - 1)]
        k = _int(draw, 0, len(pl) - 2)
        t = draw(S_UNIT)
        x = pl[k][0] + t * (pl[k + 1][0] - pl[k][0])
        y = pl[k][1] + t * (pl[k + 1][1] - pl[k][1])
        if fam == "nearfeat":
            x += draw(S_OFF) * G["dX"]
            y += draw(S_OFF) * G["dY"]
    return [_clip(x, xmin, xmax), _clip(y, ymin, ymax)]


def _case(qkind):
    @st.composite
    def build(draw):
        kind = draw(S_KIND)
        nf = _int(draw, 1, 4)
        polys = _widen([_polyline(draw) for _ in range(nf)])
        late = 0
        if kind == "network" and nf >= 2 and _int(draw, 0, 4) == 0:
            late = 1
        early = polys[:nf - late]
        if late:
            early = _widen(early)
        margin = draw(S_MARGIN)
        x0, x1, y0, y1 = _bbox(early)
        if _int(draw, 0, 13) == 0:
            res = None
        else:
            okx = [r for r in RES if r <= x1 - x0] or [x1 - x0]
            oky = [r for r in RES if r <= y1 - y0] or [y1 - y0]
            rx = okx[_int(draw, 0, len(okx) - 1)]
            ry = oky[_int(draw, 0, len(oky) - 1)]
            if (x1 - x0) / rx > 24:                       # second chance for a coarser grid (cost of the build)
                rx = max(rx, okx[_int(draw, 0, len(okx) - 1)])
            if (y1 - y0) / ry > 24:
                ry = max(ry, oky[_int(draw, 0, len(oky) - 1)])
            if _int(draw, 0, 3) == 0 and rx <= y1 - y0:
                ry = rx                                   # square request
            res = [rx, ry]
        G = _model_grid(early, res, margin)
        case = {"kind": kind, "feats": polys, "late": late, "res": res, "margin": margin}
        nq = _int(draw, 1, 4)
        if qkind == "point":
            case["pts"] = [_qpoint(draw, G, early) for _ in range(nq)]
        elif qkind == "path":
            case["paths"] = [[_qpoint(draw, G, early) for _ in range(draw(S_NPATH))] for _ in range(nq)]
        else:
            diag = math.hypot(G["xmax"] - G["xmin"], G["ymax"] - G["ymin"])
            small, big = min(G["dX"], G["dY"]), max(G["dX"], G["dY"])
            qs = []
            for _ in range(nq):
                q = _qpoint(draw, G, early)
                fam = draw(S_DFAM)
                if fam == "zero":
                    d = 0.0
                elif fam == "lattice":
                    d = _int(draw, 0, int(diag / 0.25)) * 0.25
                elif fam == "float":
                    d = draw(S_UNIT) * diag
                elif fam == "small-side":
                    d = _int(draw, 0, 6) * small + draw(S_HALF) * small
                elif fam == "big-side":
                    d = _int(draw, 0, 4) * big + draw(S_HALF) * small
                else:       # just far enough to reach one of the features
                    pl = polys[_int(draw, 0, len(polys) - 1)]
                    d = oracle.pt_polyline_dist(q[0], q[1], pl) * draw(S_REACH)
                qs.append([q[0], q[1], min(d, diag)])
            case["nbh"] = qs
        return case
    return build


# ================================================================================================
# building the tracklib objects
KEY_BORDER = "max-border-cell-index"


def _build(case):
    """-> (index, list of feature numbers that are demanded)"""
    polys = case["feats"]
    res = None if case["res"] is None else (case["res"][0], case["res"][1])
    margin = case["margin"]
    nf = len(polys)
    late = case.get("late", 0) if case["kind"] == "network" else 0
    tracks = [gen.make_track([(p[0], p[1]) for p in pl]) for pl in polys]
    early = polys[:nf - late]
    x0, x1, y0, y1 = _bbox(early)
    def border_defect(e):
        # with margin 0 the vertices that define the bounding box sit on the max border of the grid
        return Violation(KEY_BORDER, "building the index with margin=0 raises IndexError: a vertex on the max "
                         "border (x=%r or y=%r) is mapped to cell index csize/lsize" % (x1, y1))

    net = None
    if case["kind"] == "tracks":
        try:
            si = SpatialIndex(TrackCollection(tracks), res, margin, False)
        except IndexError as e:
            if margin == 0:
                raise border_defect(e)
            raise
    else:
        net = Network()
        ids = {}

        def node(p):
            key = (p[0], p[1])
            if key not in ids:
                ids[key] = "n%d" % len(ids)
            return Node(ids[key], ENUCoords(p[0], p[1], 0.0))

        def add(k):
            e = Edge("e%d" % k, tracks[k])
            e.orientation = (Edge.DOUBLE_SENS, Edge.SENS_DIRECT, Edge.SENS_INVERSE)[k % 3]
            e.weight = oracle.polyline_length(polys[k])
            net.addEdge(e, node(polys[k][0]), node(polys[k][-1]))

        for k in range(nf - late):
            add(k)
        try:
            net.createSpatialIndex(res, margin, False)
        except IndexError as e:
            if margin == 0:
                raise border_defect(e)
            raise
        si = net.spatial_index
        for k in range(nf - late, nf):
            try:
                add(k)
            except IndexError:
                # an edge added later may have a vertex exactly on the max border of the extent
                if any((p[0] - si.xmin) / si.dX >= si.csize or (p[1] - si.ymin) / si.dY >= si.lsize
                       for p in polys[k] if si.xmin <= p[0] <= si.xmax and si.ymin <= p[1] <= si.ymax):
                    raise Violation(KEY_BORDER, "addEdge after createSpatialIndex raises IndexError: a vertex of %r on "
                                    "the max border of the extent is mapped to cell index csize/lsize" % (polys[k],))
                raise
    for k in range(nf - late):
        for p in polys[k]:
            if not (si.xmin <= p[0] <= si.xmax and si.ymin <= p[1] <= si.ymax):
                raise Violation("extent-excludes-vertex", "vertex %r of feature %d outside index extent %r" % (
                    p, k, (si.xmin, si.xmax, si.ymin, si.ymax)))
    demanded = list(range(nf - late))
    for k in range(nf - late, nf):          # an edge added later is indexed only where it fits the extent
        if all(si.xmin <= p[0] <= si.xmax and si.ymin <= p[1] <= si.ymax for p in polys[k]):
            demanded.append(k)
    return si, demanded


class _Geo:
    """own view of the grid: which demanded features reach the shrunk interior of a cell"""

    def __init__(self, si, polys, demanded):
        self.si = si
        self.xmin, self.ymin, self.dX, self.dY = si.xmin, si.ymin, si.dX, si.dY
        self.cs, self.ls = si.csize, si.lsize
        self.polys = polys
        # a feature with a vertex in the rounding-decided zone (see fragile) is not demanded
        self.fragile_feats = [k for k in demanded if any(self.fragile(p[0], p[1]) for p in polys[k])]
        self.demanded = [k for k in demanded if k not in self.fragile_feats]
        self.cache = {}

    def fragile(self, x, y):
        """vertex within EPS cell units of a grid corner but not exactly on it (in cell coordinates): whether the
        segment ending there touches the border next to the corner is decided by rounding alone, not by geometry"""
        cx, cy = (x - self.xmin) / self.dX, (y - self.ymin) / self.dY
        fx, fy = abs(cx - round(cx)), abs(cy - round(cy))
        return fx < EPS and fy < EPS and (fx != 0.0 or fy != 0.0)

    def rect(self, i, j):
        return (self.xmin + (i + EPS) * self.dX, self.ymin + (j + EPS) * self.dY,
                self.xmin + (i + 1 - EPS) * self.dX, self.ymin + (j + 1 - EPS) * self.dY)

    def must(self, i, j):
        got = self.cache.get((i, j))
        if got is None:
            xa, ya, xb, yb = self.rect(i, j)
            got = set()
            for k in self.demanded:
                pl = self.polys[k]
                for s in range(len(pl) - 1):
                    if oracle.seg_hits_rect(pl[s][0], pl[s][1], pl[s + 1][0], pl[s + 1][1], xa, ya, xb, yb):
                        got.add(k)
                        break
            self.cache[(i, j)] = got
        return got

    def cells_of_point(self, x, y):
        """cells whose closed extent contains (x, y) up to EPS cell units; [] when outside the extent"""
        out = []
        cx, cy = (x - self.xmin) / self.dX, (y - self.ymin) / self.dY
        for i in sorted({math.floor(cx - EPS), math.floor(cx + EPS)}):
            for j in sorted({math.floor(cy - EPS), math.floor(cy + EPS)}):
                if 0 <= i < self.cs and 0 <= j < self.ls:
                    out.append((i, j))
        return out, cx, cy

    def inside(self, x, y):
        return self.si.xmin <= x <= self.si.xmax and self.si.ymin <= y <= self.si.ymax

    def on_max_border(self, x, y):
        cx, cy = (x - self.xmin) / self.dX, (y - self.ymin) / self.dY
        return math.floor(cx) >= self.cs or math.floor(cy) >= self.ls

    def border_class(self, cx, cy):
        fx = abs(cx - round(cx)) < EPS
        fy = abs(cy - round(cy)) < EPS
        return "corner" if fx and fy else "border" if fx or fy else "interior"

    def cells_of_segment(self, a, b):
        """cells whose shrunk interior the closed segment a-b reaches"""
        ca = ((a[0] - self.xmin) / self.dX, (a[1] - self.ymin) / self.dY)
        cb = ((b[0] - self.xmin) / self.dX, (b[1] - self.ymin) / self.dY)
        i0 = max(0, math.floor(min(ca[0], cb[0])) - 1)
        i1 = min(self.cs - 1, math.floor(max(ca[0], cb[0])) + 1)
        j0 = max(0, math.floor(min(ca[1], cb[1])) - 1)
        j1 = min(self.ls - 1, math.floor(max(ca[1], cb[1])) + 1)
        out = []
        for i in range(i0, i1 + 1):
            for j in range(j0, j1 + 1):
                xa, ya, xb, yb = self.rect(i, j)
                if oracle.seg_hits_rect(a[0], a[1], b[0], b[1], xa, ya, xb, yb):
                    out.append((i, j))
        return out


def _base_cls(case, si):
    cls = ["kind=" + case["kind"], "margin=%s" % case["margin"],
           "res=default" if case["res"] is None else "res=explicit"]
    nonsq = abs(si.dX - si.dY) > 1e-9 * max(si.dX, si.dY)
    cls.append("cells=nonsquare" if nonsq else "cells=square")
    if case["kind"] == "network" and case.get("late"):
        cls.append("late-edge")
    return cls, nonsq


def _call(fn, g, pts, what):
    """run a query; an IndexError for a query on the max border of the extent is the border defect"""
    try:
        return fn()
    except IndexError:
        if any(g.on_max_border(p[0], p[1]) for p in pts):
            raise Violation(KEY_BORDER, "%s raises IndexError: a coordinate on the max border of the extent is "
                            "mapped to cell index csize/lsize (csize=%d, lsize=%d)" % (what, g.cs, g.ls))
        raise


# ================================================================================================
# (a) point queries
def body_point(case):
    si, demanded = _build(case)
    g = _Geo(si, case["feats"], demanded)
    cls, nonsq = _base_cls(case, si)
    if g.fragile_feats:
        cls.append("rounding-excluded-feature")
    nt = False
    for q in case["pts"]:
        if not g.inside(q[0], q[1]):
            cls.append("query-outside-extent")
            continue
        got = _call(lambda: si.request(ENUCoords(q[0], q[1], 0.0)), g, [q], "request(%r)" % (q,))
        got = set(got)
        cells, cx, cy = g.cells_of_point(q[0], q[1])
        where = g.border_class(cx, cy)
        cls.append("q=" + where)
        best = None
        for c in cells:
            miss = g.must(*c) - got
            if best is None or len(miss) < len(best[1]):
                best = (c, miss)
        if best is None:
            raise HarnessError("no cell of the grid contains %r although it is inside the extent" % (q,))
        if best[1]:
            raise Violation("request-point-omits", "request(%r) = %s; cell %s (of candidates %s, cell coords "
                            "(%r, %r)) is crossed by feature(s) %s" % (q, sorted(got), best[0], cells, cx, cy,
                                                                         sorted(best[1])))
        dem = min(len(g.must(*c)) for c in cells)
        cls.append("demand>0" if dem else "demand=0")
        if dem and (nonsq or where != "interior"):
            nt = True
    return {"nt": nt, "cls": cls}


# ================================================================================================
# (b) segment / track queries
def body_path(case):
    si, demanded = _build(case)
    g = _Geo(si, case["feats"], demanded)
    cls, nonsq = _base_cls(case, si)
    if g.fragile_feats:
        cls.append("rounding-excluded-feature")
    nt = False
    for path in case["paths"]:
        if not all(g.inside(p[0], p[1]) for p in path):
            cls.append("query-outside-extent")
            continue
        if any(g.fragile(p[0], p[1]) for p in path):
            cls.append("rounding-excluded-query")
            continue
        crossed = []
        for s in range(len(path) - 1):
            for c in g.cells_of_segment(path[s], path[s + 1]):
                if c not in crossed:
                    crossed.append(c)
        coords = [ENUCoords(p[0], p[1], 0.0) for p in path]
        results = []
        if len(path) == 2:
            results.append(("request([c1,c2])", "request-segment-omits",
                            _call(lambda: si.request([coords[0], coords[1]]), g, path, "request(%r)" % (path,))))
        tr = gen.make_track([(p[0], p[1]) for p in path])
        results.append(("request(track)", "request-track-omits",
                        _call(lambda: si.request(tr), g, path, "request(track %r)" % (path,))))
        dem = 0
        for name, key, got in results:
            got = set(got)
            for c in crossed:
                reg = set(si.request(c[0], c[1]))
                geo = g.must(*c)
                dem = max(dem, len(reg | geo))
                if reg - got:
                    raise Violation(key, "%s for %r = %s omits %s registered in crossed cell %s" % (
                        name, path, sorted(got), sorted(reg - got), c))
                if geo - got:
                    raise Violation(key, "%s for %r = %s omits %s crossing the crossed cell %s" % (
                        name, path, sorted(got), sorted(geo - got), c))
        ends = [g.border_class(*g.cells_of_point(p[0], p[1])[1:]) for p in path]
        onb = any(e != "interior" for e in ends)
        cls.append("q=on-border" if onb else "q=interior")
        cls.append("cells-crossed=%s" % ("0" if not crossed else "1" if len(crossed) == 1 else "2-5" if len(crossed) <= 5 else "6+"))
        cls.append("demand>0" if dem else "demand=0")
        cls.append("q=track" if len(path) > 2 else "q=segment")
        if dem and (nonsq or onb):
            nt = True
    return {"nt": nt, "cls": cls}


# ================================================================================================
# (c) neighbourhood with a radius converted from a ground distance
def body_nbh(case):
    si, demanded = _build(case)
    polys = case["feats"]
    g = _Geo(si, polys, demanded)
    demanded = g.demanded
    cls, nonsq = _base_cls(case, si)
    if g.fragile_feats:
        cls.append("rounding-excluded-feature")
    nt = False
    for x, y, d in case["nbh"]:
        if not g.inside(x, y):
            cls.append("query-outside-extent")
            continue
        u = si.groundDistanceToUnits(d)
        got = _call(lambda: si.neighborhood(ENUCoords(x, y, 0.0), unit=u), g, [[x, y]],
                    "neighborhood(%r, unit=%r)" % ((x, y), u))
        if got is None:
            raise Violation("neighborhood-none-inside-extent", "neighborhood(%r) is None inside the extent" % ((x, y),))
        got = set(got)
        need = set(k for k in demanded if oracle.pt_polyline_dist(x, y, polys[k]) <= d * (1 - 1e-9))
        miss = need - got
        if miss:
            k = min(miss)
            dist = oracle.pt_polyline_dist(x, y, polys[k])
            u_small = math.floor(d / min(si.dX, si.dY) + 1)
            key = "neighborhood-omits"
            if isinstance(u, int) and u < u_small:
                # would the omitted feature have been found with the radius measured in the smaller cell side?
                again = si.neighborhood(ENUCoords(x, y, 0.0), unit=u_small)
                if again is not None and k in again:
                    key = "ground-units-too-few"
                    if nonsq and u == math.floor(d / max(si.dX, si.dY) + 1):
                        key = "ground-units-from-larger-cell-side"
            raise Violation(key, "feature %d is at distance %r <= d=%r of %r but neighborhood(unit="
                            "groundDistanceToUnits(d)=%r) = %s; cells are %r x %r, %r units would be needed"
                            % (k, dist, d, (x, y), u, sorted(got), si.dX, si.dY, u_small))
        cells, cx, cy = g.cells_of_point(x, y)
        where = g.border_class(cx, cy)
        cls.append("q=" + where)
        cls.append("demand>0" if need else "demand=0")
        cls.append("d=0" if d == 0 else "d<small-side" if d < min(si.dX, si.dY) else "d>=small-side")
        outer = False
        if need and isinstance(u, int) and (2 * u + 1) ** 2 <= RING_CAP and cells:
            i0, j0 = math.floor(cx), math.floor(cy)
            i0, j0 = min(i0, g.cs - 1), min(j0, g.ls - 1)
            for k in need:
                ring = None
                for i in range(max(0, i0 - u), min(g.cs, i0 + u + 1)):
                    for j in range(max(0, j0 - u), min(g.ls, j0 + u + 1)):
                        if k in g.must(i, j):
                            r = max(abs(i - i0), abs(j - j0))
                            ring = r if ring is None else min(ring, r)
                if ring is not None and ring == u and u > 0:
                    outer = True
            if outer:
                cls.append("outer-ring-only")
        if need and (nonsq or where != "interior" or outer):
            nt = True
    return {"nt": nt, "cls": cls}


RULE = ("Every case builds one index (TrackCollection or Network, 1-4 polylines on integer/quarter lattices and floats, "
        "resolution default or from {0.5,1,2,3.7}^2, margin from {0,0.05,0.25,1}) and asks 1-4 queries aimed at lattice points, "
        "feature vertices, points of feature segments, cell borders/corners of the modelled grid and the border of the extent. "
        "Non-trivial: at least one membership is demanded by the oracle AND (cells are non-square OR a query point / path vertex "
        "lies on a cell border or corner OR (neighbourhood) a demanded feature is reached only in the outermost ring of cells). "
        "Distinct = hash of the case.")

SUBCHECKS = [
    SubCheck("point", body_point, strategy=_case("point"), quick=10000, thorough=240000, qshards=5,
             rule="request(coord) must list every feature crossing the (shrunk) cell of the point"),
    SubCheck("path", body_path, strategy=_case("path"), quick=7000, thorough=160000, qshards=5,
             rule="request([c1,c2]) / request(track) must list everything registered in, or crossing, each crossed cell"),
    SubCheck("neighbourhood", body_nbh, strategy=_case("nbh"), quick=10000, thorough=240000, qshards=5,
             rule="neighborhood(q, unit=groundDistanceToUnits(d)) must list every feature within d of q"),
]
