"""C11 - split() on a marker partitions the track; segmentation() markers reflect the thresholds.

Oracles (no tracklib code involved):
  split        : partition model on observation indices.  Every observation of a generated track
                 carries a unique timestamp, so each observation of each returned piece is mapped
                 back to its index in the input and the pieces are judged on index lists.
  segmentation : per-row fold "value > threshold" over the non-NaN tested values
                 (any -> AND mode, all -> OR mode), written out independently below."""

from hypothesis import strategies as st

from tracklib.algo.segmentation import (MODE_COMPARAISON_AND, MODE_COMPARAISON_OR, segmentation,
                                        split)

from vt import gen
from vt.core import SubCheck, Violation, exc_key, same

NAN = float("nan")
T0 = gen.ms_of_fields(2020, 1, 1)

ASSUMPTIONS = [
    "a marker feature holds 0 (not marked) or 1 (marked), as int or float - what segmentation() writes and split() documents",
    "an observation is identified by its timestamp (generated strictly increasing, so unique); position, timestamp and "
    "feature values of every observation found in a piece are compared with the generated data, not with the track object",
    "split() is called with limit=0 (the documented default; the length filter is not part of the property)",
    "segmentation(): one threshold per tested feature (lists of equal length, or a bare name + bare number for one feature); "
    "tested features are ordinary analytical features (created with createAnalyticalFeature, not the built-in x/y/z/t/idx); the output "
    "name is a new name, the name of an existing unrelated feature, or the name of one of the TESTED features (in-place use, "
    "segmentation(t, 'score', 'score', 0.5)): the marker of row i is judged against the values the tested features held BEFORE the call",
    "feature names: split() and segmentation() address features by their exact name through get/setObsAnalyticalFeature, and "
    "createAnalyticalFeature accepts every string except the six built-in names, so the name of the marker / tested / output / other "
    "features is generated: ordinary identifiers, names holding characters of tracklib's expression mini-language (+ - / * ^ > < ( ) = '), "
    "names with a leading or trailing blank, and names that read as an expression over (or as the blank-padded name of) OTHER features "
    "present in the track ('k-w' next to features k and w); a name is an opaque key, the oracle is the same for all of them",
    "OR mode, row whose tested values are all NaN: nothing demanded beyond marker in {0,1} (the statement does not fix it)",
    "pieces: a piece returned by split() is a track like any other, so segmentation() on it is judged by the same marker oracle "
    "(values of the piece at that call) and split() of it by the same partition oracle; creating a feature on one piece (segmentation "
    "with a new output name, createAnalyticalFeature) leaves the feature lists and values of the other pieces and of the source as "
    "they were; the source split a second time gives the same partition",
    "pieces: NOT demanded - the value a source observation shows in a slot that was overwritten through a piece (extract() shares the "
    "Obs objects, the statement is silent); an empty last piece (last observation marked) takes no feature (documented error) and is skipped",
]


# =================================================================================================
# split
# =================================================================================================
def _isnan(v):
    return isinstance(v, float) and v != v


VTYPES = ["float", "float", "np.float64", "np.int64", "np.float32", "int"]
LAST_VTYPE = ["float"]


def _typed_values(vals, k):
    """the same numbers in another numeric type (what list(np.array(...)) or integer data yields): numpy float64 always;
    numpy int64 / Python int when every value is integral and not NaN; numpy float32 when every value is exactly
    representable in single precision; otherwise unchanged.  The oracle keeps working on the plain numbers."""
    import numpy as np
    t = VTYPES[k % len(VTYPES)]
    vals = list(vals)
    if t == "np.float64":
        return [np.float64(v) for v in vals], t
    if t in ("np.int64", "int") and all(isinstance(v, (int, float)) and v == v and abs(v) < 2 ** 52 and float(v).is_integer() for v in vals):
        return ([np.int64(int(v)) for v in vals] if t == "np.int64" else [int(v) for v in vals]), t
    if t == "np.float32" and all(isinstance(v, (int, float)) and (v != v or float(np.float32(v)) == float(v)) for v in vals):
        return [np.float32(v) for v in vals], t
    return vals, "float"


def _build(pts, times, feats):
    """feats: ordered list of (name, values).  gen.make_track takes a dict (insertion ordered).  The numeric type of the
    values of each feature is a function of the feature's own content (so a case replays identically): see _typed_values."""
    out = {}
    for j, (name, vals) in enumerate(feats):
        h = len(vals) + 7 * j
        for v in list(vals)[:6]:
            if isinstance(v, (int, float)) and v == v and abs(v) < 1e12:
                h = (h * 31 + int(v * 4)) % 1000003
        out[name], LAST_VTYPE[0] = _typed_values(vals, h)
    return gen.make_track(pts, times, out)


def _records(pts, times, feats):
    return [(pts[i][0], pts[i][1], pts[i][2], times[i], tuple(f[1][i] for f in feats)) for i in range(len(pts))]


def _check_split(pts, times, feats, mname):
    """_split_once, with a root-cause label when it fails for a marker name that is not an ordinary identifier: the same
    track with the marker feature renamed to a plain name is tried; if that one is split correctly, the NAME was interpreted."""
    try:
        _split_once(pts, times, feats, mname)
    except (Violation, SystemExit, Exception) as e:
        if type(e).__name__ == "_CaseTimeout" or type(e).__module__.startswith("hypothesis"):
            raise
        if _name_class(mname, [f[0] for f in feats if f[0] != mname]) == "name=ordinary":
            raise
        plain = "plain__marker"
        try:
            _split_once(pts, times, [(plain if f[0] == mname else f[0], f[1]) for f in feats], plain)
        except (Violation, SystemExit, Exception):
            raise e
        what = e.msg if isinstance(e, Violation) else "%s (%s: %s)" % (exc_key(e), type(e).__name__, str(e)[:120])
        raise Violation("split-marker-name-not-opaque", "marker feature named %r (features %s): %s - %s; the same track with the "
                        "marker renamed to %r is split correctly" % (mname, [f[0] for f in feats],
                                                                      e.key if isinstance(e, Violation) else "exception", what, plain))


def _split_once(pts, times, feats, mname):
    """feats = ordered [(name, values)], one of them named mname with 0/1 entries."""
    names = [f[0] for f in feats]
    marked = [v == 1 for v in dict(feats)[mname]]
    tr = _build(pts, times, feats)
    coll = split(tr, mname)
    _judge_pieces([coll.getTrack(j) for j in range(coll.size())], _records(pts, times, feats), names, marked)


def _judge_pieces(pieces, orig, names, marked, pre="split"):
    """pieces: the Track objects returned for a track whose observations are orig (records x, y, z, t, features;
    unique t), whose features are `names` and whose marker reads `marked`.  Returns the index lists of the pieces."""
    n = len(orig)
    index_of_time = {orig[i][3]: i for i in range(n)}
    if not any(marked):
        if pieces:
            raise Violation(pre + "-unmarked-not-empty",
                            "no marked observation, yet %d piece(s) returned (sizes %s)" % (
                                len(pieces), [p.size() for p in pieces]))
        return []

    idx_pieces = []
    for j, p in enumerate(pieces):
        ids = []
        pnames = p.getListAnalyticalFeatures() if p.size() > 0 else names
        if list(pnames) != names:
            raise Violation(pre + "-features-lost", "piece %d lists features %s, track had %s" % (j, pnames, names))
        for rec in gen.track_records(p):
            i = index_of_time.get(rec[3])
            if i is None:
                raise Violation(pre + "-foreign-obs", "piece %d holds an observation with a timestamp not in the track" % j)
            o = orig[i]
            if not (same(rec[0], o[0]) and same(rec[1], o[1]) and same(rec[2], o[2])
                    and len(rec[4]) == len(o[4]) and all(same(a, b) for a, b in zip(rec[4], o[4]))):
                raise Violation(pre + "-obs-altered", "piece %d: observation %d is %r, was %r" % (j, i, rec, o))
            ids.append(i)
        idx_pieces.append(ids)

    flat = [i for ids in idx_pieces for i in ids]
    desc = "markers %s -> pieces %s" % ([int(m) for m in marked], idx_pieces)
    if flat != list(range(n)):
        if len(set(flat)) < len(flat):
            raise Violation(pre + "-obs-duplicated", desc)
        if set(flat) != set(range(n)):
            raise Violation(pre + "-obs-lost", desc)
        raise Violation(pre + "-order", desc)
    for j, ids in enumerate(idx_pieces):
        last = j == len(idx_pieces) - 1
        if not ids:
            if not last:
                raise Violation(pre + "-empty-piece", desc)
            continue
        if any(marked[i] for i in ids[:-1]):
            raise Violation(pre + "-marker-inside-piece", desc)
        if not last and not marked[ids[-1]]:
            raise Violation(pre + "-piece-not-ending-on-marker", desc)
    return idx_pieces


def _marker_classes(marked):
    n = len(marked)
    cls = []
    k = sum(marked)
    if k == 0:
        cls.append("no-marker")
    else:
        if marked[0]:
            cls.append("first-marked")
        if marked[-1]:
            cls.append("last-marked")
        if any(marked[i] and marked[i + 1] for i in range(n - 1)):
            cls.append("adjacent-markers")
        if k == n:
            cls.append("all-marked")
        if not marked[0] and not marked[-1] and not any(marked[i] and marked[i + 1] for i in range(n - 1)):
            cls.append("interior-isolated-only")
    return cls


# --- (i) all 2^n marker vectors, n = 1..12 --------------------------------------------------------
# every vector is run in four settings: marker name / position of the marker feature among the
# other features / int or float 0-1 values
# ... and in two more with a marker name that is not an identifier: one that reads as an expression over the two other features
# of the track (k and w), one with a blank in front and an operator inside
_VARIANTS = [("m", "last", int), ("#mark", "first", float), ("decoup3", "middle", int), ("seg", "only", float),
             ("k-w", "last", int), (" stop/go", "first", float)]


def enum_markers(tier):
    for n in range(1, 13):
        for b in range(1 << n):
            yield {"markers": [(b >> i) & 1 for i in range(n)]}


def body_markers(case):
    mk = case["markers"]
    n = len(mk)
    pts = [(float(i), float((2 * i) % 7), float(i % 3)) for i in range(n)]
    times = [T0 + 1000 * i for i in range(n)]
    k = [float(10 + i) for i in range(n)]
    w = [NAN if i % 4 == 1 else 0.5 * i for i in range(n)]
    for name, where, typ in _VARIANTS:
        mf = (name, [typ(v) for v in mk])
        feats = {"last": [("k", k), ("w", w), mf], "first": [mf, ("k", k), ("w", w)],
                 "middle": [("k", k), mf, ("w", w)], "only": [mf]}[where]
        _check_split(pts, times, feats, name)
    marked = [v == 1 for v in mk]
    return {"nt": any(marked), "cls": _marker_classes(marked) + ["n=%02d" % n]}


# --- (ii) random longer tracks -------------------------------------------------------------------
_NAMES = ["m", "#mark", "decoup3", "stop", "pause_1", "M"]
_OTHER = ["speed", "k", "w", "Temp", "abs_curv", "v-max", "acc(x)"]
# legal feature names (createAnalyticalFeature takes them, split/segmentation of the unchanged tree handle them as opaque keys)
# that hold characters of the expression mini-language of Track.__getitem__ / operate, or blanks at the ends
_ODD_NAMES = ["u-turn", "stop/go", "speed>5", "lap+1", "is_stop=1", " mark", "mark ", "stop(1)", "a*b", "k^2", "it's", "d<3", "vit (m/s)"]
# templates of names that read as an expression over / as the padded name of one or two other features {a}, {b} of the same track
_EXPR_NAMES = ["{a}-{b}", "{a}+{b}", "{a}*{b}", "{a}/{b}", "{a}>{b}", " {a}", "{a} ", "{a}^2", "2*{a}", "({a})", "{a}=1", "{a}-{a}"]


def _name_class(name, present):
    """label of a feature name with respect to the other feature names present in the track"""
    core = name.strip()
    ops = "+-/*^><()='"
    if core != name and core in present:
        return "name=padded-other-feature"
    if any(ch in core for ch in ops):
        toks, cur = [], ""
        for ch in core:
            if ch in ops:
                toks.append(cur)
                cur = ""
            else:
                cur += ch
        toks.append(cur)
        toks = [t.strip() for t in toks if t.strip()]
        if toks and any(t in present for t in toks) and all(t in present or t.replace(".", "").isdigit() for t in toks):
            return "name=expression-over-features"
        return "name=operator-chars"
    if core != name:
        return "name=blank-padded"
    return "name=ordinary"


@st.composite
def _draw_name(draw, ordinary, present):
    """a marker / output name: ordinary, odd, or - when other features are present - an expression over their names"""
    kind = draw(st.sampled_from(["ord", "ord", "odd", "odd", "expr", "expr"]))
    if kind == "expr" and present:
        a = draw(st.sampled_from(present))
        b = draw(st.sampled_from(present))
        name = draw(st.sampled_from(_EXPR_NAMES)).format(a=a, b=b)
        if name not in present:
            return name
    if kind == "odd":
        return draw(st.sampled_from(_ODD_NAMES))
    return draw(st.sampled_from(ordinary))


@st.composite
def strat_split(draw):
    """few, flat draws (cheap to generate and to shrink); positions are data that split() must carry through"""
    n = draw(st.one_of(st.integers(1, 12), st.integers(13, 60)))
    dens = draw(st.sampled_from([0, 3, 8, 8, 20, 50, 90, 100]))
    mk = [1 if (v * 61 + 17) % 100 < dens else 0 for v in draw(st.lists(st.integers(0, 99), min_size=n, max_size=n))]
    edge = draw(st.sampled_from(["", "", "", "first", "last", "both"]))
    if edge in ("first", "both"):
        mk[0] = 1
    if edge in ("last", "both"):
        mk[-1] = 1
    scale = draw(st.sampled_from([1.0, 1.0, 0.001, 1234.5678]))
    c = draw(st.lists(st.integers(-5, 5), min_size=n, max_size=n))      # small range: positions repeat often
    pts = [[c[i] * scale, c[(i * 7 + 3) % n] * scale, float(c[(i * 5 + 1) % n])] for i in range(n)]
    steps = draw(st.lists(st.sampled_from([1, 125, 1000, 1000, 60000, 86400000]), min_size=n, max_size=n))
    nother = draw(st.sampled_from([0, 1, 2, 2, 3]))
    pool = [-3, -2, -1, 0, 1, 2, 3, 0, 1, 1.0, NAN, 0.25, -7.5]
    others = []
    for name in draw(st.permutations(_OTHER))[:nother]:
        ix = draw(st.lists(st.integers(0, len(pool) - 1), min_size=n, max_size=n))
        others.append([name, [pool[j] for j in ix]])
    return {"pts": pts, "steps": steps, "markers": mk, "name": draw(_draw_name(_NAMES, [o[0] for o in others])),
            "pos": draw(st.integers(0, nother)), "float": draw(st.booleans()), "others": others}


def body_split(case):
    mk = case["markers"]
    n = len(mk)
    times, t = [], T0
    for s in case["steps"]:
        times.append(t)
        t += s
    mf = (case["name"], [float(v) if case["float"] else int(v) for v in mk])
    feats = [(nm, list(vals)) for nm, vals in case["others"]]
    feats.insert(case["pos"], mf)
    _check_split([tuple(p) for p in case["pts"]], times, feats, case["name"])
    marked = [v == 1 for v in mk]
    return {"nt": any(marked), "cls": _marker_classes(marked) + ["n<=12" if n <= 12 else "n>12",
                                                               "other-features=%d" % len(case["others"]),
                                                               _name_class(case["name"], [o[0] for o in case["others"]])]}


# =================================================================================================
# segmentation
# =================================================================================================
def _want_marker(row, thr, mode_or):
    """1 / 0 / None (not demanded).  row, thr: tested values and their thresholds of one observation."""
    cmp = [v > t for v, t in zip(row, thr) if not _isnan(v)]
    if mode_or:
        if not cmp:
            return None
        return 1 if all(cmp) else 0
    return 1 if any(cmp) else 0


def _inplace_ok_elsewhere(case):
    """root-cause label for an in-place case that fails: does the same call with a NEW output name give the right marker?"""
    alt = dict(case, out={"name": "__fresh__", "init": None, "inplace": None})
    try:
        _check_seg(alt)
    except Violation:
        return False
    return True


def _check_seg(case):
    """case: names [k], rows [n][k], thr [k], mode 0 (argument omitted = AND) | 1 (AND) | 2 (OR),
    conv 'list' | 'scalar' | 'mixed' (the latter two only for k == 1),
    out {'name', 'init': None (new feature) | number (existing feature filled with it), 'inplace': None | c (the output is the
    tested feature number c: name and init are not used; the marker is judged against rows, the values before the call)},
    before / after: lists of values of two unrelated features placed before / after the tested ones."""
    names, rows, thr = case["names"], case["rows"], case["thr"]
    n, k = len(rows), len(names)
    inplace = case["out"].get("inplace")
    out = case["out"]["name"] if inplace is None else names[inplace]
    feats = []
    if case.get("before") is not None:
        feats.append(("b4", list(case["before"])))
    for c in case.get("order", range(k)):                 # creation order of the tested features in the track
        feats.append((names[c], [rows[i][c] for i in range(n)]))
    if inplace is None and case["out"]["init"] is not None:
        feats.append((out, [case["out"]["init"]] * n))
    if case.get("after") is not None:
        feats.append(("aft", list(case["after"])))
    pts = [(float(i), float(i % 3), 0.0) for i in range(n)]
    tr = _build(pts, None, feats)

    mode = case["mode"]
    if case["conv"] == "scalar":
        args = [names[0], out, thr[0]]
    elif case["conv"] == "mixed":
        args = [[names[0]], out, thr[0]]
    else:
        args = [list(names), out, list(thr)]
    if mode == 1:
        args.append(MODE_COMPARAISON_AND)
    elif mode == 2:
        args.append(MODE_COMPARAISON_OR)
    segmentation(tr, *args)

    if not tr.hasAnalyticalFeature(out) or out not in tr.getListAnalyticalFeatures():
        raise Violation("seg-no-output", "feature %r missing after segmentation" % out)
    got = tr.getAnalyticalFeature(out)
    if len(got) != n:
        raise Violation("seg-no-output", "marker has %d entries for %d observations" % (len(got), n))
    mode_or = mode == 2
    demanded = 0
    info = {"eq": False, "nan": False, "differ": False, "allnan": False, "ones": 0, "zeros": 0}
    for i in range(n):
        g = got[i]
        if not (isinstance(g, (int, float)) and (g == 0 or g == 1)):
            raise Violation("seg-marker-not-01", "row %d: marker %r" % (i, g))
        want = _want_marker(rows[i], thr, mode_or)
        w_and, w_or = _want_marker(rows[i], thr, False), _want_marker(rows[i], thr, True)
        info["eq"] |= any(v == t for v, t in zip(rows[i], thr))
        info["nan"] |= any(_isnan(v) for v in rows[i])
        info["allnan"] |= all(_isnan(v) for v in rows[i])
        info["differ"] |= (w_or is not None and w_and != w_or)
        if want is None:
            continue
        demanded += 1
        info["ones" if want else "zeros"] += 1
        if g != want:
            eq = any(v == t for v, t in zip(rows[i], thr) if not _isnan(v))
            nn = sum(1 for v in rows[i] if not _isnan(v))
            if inplace is not None and _inplace_ok_elsewhere(case):
                key = "seg-in-place-output-wrong"
            elif g == (w_or if not mode_or else w_and) and w_or is not None and w_and != w_or:
                key = "seg-mode-mixed-up"
            elif eq and want == 0:
                key = "seg-equal-counts-as-exceeding"
            elif nn < k:
                key = "seg-nan-not-ignored"
            else:
                key = "seg-marker-wrong"
            raise Violation(key, "row %d: features %s values %s thresholds %s mode %s output %r%s -> marker %r, expected %d" % (
                i, names, rows[i], thr, "OR" if mode_or else "AND", out,
                " (one of the tested features: values before the call count)" if inplace is not None else "", g, want))
    # everything else untouched
    for name, vals in feats:
        if name == out:
            continue
        now = tr.getAnalyticalFeature(name)
        if len(now) != n or not all(same(a, b) for a, b in zip(now, vals)):
            raise Violation("seg-other-feature-changed", "feature %r: %s -> %s" % (name, vals, now))
    if inplace is not None:
        cls = ["out-in-place-" + ("only-tested" if k == 1 else "first-tested" if inplace == 0 else "later-tested")]
    else:
        cls = ["out-existing" if case["out"]["init"] is not None else "out-new"]
    cls += ["k=%d" % k, "mode-or" if mode_or else "mode-and"]
    present = [f[0] for f in feats]
    for lab, nm in [("tested-", c) for c in names] + ([("out-", out)] if inplace is None else []):
        nc = _name_class(nm, [q for q in present if q != nm])
        if nc != "name=ordinary":
            cls.append(lab + nc)
    for lab, key in (("value==threshold", "eq"), ("nan", "nan"), ("and!=or", "differ"), ("all-nan-row", "allnan")):
        if info[key]:
            cls.append(lab)
    if info["ones"] and info["zeros"]:
        cls.append("markers-mixed")
    if demanded == 0:
        return {"undef": True, "cls": cls}
    nt = info["eq"] or info["nan"] or info["differ"]
    return {"nt": nt, "cls": cls}


# --- (iii) complete grid: every below/equal/above/NaN pattern of 1..3 tested features -----------
_GRID_THR = [-1, 0, 2.5]
_TESTED = ["Temp", "heading", "speed"]


def enum_grid(tier):
    import itertools
    for k in (1, 2, 3):
        for thr in itertools.product(_GRID_THR, repeat=k):
            for mode in (0, 1, 2):
                for delta in (0.5, 2.0 ** -20):
                    rows = []
                    for pat in itertools.product(range(4), repeat=k):
                        rows.append([(t - delta, t, t + delta, NAN)[p] for p, t in zip(pat, thr)])
                    convs = ["list", "scalar", "mixed"] if k == 1 else ["list"]
                    for conv in convs:
                        yield {"names": _TESTED[:k], "rows": rows, "thr": list(thr), "mode": mode, "conv": conv,
                               "out": {"name": "decoup", "init": None if delta == 0.5 else 7},
                               "before": None, "after": None}
                        # the same table with the marker written over one of the tested features (first / last in turn)
                        yield {"names": _TESTED[:k], "rows": rows, "thr": list(thr), "mode": mode, "conv": conv,
                               "out": {"name": None, "init": None, "inplace": 0 if delta == 0.5 else k - 1},
                               "before": None, "after": None}


# --- (iv) random ---------------------------------------------------------------------------------
_LATTICE = [0.5 * j for j in range(-4, 7)]           # -2 .. 3 step 0.5


def _cell(j, t):
    """value number j of the pool of a column with threshold t (equality and NaN are frequent by construction)"""
    pool = _LATTICE + [t, t, t, NAN, NAN, NAN, float(t), t + 1, t - 1, t + 2.0 ** -30, t - 2.0 ** -30, 36.6, -17.25]
    return pool[j % len(pool)]


@st.composite
def strat_seg(draw):
    n = draw(st.integers(1, 12))
    k = draw(st.integers(1, 3))
    names = list(draw(st.permutations(_TESTED + ["f1", "#tmp", "v-max", "acc(x)", "speed>5", " lead", "d/dt"]))[:k])
    extra = draw(st.integers(0, 3))
    # a tested feature whose name reads as an expression over the other features of the track
    if draw(st.integers(0, 3)) == 0:
        present = names[1:] + (["b4"] if extra & 1 else []) + (["aft"] if extra & 2 else [])
        if present:
            nm = draw(st.sampled_from(_EXPR_NAMES)).format(a=draw(st.sampled_from(present)), b=draw(st.sampled_from(present)))
            if nm not in present:
                names[0] = nm
    thr = [draw(st.sampled_from(_LATTICE + [0, 1, -1, 35])) for _ in range(k)]
    ix = draw(st.lists(st.integers(0, 23), min_size=n * k, max_size=n * k))
    rows = [[_cell(ix[i * k + c], thr[c]) for c in range(k)] for i in range(n)]
    if draw(st.integers(0, 3)) == 0:                      # a row with every tested value NaN
        rows[draw(st.integers(0, n - 1))] = [NAN] * k
    conv = draw(st.sampled_from(["list", "scalar", "mixed"])) if k == 1 else "list"
    upool = [-3, -1, 0, 1, 2, NAN, 0.5, -4.75]
    ux = draw(st.lists(st.integers(0, len(upool) - 1), min_size=2 * n, max_size=2 * n))
    oname = draw(_draw_name(["decoup", "#mark", "m"], names + (["b4"] if extra & 1 else []) + (["aft"] if extra & 2 else [])))
    if oname in names:                                         # (odd pools overlap): in-place is a dimension of its own below
        oname = "decoup"
    return {"names": names, "rows": rows, "thr": thr, "mode": draw(st.sampled_from([0, 1, 2, 2])), "conv": conv,
            "order": list(draw(st.permutations(list(range(k))))),
            "out": {"name": oname,
                    "init": draw(st.sampled_from([None, None, 0, 1, 7, NAN])),
                    "inplace": draw(st.sampled_from([None, None, None, 0, k - 1, draw(st.integers(0, k - 1))]))},
            "before": [upool[j] for j in ux[:n]] if extra & 1 else None,
            "after": [upool[j] for j in ux[n:]] if extra & 2 else None}


# --- (v) segmentation followed by split: the two halves of the property chained -------------------
def body_chain(case):
    """markers are produced by segmentation() from one feature and a threshold, then split() is judged
    against the oracle markers (not against what segmentation() wrote)."""
    vals, t = case["vals"], case["thr"]
    n = len(vals)
    pts = [(float(i), 0.0, 0.0) for i in range(n)]
    times = [T0 + 1000 * i for i in range(n)]
    tr = _build(pts, times, [("v", list(vals))])
    mname = case.get("out", "#mark")                            # "v": the marker replaces the tested feature (in-place use)
    segmentation(tr, "v", mname, t)
    want = [_want_marker([v], [t], False) for v in vals]
    got = tr.getAnalyticalFeature(mname)
    if [g for g in got] != want:
        raise Violation("seg-marker-wrong" if mname != "v" else "seg-in-place-output-wrong",
                        "values %s threshold %s output %r -> %s, expected %s" % (vals, t, mname, got, want))
    after = [("v", want)] if mname == "v" else [("v", list(vals)), (mname, want)]
    # the track that segmentation() marked is the one that is split
    coll = split(tr, mname)
    marked = [w == 1 for w in want]
    _judge_pieces([coll.getTrack(j) for j in range(coll.size())], _records(pts, times, after), [f[0] for f in after], marked)
    _check_split(pts, times, after, mname)
    return {"nt": any(marked) and not all(marked),
            "cls": _marker_classes(marked) + ["out-in-place" if mname == "v" else _name_class(mname, ["v"]).replace("name=", "out-name-")]}


def strat_chain():
    v = st.one_of(st.sampled_from(_LATTICE), st.just(NAN))
    return st.tuples(st.lists(v, min_size=1, max_size=20), st.sampled_from(_LATTICE[1:7]),
                     st.sampled_from(["#mark", "#mark", "v", "v", "v-1", " v", "v>0", "stop/go"])).map(
        lambda p: {"vals": p[0], "thr": p[1], "out": p[2]})


# --- (vi) follow-up operations on the pieces returned by split ---------------------------------------
# The pieces are Track objects of their own (extract() hands each of them a feature table of its own; the Obs objects
# are shared with the source - that is how the unchanged code works and nothing here depends on it).  A history
#     split -> [segmentation on the pieces | createAnalyticalFeature on one piece]* -> split of every piece on the new
#     marker -> the source judged again
# is generated; a model (feature names + values per piece) follows the operations and every call is judged against it.
_NEW_OUT = ["submark", "#m2", "lvl2"]


def _seg_args(names, out, thr, conv, mode):
    if conv == "scalar":
        args = [names[0], out, thr[0]]
    elif conv == "mixed":
        args = [[names[0]], out, thr[0]]
    else:
        args = [list(names), out, list(thr)]
    if mode == 1:
        args.append(MODE_COMPARAISON_AND)
    elif mode == 2:
        args.append(MODE_COMPARAISON_OR)
    return args


def _judge_marker(piece, pm, op, label):
    """segmentation(op) has just run on `piece` (model pm = {'names': [...], 'vals': {name: [...]}}): marker oracle on
    the values the piece held AT THAT CALL, then the model takes the marker over."""
    names, thr, out, mode_or = op["names"], op["thr"], op["out"], op["mode"] == 2
    m = len(pm["ids"])
    if not piece.hasAnalyticalFeature(out) or out not in piece.getListAnalyticalFeatures():
        raise Violation("seg-no-output", "%s: feature %r missing after segmentation" % (label, out))
    got = piece.getAnalyticalFeature(out)
    if len(got) != m:
        raise Violation("seg-no-output", "%s: marker has %d entries for %d observations" % (label, len(got), m))
    col = []
    for i in range(m):
        row = [pm["vals"][c][i] for c in names]
        g = got[i]
        if not (isinstance(g, (int, float)) and (g == 0 or g == 1)):
            raise Violation("seg-marker-not-01", "%s row %d: marker %r" % (label, i, g))
        want = _want_marker(row, thr, mode_or)
        if want is not None and g != want:
            raise Violation("seg-marker-wrong-on-piece", "%s row %d: values %s thresholds %s mode %s -> marker %r, expected %d" % (
                label, i, row, thr, "OR" if mode_or else "AND", g, want))
        col.append(int(g))
    if out not in pm["names"]:
        pm["names"].append(out)
    pm["vals"][out] = col


def _piece_records(orig, pm):
    return [orig[i][:4] + (tuple(pm["vals"][c][j] for c in pm["names"]),) for j, i in enumerate(pm["ids"])]


def _judge_piece_state(piece, orig, pm, label):
    if list(piece.getListAnalyticalFeatures()) != pm["names"]:
        raise Violation("piece-feature-list-wrong", "%s lists features %s, expected %s" % (
            label, piece.getListAnalyticalFeatures(), pm["names"]))
    want = _piece_records(orig, pm)
    got = gen.track_records(piece)
    if len(got) != len(want) or not all(
            all(same(a, b) for a, b in zip(g[:4], w[:4])) and len(g[4]) == len(w[4]) and all(same(a, b) for a, b in zip(g[4], w[4]))
            for g, w in zip(got, want)):
        raise Violation("piece-obs-altered", "%s holds %r, expected %r" % (label, got, want))


def body_pieces(case):
    mk = case["markers"]
    n = len(mk)
    times, t = [], T0
    for st_ in case["steps"]:
        times.append(t)
        t += st_
    pts = [tuple(q) for q in case["pts"]]
    mname = case["name"]
    feats = [(nm, list(vals)) for nm, vals in case["others"]]
    feats.insert(case["pos"], (mname, [float(v) if case["float"] else int(v) for v in mk]))
    feats += [(nm, list(vals)) for nm, vals in case["tested"]]
    names0 = [f[0] for f in feats]
    marked = [v == 1 for v in mk]
    orig = _records(pts, times, feats)
    cls = ["via=" + case["via"], "marker-" + _name_class(mname, [f[0] for f in feats if f[0] != mname])]

    src = _build(pts, times, feats)
    if case["via"] == "split":
        coll = split(src, mname)
    else:
        from tracklib.core.track_collection import TrackCollection
        coll = TrackCollection([src]).split_segmentation(mname)
    pieces = [coll.getTrack(j) for j in range(coll.size())]
    idx = _judge_pieces(pieces, orig, names0, marked)
    pms = [{"ids": ids, "names": list(names0), "vals": {c: [dict(feats)[c][i] for i in ids] for c in names0}} for ids in idx]
    live = [j for j in range(len(pieces)) if idx[j]]                 # an empty last piece takes no feature (documented error)
    if len(idx) > len(live):
        cls.append("empty-last-piece-skipped")
    cls.append("pieces=%s" % ("0" if not live else "1" if len(live) == 1 else "2+"))

    overwritten = set()                                                  # names of the source whose slots were written through a piece
    newseg = 0
    for k, op in enumerate(case["ops"]):
        if not live:
            break
        if op["op"] == "create":
            j = live[op["piece"] % len(live)]
            pieces[j].createAnalyticalFeature(op["name"], op["val"])
            if op["name"] not in pms[j]["names"]:                        # an existing name: documented no-op
                pms[j]["names"].append(op["name"])
                pms[j]["vals"][op["name"]] = [op["val"]] * len(idx[j])
                cls.append("create-new-on-piece")
            else:
                cls.append("create-existing-on-piece")
            _judge_piece_state(pieces[j], orig, pms[j], "op %d create, piece %d" % (k, j))
            continue
        out = op["out"]
        sel = {"all": live, "rev": live[::-1], "odd": live[1::2] or live[:1], "first": live[:1]}[op["which"]]
        args = _seg_args(op["names"], out, op["thr"], op["conv"], op["mode"])
        fresh = [j for j in sel if out not in pms[j]["names"]]
        if op["how"] == "collection":
            from tracklib.core.track_collection import TrackCollection
            TrackCollection([pieces[j] for j in sel]).segmentation(*args)
            for j in sel:
                _judge_marker(pieces[j], pms[j], op, "op %d collection.segmentation, piece %d of %d" % (k, j, len(pieces)))
        else:
            for j in sel:
                segmentation(pieces[j], *args)
                _judge_marker(pieces[j], pms[j], op, "op %d segmentation, piece %d of %d" % (k, j, len(pieces)))
        if out in names0:
            overwritten.add(out)
        cls.append("seg-%s-out-%s-on-%s" % (op["how"], "in-place" if out in op["names"] else "existing" if len(fresh) < len(sel) else "new",
                                            "1-piece" if len(sel) == 1 else "2+pieces"))
        if len(fresh) >= 2:
            newseg += 1
        # every piece: nothing else moved; then the piece is split on the marker it just received
        for j in live:
            _judge_piece_state(pieces[j], orig, pms[j], "after op %d, piece %d" % (k, j))
        for j in sel:
            sub = split(pieces[j], out)
            _judge_pieces([sub.getTrack(i) for i in range(sub.size())], _piece_records(orig, pms[j]), pms[j]["names"],
                          [v == 1 for v in pms[j]["vals"][out]], pre="split2")
    # the source again: same feature list, same values (a slot written through a piece that shares its observations
    # is not judged), and - marker untouched - the same partition from a second split of the same object
    if list(src.getListAnalyticalFeatures()) != names0:
        raise Violation("source-feature-list-changed", "source listed %s, now lists %s after operations on its pieces" % (
            names0, src.getListAnalyticalFeatures()))
    keep = [c for c in range(len(names0)) if names0[c] not in overwritten]
    for g, w in zip(gen.track_records(src), orig):
        if not (all(same(a, b) for a, b in zip(g[:4], w[:4])) and len(g[4]) == len(w[4])
                and all(same(g[4][c], w[4][c]) for c in keep)):
            raise Violation("source-obs-altered", "source observation %r, was %r (features %s)" % (g, w, names0))
    if src.size() != n:
        raise Violation("source-obs-altered", "source has %d observations, had %d" % (src.size(), n))
    if mname not in overwritten and not overwritten:
        again = split(src, mname)
        _judge_pieces([again.getTrack(j) for j in range(again.size())], orig, names0, marked, pre="resplit")
        cls.append("source-split-again")
    if overwritten:
        cls.append("source-slot-written-through-piece")
    if newseg:
        cls.append("new-output-on-2+pieces")
    return {"nt": len(live) >= 2 and any(o["op"] == "seg" for o in case["ops"]), "cls": sorted(set(cls + _marker_classes(marked)))}


@st.composite
def strat_pieces(draw):
    n = draw(st.integers(2, 20))
    dens = draw(st.sampled_from([0, 10, 20, 30, 30, 50, 80]))
    mk = [1 if (v * 61 + 17) % 100 < dens else 0 for v in draw(st.lists(st.integers(0, 99), min_size=n, max_size=n))]
    edge = draw(st.sampled_from(["", "", "mid", "mid", "first", "last", "both"]))
    if edge in ("first", "both"):
        mk[0] = 1
    if edge in ("last", "both"):
        mk[-1] = 1
    if edge == "mid":
        mk[(n - 1) // 2] = 1
    c = draw(st.lists(st.integers(-5, 5), min_size=n, max_size=n))
    pts = [[float(c[i]), float(c[(i * 7 + 3) % n]), float(c[(i * 5 + 1) % n])] for i in range(n)]
    steps = draw(st.lists(st.sampled_from([1, 1000, 1000, 60000]), min_size=n, max_size=n))
    nother = draw(st.integers(0, 2))
    pool = [-3, -1, 0, 1, 2, 1.0, NAN, 0.25]
    others = []
    for name in draw(st.permutations(["k", "w", "abs_curv", "alt"]))[:nother]:     # disjoint from _TESTED and _NAMES
        ix = draw(st.lists(st.integers(0, len(pool) - 1), min_size=n, max_size=n))
        others.append([name, [pool[j] for j in ix]])
    mname = draw(_draw_name(_NAMES, [o[0] for o in others]))
    kt = draw(st.sampled_from([1, 1, 2]))
    tnames = list(draw(st.permutations(_TESTED))[:kt])
    tthr = [draw(st.sampled_from(_LATTICE[2:8])) for _ in range(kt)]
    ix = draw(st.lists(st.integers(0, 23), min_size=n * kt, max_size=n * kt))
    tested = [[tnames[c], [_cell(ix[i * kt + c], tthr[c]) for i in range(n)]] for c in range(kt)]
    existing = [mname] + [o[0] for o in others]
    ops = []
    for _ in range(draw(st.sampled_from([1, 1, 2, 2, 3]))):
        if draw(st.integers(0, 4)) == 0:
            ops.append({"op": "create", "piece": draw(st.integers(0, 5)),
                        "name": draw(st.sampled_from(_NEW_OUT + ["extra"] + existing)), "val": draw(st.sampled_from([0, 0.0, 7, -1.5]))})
            continue
        k = draw(st.integers(1, kt))
        cols = sorted(draw(st.permutations(list(range(kt))))[:k])
        ops.append({"op": "seg", "how": draw(st.sampled_from(["direct", "direct", "collection"])),
                    "which": draw(st.sampled_from(["all", "all", "all", "rev", "odd", "first"])),
                    "names": [tnames[c] for c in cols],
                    "thr": [draw(st.sampled_from([tthr[c], tthr[c], tthr[c] + 0.5, tthr[c] - 1])) for c in cols],
                    "mode": draw(st.sampled_from([0, 1, 2])),
                    "conv": draw(st.sampled_from(["list", "scalar", "mixed"])) if k == 1 else "list",
                    # a new name, an existing unrelated feature (incl. the marker), or one of the features this call tests
                    "out": draw(st.sampled_from(_NEW_OUT + _NEW_OUT + existing + [tnames[c] for c in cols] * 2))})
    return {"pts": pts, "steps": steps, "markers": mk, "name": mname, "pos": draw(st.integers(0, nother)),
            "float": draw(st.booleans()), "others": others, "tested": tested,
            "via": draw(st.sampled_from(["split", "split", "split_segmentation"])), "ops": ops}


RULE = ("markers: every 0/1 marker vector of length 1..12 (8190), each run with 6 feature layouts (marker feature "
        "first/middle/last/alone, int or float values, 6 names: 4 identifiers, 'k-w' next to features k and w, ' stop/go'); "
        "split_random: Hypothesis, 1..60 observations, marker density "
        "0..1 with forced first/last markers, repeated positions, 0..3 other features; the NAME of the marker feature is generated: "
        "identifier / name with characters + - / * ^ > < ( ) = ' / leading or trailing blank / expression over (or blank-padded name of) "
        "the other features of the track; a failure that disappears when the marker is renamed gets the key split-marker-name-not-opaque; "
        "seg_grid: for 1..3 tested features, "
        "thresholds from {-1,0,2.5}^k, mode omitted/AND/OR, the track holds one row for every below/equal/above/NaN pattern "
        "(4^k rows), margins 0.5 and 2^-20, output written to a new / existing feature and, every table once more, over the first / "
        "last tested feature (in place); seg_random: Hypothesis on a half-integer lattice with NaN, values equal to the "
        "threshold, 1..12 rows, names of tested and output features generated like the marker names, output = new name / existing "
        "unrelated feature / one of the tested features (first, last, any position: judged against the values before the call); "
        "chain: segmentation() into '#mark', into an oddly named feature or over the tested feature itself, then split() of that "
        "track on the marker; pieces: the output of a segmentation on a piece may be one of the features it tests. "
        "Non-trivial: split - at least one marked observation (the unmarked case is the documented empty result); "
        "segmentation - some tested value equals its threshold, or is NaN, or AND and OR modes disagree on some row; "
        "pieces - at least two non-empty pieces and a segmentation among the operations. "
        "Distinct = hash of the case.")

# coverage-guided stage of the thorough tier (vt/fuzz.py): sub-check -> libFuzzer executions
FUZZ = {'seg_random': 10000}

SUBCHECKS = [
    SubCheck("markers", body_markers, enum=enum_markers, rule="all 2^n marker vectors, n=1..12, 6 layouts / marker names each", qshards=8),
    SubCheck("split_random", body_split, strategy=strat_split, quick=3000, thorough=48000, qshards=6),
    SubCheck("seg_grid", _check_seg, enum=enum_grid, rule="all below/equal/above/NaN patterns, k=1..3, output separate and in place",
             qshards=2, tshards=2),
    SubCheck("seg_random", _check_seg, strategy=strat_seg, quick=6000, thorough=120000, qshards=6),
    SubCheck("chain", body_chain, strategy=strat_chain, quick=1500, thorough=30000),
    SubCheck("pieces", body_pieces, strategy=strat_pieces, quick=3000, thorough=60000, qshards=6,
             rule="split, then segmentation / createAnalyticalFeature on the pieces, split of the pieces, source judged again"),
]
