"""C11 - split() on a marker partitions the track; segmentation() markers reflect the thresholds.

Oracles (no tracklib code involved):
  split        : partition model on observation indices.  Every observation of a generated track
                 carries a unique timestamp, so each observation of each returned piece is mapped
                 back to its index in the input and the pieces are judged on index lists.
  segmentation : per-row fold "value > threshold" over the non-NaN tested values
                 (any -> AND mode, all -> OR mode), written out independently below."""

from hypothesis import strategies as st

from tracklib.algo.segmentation import (MODE_COMPARAISON_AND, MODE_COMPARAISON_OR, segmentation,
                                        split)

from vt import gen
from vt.core import SubCheck, Violation, same

NAN = float("nan")
T0 = gen.ms_of_fields(2020, 1, 1)

ASSUMPTIONS = [
    "a marker feature holds 0 (not marked) or 1 (marked), as int or float - what segmentation() writes and split() documents",
    "an observation is identified by its timestamp (generated strictly increasing, so unique); position, timestamp and "
    "feature values of every observation found in a piece are compared with the generated data, not with the track object",
    "split() is called with limit=0 (the documented default; the length filter is not part of the property)",
    "segmentation(): one threshold per tested feature (lists of equal length, or a bare name + bare number for one feature); "
    "tested features are ordinary analytical features; the output name differs from every tested feature",
    "OR mode, row whose tested values are all NaN: nothing demanded beyond marker in {0,1} (the statement does not fix it)",
]


# =================================================================================================
# split
# =================================================================================================
def _isnan(v):
    return isinstance(v, float) and v != v


def _build(pts, times, feats):
    """feats: ordered list of (name, values).  gen.make_track takes a dict (insertion ordered)."""
    return gen.make_track(pts, times, dict(feats))


def _check_split(pts, times, feats, mname):
    """feats = ordered [(name, values)], one of them named mname with 0/1 entries."""
    n = len(pts)
    names = [f[0] for f in feats]
    markers = dict(feats)[mname]
    marked = [v == 1 for v in markers]
    orig = [(pts[i][0], pts[i][1], pts[i][2], times[i], tuple(f[1][i] for f in feats)) for i in range(n)]
    index_of_time = {times[i]: i for i in range(n)}

    tr = _build(pts, times, feats)
    coll = split(tr, mname)
    pieces = [coll.getTrack(j) for j in range(coll.size())]

    if not any(marked):
        if pieces:
            raise Violation("split-unmarked-not-empty",
                            "no marked observation, yet %d piece(s) returned (sizes %s)" % (
                                len(pieces), [p.size() for p in pieces]))
        return

    idx_pieces = []
    for j, p in enumerate(pieces):
        ids = []
        pnames = p.getListAnalyticalFeatures() if p.size() > 0 else names
        if list(pnames) != names:
            raise Violation("split-features-lost", "piece %d lists features %s, track had %s" % (j, pnames, names))
        for rec in gen.track_records(p):
            i = index_of_time.get(rec[3])
            if i is None:
                raise Violation("split-foreign-obs", "piece %d holds an observation with a timestamp not in the track" % j)
            o = orig[i]
            if not (same(rec[0], o[0]) and same(rec[1], o[1]) and same(rec[2], o[2])
                    and len(rec[4]) == len(o[4]) and all(same(a, b) for a, b in zip(rec[4], o[4]))):
                raise Violation("split-obs-altered", "piece %d: observation %d is %r, was %r" % (j, i, rec, o))
            ids.append(i)
        idx_pieces.append(ids)

    flat = [i for ids in idx_pieces for i in ids]
    desc = "markers %s -> pieces %s" % ([int(m) for m in marked], idx_pieces)
    if flat != list(range(n)):
        if len(set(flat)) < len(flat):
            raise Violation("split-obs-duplicated", desc)
        if set(flat) != set(range(n)):
            raise Violation("split-obs-lost", desc)
        raise Violation("split-order", desc)
    for j, ids in enumerate(idx_pieces):
        last = j == len(idx_pieces) - 1
        if not ids:
            if not last:
                raise Violation("split-empty-piece", desc)
            continue
        if any(marked[i] for i in ids[:-1]):
            raise Violation("split-marker-inside-piece", desc)
        if not last and not marked[ids[-1]]:
            raise Violation("split-piece-not-ending-on-marker", desc)


def _marker_classes(marked):
    n = len(marked)
    cls = []
    k = sum(marked)
    if k == 0:
        cls.append("no-marker")
    else:
        if marked[0]:
            cls.append("first-marked")
        if marked[-1]:
            cls.append("last-marked")
        if any(marked[i] and marked[i + 1] for i in range(n - 1)):
            cls.append("adjacent-markers")
        if k == n:
            cls.append("all-marked")
        if not marked[0] and not marked[-1] and not any(marked[i] and marked[i + 1] for i in range(n - 1)):
            cls.append("interior-isolated-only")
    return cls


# --- (i) all 2^n marker vectors, n = 1..12 --------------------------------------------------------
# every vector is run in four settings: marker name / position of the marker feature among the
# other features / int or float 0-1 values
_VARIANTS = [("m", "last", int), ("#mark", "first", float), ("decoup3", "middle", int), ("seg", "only", float)]


def enum_markers(tier):
    for n in range(1, 13):
        for b in range(1 << n):
            yield {"markers": [(b >> i) & 1 for i in range(n)]}


def body_markers(case):
    mk = case["markers"]
    n = len(mk)
    pts = [(float(i), float((2 * i) % 7), float(i % 3)) for i in range(n)]
    times = [T0 + 1000 * i for i in range(n)]
    k = [float(10 + i) for i in range(n)]
    w = [NAN if i % 4 == 1 else 0.5 * i for i in range(n)]
    for name, where, typ in _VARIANTS:
        mf = (name, [typ(v) for v in mk])
        feats = {"last": [("k", k), ("w", w), mf], "first": [mf, ("k", k), ("w", w)],
                 "middle": [("k", k), mf, ("w", w)], "only": [mf]}[where]
        _check_split(pts, times, feats, name)
    marked = [v == 1 for v in mk]
    return {"nt": any(marked), "cls": _marker_classes(marked) + ["n=%02d" % n]}


# --- (ii) random longer tracks -------------------------------------------------------------------
_NAMES = ["m", "#mark", "decoup3", "stop", "pause_1", "M"]
_OTHER = ["speed", "k", "w", "Temp", "abs_curv"]


@st.composite
def strat_split(draw):
    """few, flat draws (cheap to generate and to shrink); positions are data that split() must carry through"""
    n = draw(st.one_of(st.integers(1, 12), st.integers(13, 60)))
    dens = draw(st.sampled_from([0, 3, 8, 8, 20, 50, 90, 100]))
    mk = [1 if (v * 61 + 17) % 100 < dens else 0 for v in draw(st.lists(st.integers(0, 99), min_size=n, max_size=n))]
    edge = draw(st.sampled_from(["", "", "", "first", "last", "both"]))
    if edge in ("first", "both"):
        mk[0] = 1
    if edge in ("last", "both"):
        mk[-1] = 1
    scale = draw(st.sampled_from([1.0, 1.0, 0.001, 1234.5678]))
    c = draw(st.lists(st.integers(-5, 5), min_size=n, max_size=n))      # small range: positions repeat often
    pts = [[c[i] * scale, c[(i * 7 + 3) % n] * scale, float(c[(i * 5 + 1) % n])] for i in range(n)]
    steps = draw(st.lists(st.sampled_from([1, 125, 1000, 1000, 60000, 86400000]), min_size=n, max_size=n))
    nother = draw(st.integers(0, 3))
    pool = [-3, -2, -1, 0, 1, 2, 3, 0, 1, 1.0, NAN, 0.25, -7.5]
    others = []
    for name in draw(st.permutations(_OTHER))[:nother]:
        ix = draw(st.lists(st.integers(0, len(pool) - 1), min_size=n, max_size=n))
        others.append([name, [pool[j] for j in ix]])
    return {"pts": pts, "steps": steps, "markers": mk, "name": draw(st.sampled_from(_NAMES)),
            "pos": draw(st.integers(0, nother)), "float": draw(st.booleans()), "others": others}


def body_split(case):
    mk = case["markers"]
    n = len(mk)
    times, t = [], T0
    for s in case["steps"]:
        times.append(t)
        t += s
    mf = (case["name"], [float(v) if case["float"] else int(v) for v in mk])
    feats = [(nm, list(vals)) for nm, vals in case["others"]]
    feats.insert(case["pos"], mf)
    _check_split([tuple(p) for p in case["pts"]], times, feats, case["name"])
    marked = [v == 1 for v in mk]
    return {"nt": any(marked), "cls": _marker_classes(marked) + ["n<=12" if n <= 12 else "n>12",
                                                               "other-features=%d" % len(case["others"])]}


# =================================================================================================
# segmentation
# =================================================================================================
def _want_marker(row, thr, mode_or):
    """1 / 0 / None (not demanded).  row, thr: tested values and their thresholds of one observation."""
    cmp = [v > t for v, t in zip(row, thr) if not _isnan(v)]
    if mode_or:
        if not cmp:
            return None
        return 1 if all(cmp) else 0
    return 1 if any(cmp) else 0


def _check_seg(case):
    """case: names [k], rows [n][k], thr [k], mode 0 (argument omitted = AND) | 1 (AND) | 2 (OR),
    conv 'list' | 'scalar' | 'mixed' (the latter two only for k == 1),
    out {'name', 'init': None (new feature) | number (existing feature filled with it)},
    before / after: lists of values of two unrelated features placed before / after the tested ones."""
    names, rows, thr = case["names"], case["rows"], case["thr"]
    n, k = len(rows), len(names)
    out = case["out"]["name"]
    feats = []
    if case.get("before") is not None:
        feats.append(("b4", list(case["before"])))
    for c in case.get("order", range(k)):                 # creation order of the tested features in the track
        feats.append((names[c], [rows[i][c] for i in range(n)]))
    if case["out"]["init"] is not None:
        feats.append((out, [case["out"]["init"]] * n))
    if case.get("after") is not None:
        feats.append(("aft", list(case["after"])))
    pts = [(float(i), float(i % 3), 0.0) for i in range(n)]
    tr = _build(pts, None, feats)

    mode = case["mode"]
    if case["conv"] == "scalar":
        args = [names[0], out, thr[0]]
    elif case["conv"] == "mixed":
        args = [[names[0]], out, thr[0]]
    else:
        args = [list(names), out, list(thr)]
    if mode == 1:
        args.append(MODE_COMPARAISON_AND)
    elif mode == 2:
        args.append(MODE_COMPARAISON_OR)
    segmentation(tr, *args)

    if not tr.hasAnalyticalFeature(out) or out not in tr.getListAnalyticalFeatures():
        raise Violation("seg-no-output", "feature %r missing after segmentation" % out)
    got = tr.getAnalyticalFeature(out)
    if len(got) != n:
        raise Violation("seg-no-output", "marker has %d entries for %d observations" % (len(got), n))
    mode_or = mode == 2
    demanded = 0
    info = {"eq": False, "nan": False, "differ": False, "allnan": False, "ones": 0, "zeros": 0}
    for i in range(n):
        g = got[i]
        if not (isinstance(g, (int, float)) and (g == 0 or g == 1)):
            raise Violation("seg-marker-not-01", "row %d: marker %r" % (i, g))
        want = _want_marker(rows[i], thr, mode_or)
        w_and, w_or = _want_marker(rows[i], thr, False), _want_marker(rows[i], thr, True)
        info["eq"] |= any(v == t for v, t in zip(rows[i], thr))
        info["nan"] |= any(_isnan(v) for v in rows[i])
        info["allnan"] |= all(_isnan(v) for v in rows[i])
        info["differ"] |= (w_or is not None and w_and != w_or)
        if want is None:
            continue
        demanded += 1
        info["ones" if want else "zeros"] += 1
        if g != want:
            eq = any(v == t for v, t in zip(rows[i], thr) if not _isnan(v))
            nn = sum(1 for v in rows[i] if not _isnan(v))
            if g == (w_or if not mode_or else w_and) and w_or is not None and w_and != w_or:
                key = "seg-mode-mixed-up"
            elif eq and want == 0:
                key = "seg-equal-counts-as-exceeding"
            elif nn < k:
                key = "seg-nan-not-ignored"
            else:
                key = "seg-marker-wrong"
            raise Violation(key, "row %d: values %s thresholds %s mode %s -> marker %r, expected %d" % (
                i, rows[i], thr, "OR" if mode_or else "AND", g, want))
    # everything else untouched
    for name, vals in feats:
        if name == out:
            continue
        now = tr.getAnalyticalFeature(name)
        if len(now) != n or not all(same(a, b) for a, b in zip(now, vals)):
            raise Violation("seg-other-feature-changed", "feature %r: %s -> %s" % (name, vals, now))
    cls = ["k=%d" % k, "mode-or" if mode_or else "mode-and", "out-existing" if case["out"]["init"] is not None else "out-new"]
    for lab, key in (("value==threshold", "eq"), ("nan", "nan"), ("and!=or", "differ"), ("all-nan-row", "allnan")):
        if info[key]:
            cls.append(lab)
    if info["ones"] and info["zeros"]:
        cls.append("markers-mixed")
    if demanded == 0:
        return {"undef": True, "cls": cls}
    nt = info["eq"] or info["nan"] or info["differ"]
    return {"nt": nt, "cls": cls}


# --- (iii) complete grid: every below/equal/above/NaN pattern of 1..3 tested features -----------
_GRID_THR = [-1, 0, 2.5]
_TESTED = ["Temp", "heading", "speed"]


def enum_grid(tier):
    import itertools
    for k in (1, 2, 3):
        for thr in itertools.product(_GRID_THR, repeat=k):
            for mode in (0, 1, 2):
                for delta in (0.5, 2.0 ** -20):
                    rows = []
                    for pat in itertools.product(range(4), repeat=k):
                        rows.append([(t - delta, t, t + delta, NAN)[p] for p, t in zip(pat, thr)])
                    convs = ["list", "scalar", "mixed"] if k == 1 else ["list"]
                    for conv in convs:
                        yield {"names": _TESTED[:k], "rows": rows, "thr": list(thr), "mode": mode, "conv": conv,
                               "out": {"name": "decoup", "init": None if delta == 0.5 else 7},
                               "before": None, "after": None}


# --- (iv) random ---------------------------------------------------------------------------------
_LATTICE = [0.5 * j for j in range(-4, 7)]           # -2 .. 3 step 0.5


def _cell(j, t):
    """value number j of the pool of a column with threshold t (equality and NaN are frequent by construction)"""
    pool = _LATTICE + [t, t, t, NAN, NAN, NAN, float(t), t + 1, t - 1, t + 2.0 ** -30, t - 2.0 ** -30, 36.6, -17.25]
    return pool[j % len(pool)]


@st.composite
def strat_seg(draw):
    n = draw(st.integers(1, 12))
    k = draw(st.integers(1, 3))
    names = list(draw(st.permutations(_TESTED + ["f1", "#tmp"]))[:k])
    thr = [draw(st.sampled_from(_LATTICE + [0, 1, -1, 35])) for _ in range(k)]
    ix = draw(st.lists(st.integers(0, 23), min_size=n * k, max_size=n * k))
    rows = [[_cell(ix[i * k + c], thr[c]) for c in range(k)] for i in range(n)]
    if draw(st.integers(0, 3)) == 0:                      # a row with every tested value NaN
        rows[draw(st.integers(0, n - 1))] = [NAN] * k
    conv = draw(st.sampled_from(["list", "scalar", "mixed"])) if k == 1 else "list"
    upool = [-3, -1, 0, 1, 2, NAN, 0.5, -4.75]
    extra = draw(st.integers(0, 3))
    ux = draw(st.lists(st.integers(0, len(upool) - 1), min_size=2 * n, max_size=2 * n))
    return {"names": names, "rows": rows, "thr": thr, "mode": draw(st.sampled_from([0, 1, 2, 2])), "conv": conv,
            "order": list(draw(st.permutations(list(range(k))))),
            "out": {"name": draw(st.sampled_from(["decoup", "#mark", "m"])),
                    "init": draw(st.sampled_from([None, None, 0, 1, 7, NAN]))},
            "before": [upool[j] for j in ux[:n]] if extra & 1 else None,
            "after": [upool[j] for j in ux[n:]] if extra & 2 else None}


# --- (v) segmentation followed by split: the two halves of the property chained -------------------
def body_chain(case):
    """markers are produced by segmentation() from one feature and a threshold, then split() is judged
    against the oracle markers (not against what segmentation() wrote)."""
    vals, t = case["vals"], case["thr"]
    n = len(vals)
    pts = [(float(i), 0.0, 0.0) for i in range(n)]
    times = [T0 + 1000 * i for i in range(n)]
    tr = _build(pts, times, [("v", list(vals))])
    segmentation(tr, "v", "#mark", t)
    want = [_want_marker([v], [t], False) for v in vals]
    got = tr.getAnalyticalFeature("#mark")
    if [g for g in got] != want:
        raise Violation("seg-marker-wrong", "values %s threshold %s -> %s, expected %s" % (vals, t, got, want))
    _check_split(pts, times, [("v", list(vals)), ("#mark", want)], "#mark")
    marked = [w == 1 for w in want]
    return {"nt": any(marked) and not all(marked), "cls": _marker_classes(marked)}


def strat_chain():
    v = st.one_of(st.sampled_from(_LATTICE), st.just(NAN))
    return st.tuples(st.lists(v, min_size=1, max_size=20), st.sampled_from(_LATTICE[1:7])).map(
        lambda p: {"vals": p[0], "thr": p[1]})


RULE = ("markers: every 0/1 marker vector of length 1..12 (8190), each run with 4 feature layouts (marker feature "
        "first/middle/last/alone, int or float values, 4 names); split_random: Hypothesis, 1..60 observations, marker density "
        "0..1 with forced first/last markers, repeated positions, 0..3 other features; seg_grid: for 1..3 tested features, "
        "thresholds from {-1,0,2.5}^k, mode omitted/AND/OR, the track holds one row for every below/equal/above/NaN pattern "
        "(4^k rows), margins 0.5 and 2^-20; seg_random: Hypothesis on a half-integer lattice with NaN, values equal to the "
        "threshold, 1..12 rows; chain: segmentation() then split() on its marker. "
        "Non-trivial: split - at least one marked observation (the unmarked case is the documented empty result); "
        "segmentation - some tested value equals its threshold, or is NaN, or AND and OR modes disagree on some row. "
        "Distinct = hash of the case.")

# coverage-guided stage of the thorough tier (vt/fuzz.py): sub-check -> libFuzzer executions
FUZZ = {'seg_random': 10000}

SUBCHECKS = [
    SubCheck("markers", body_markers, enum=enum_markers, rule="all 2^n marker vectors, n=1..12", qshards=8),
    SubCheck("split_random", body_split, strategy=strat_split, quick=3000, thorough=48000, qshards=6),
    SubCheck("seg_grid", _check_seg, enum=enum_grid, rule="all below/equal/above/NaN patterns, k=1..3", qshards=2, tshards=2),
    SubCheck("seg_random", _check_seg, strategy=strat_seg, quick=6000, thorough=120000, qshards=6),
    SubCheck("chain", body_chain, strategy=strat_chain, quick=1500, thorough=30000),
]
