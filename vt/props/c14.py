"""C14 - coordinate conversions round-trip and agree with the WGS84 ellipsoid.

Oracles: (a) inverses (geo->ecef->geo, geo->enu->geo, ecef->enu->ecef, enu(b1)->enu(b2)->enu(b1),
geo->Lambert93->geo); (b) an own closed-form WGS84 forward conversion written with the
semi-axes (a, b) instead of the eccentricity; (c) the textbook east-north-up rotation applied to
(b).  Whole-track conversions are compared point-wise with the single-point calls and must
record the base they used."""
import math

from hypothesis import strategies as st

from tracklib.core.obs import Obs
from tracklib.core.obs_coords import ECEFCoords, ENUCoords, GeoCoords
from tracklib.core.obs_time import ObsTime
from tracklib.core.track import Track

from vt.core import SubCheck, Violation

TOL_DEG = 1e-9          # stated: 1e-9 degree
TOL_M = 1e-3            # stated: 1 mm
KEY_FRAME = "enu-base-frame-mismatch"
TOL_FORM = 1e-6         # closed form / base -> (0,0,0): metres
LAT_MAX = 89.8999999    # open interval (-89.9, 89.9)
H_LO, H_HI = -1000.0, 10000.0
L93 = 2154
L93_LON = (-5.0, 10.0)
L93_LAT = (41.0, 51.5)

ASSUMPTIONS = [
    "WGS84: a = 6378137 m, 1/f = 298.257223563 (the constants tracklib documents as Re, Fe)",
    "reference forward conversion written with the semi-axes: N = a^2/sqrt(a^2 cos^2 + b^2 sin^2), Z = (b^2/a^2 N + h) sin",
    "east-north-up = rotation of the ECEF difference by the geodetic longitude/latitude of the base (textbook definition)",
    "domain: lon in [-180,180], |lat| < 89.9, h in [-1000,10000] m, same for bases; Lambert-93 inside lon [-5,10], lat [41,51.5]",
    "longitudes are compared modulo 360 degrees; the 1e-9 degree bound is applied to the longitude itself (not scaled by cos(lat)), "
    "as the statement reads - at |lat| = 89.9 that is 0.19 micrometres on the ground",
    "a base may be handed over as GeoCoords or as ECEFCoords (both documented); Track records it in geographic form, so a track "
    "that went out with an ECEF base comes back through base.toGeoCoords() - that asymmetric pair is checked for single points too",
    "sequences: a base object may be reused by many calls and edited in place between them (setX/setY/setZ or attribute "
    "assignment); each conversion is judged with the value the base has when the call is made; conversions never modify the base",
    "UTM inverse and STANDARD_PROJ=2 (experimental stereographic branch) are outside the statement",
]

# --- own WGS84 ------------------------------------------------------------------------------------
A = 6378137.0
INVF = 298.257223563
B = A - A / INVF


def ref_ecef(lon, lat, h):
    la, ph = math.radians(lon), math.radians(lat)
    c, s = math.cos(ph), math.sin(ph)
    n = A * A / math.sqrt(A * A * c * c + B * B * s * s)
    return ((n + h) * c * math.cos(la), (n + h) * c * math.sin(la), (B * B / (A * A) * n + h) * s)


def ref_enu(p, b):
    """p, b geographic triples -> east, north, up of p seen from b"""
    P, Q = ref_ecef(*p), ref_ecef(*b)
    dx, dy, dz = P[0] - Q[0], P[1] - Q[1], P[2] - Q[2]
    la, ph = math.radians(b[0]), math.radians(b[1])
    sl, cl, sp, cp = math.sin(la), math.cos(la), math.sin(ph), math.cos(ph)
    east = -sl * dx + cl * dy
    north = -sp * cl * dx - sp * sl * dy + cp * dz
    up = cp * cl * dx + cp * sl * dy + sp * dz
    return east, north, up


def dlon(a, b):
    d = (a - b) % 360.0
    return min(d, 360.0 - d)


# --- comparison helpers ---------------------------------------------------------------------------
def _num(v, what):
    if not isinstance(v, (int, float)) or v != v or v in (math.inf, -math.inf):
        raise Violation("not-finite", "%s = %r" % (what, v))
    return float(v)


def geo_of(g, what):
    if not isinstance(g, GeoCoords):
        raise Violation("wrong-type", "%s returned %s, expected GeoCoords" % (what, type(g).__name__))
    return (_num(g.lon, what + ".lon"), _num(g.lat, what + ".lat"), _num(g.hgt, what + ".hgt"))


def ecef_of(e, what):
    if not isinstance(e, ECEFCoords):
        raise Violation("wrong-type", "%s returned %s, expected ECEFCoords" % (what, type(e).__name__))
    return (_num(e.X, what + ".X"), _num(e.Y, what + ".Y"), _num(e.Z, what + ".Z"))


def enu_of(e, what):
    if not isinstance(e, ENUCoords):
        raise Violation("wrong-type", "%s returned %s, expected ENUCoords" % (what, type(e).__name__))
    return (_num(e.E, what + ".E"), _num(e.N, what + ".N"), _num(e.U, what + ".U"))


def need_geo(key, got, want, what):
    a, b, c = dlon(got[0], want[0]), abs(got[1] - want[1]), abs(got[2] - want[2])
    if a > TOL_DEG or b > TOL_DEG or c > TOL_M:
        raise Violation(key, "%s: got %r, want %r (dlon %.3g deg, dlat %.3g deg, dh %.3g m)" % (what, got, want, a, b, c))


def need_m(key, got, want, tol, what):
    d = max(abs(got[i] - want[i]) for i in range(3))
    if d > tol:
        raise Violation(key, "%s: got %r, want %r (off by %.3g m)" % (what, got, want, d))


def mk_base(b, kind):
    """the base as the object handed to tracklib: geographic, or Earth-centred built with the OWN formula"""
    if kind == "ecef":
        return ECEFCoords(*ref_ecef(*b))
    return GeoCoords(*b)


# --- (i) single points ----------------------------------------------------------------------------
def _check_point(p, b1, b2, kind):
    gp = GeoCoords(*p)
    # forward against the closed form
    e = ecef_of(gp.toECEFCoords(), "GeoCoords.toECEFCoords")
    need_m("ecef-not-wgs84", e, ref_ecef(*p), TOL_FORM, "GeoCoords%r.toECEFCoords()" % (p,))
    # geo -> ecef -> geo
    need_geo("rt-geo-ecef-geo", geo_of(gp.toECEFCoords().toGeoCoords(), "ECEFCoords.toGeoCoords"), p,
             "geo->ecef->geo of %r" % (p,))
    # the inverse alone, fed with the reference ECEF
    need_geo("ecef-to-geo-wrong", geo_of(ECEFCoords(*ref_ecef(*p)).toGeoCoords(), "ECEFCoords.toGeoCoords"), p,
             "toGeoCoords of reference ECEF of %r" % (p,))
    base = mk_base(b1, kind)
    # geo -> enu(base) -> geo
    en = gp.toENUCoords(base)
    env = enu_of(en, "GeoCoords.toENUCoords")
    need_m("enu-not-east-north-up", env, ref_enu(p, b1), TOL_M, "GeoCoords%r.toENUCoords(base %r)" % (p, b1))
    need_geo("rt-geo-enu-geo", geo_of(en.toGeoCoords(mk_base(b1, kind)), "ENUCoords.toGeoCoords"), p,
             "geo->enu->geo of %r, base %r (%s)" % (p, b1, kind))
    if kind == "ecef":
        # forward with the Earth-centred base, back with the geographic form of the same base (what Track records)
        rec = mk_base(b1, kind).toGeoCoords()
        need_geo(KEY_FRAME, geo_of(en.toGeoCoords(rec), "ENUCoords.toGeoCoords"), p,
                 "geo->enu(ECEF base)->geo(base.toGeoCoords()) of %r, base %r" % (p, b1))
    # ecef -> enu(base) -> ecef
    pe = gp.toECEFCoords()
    en2 = pe.toENUCoords(mk_base(b1, kind))
    need_m("enu-not-east-north-up", enu_of(en2, "ECEFCoords.toENUCoords"), ref_enu(p, b1), TOL_M,
           "ECEFCoords.toENUCoords of %r, base %r" % (p, b1))
    need_m("rt-ecef-enu-ecef", ecef_of(en2.toECEFCoords(mk_base(b1, kind)), "ENUCoords.toECEFCoords"), e, TOL_M,
           "ecef->enu->ecef of %r, base %r (%s)" % (p, b1, kind))
    # enu(b1) -> enu(b2) -> enu(b1)
    other = mk_base(b2, "geo" if kind == "ecef" else "ecef")          # same object both ways: consistent
    q = en.toENUCoords(mk_base(b1, kind), other)
    need_m("enu-not-east-north-up", enu_of(q, "ENUCoords.toENUCoords"), ref_enu(p, b2), 2 * TOL_M,
           "enu(b1)->enu(b2) of %r, b1 %r, b2 %r" % (p, b1, b2))
    back = q.toENUCoords(other, mk_base(b1, kind))
    need_m("rt-enu-enu-enu", enu_of(back, "ENUCoords.toENUCoords"), env, TOL_M,
           "enu(b1)->enu(b2)->enu(b1) of %r, b1 %r, b2 %r" % (p, b1, b2))
    # the base itself
    for b in (b1, b2, p):
        for k in ("geo", "ecef"):
            z = enu_of(GeoCoords(*b).toENUCoords(mk_base(b, k)), "GeoCoords.toENUCoords")
            need_m("base-not-origin", z, (0.0, 0.0, 0.0), TOL_FORM, "base %r in its own frame (%s base)" % (b, k))
        z = enu_of(ECEFCoords(*ref_ecef(*b)).toENUCoords(GeoCoords(*b)), "ECEFCoords.toENUCoords")
        need_m("base-not-origin", z, (0.0, 0.0, 0.0), TOL_FORM, "ecef base %r in its own frame" % (b,))


def _check_l93(p):
    gp = GeoCoords(*p)
    pr = gp.toProjCoords(L93)
    prv = enu_of(pr, "GeoCoords.toProjCoords")
    alt = enu_of(gp.toENUCoords(L93), "GeoCoords.toENUCoords(2154)")
    need_m("l93-two-entry-points-differ", alt, prv, 1e-9, "toENUCoords(2154) vs toProjCoords(2154) of %r" % (p,))
    need_geo("rt-geo-l93-geo", geo_of(pr.toGeoCoords(L93), "ENUCoords.toGeoCoords(2154)"), p,
             "geo->L93->geo of %r" % (p,))


def _cls_point(p, tag):
    out = []
    if abs(abs(p[0]) - 180.0) <= 1e-6:
        out.append(tag + "antimeridian")
    if abs(p[1]) <= 1e-5:
        out.append(tag + "equator")
    if abs(p[1]) >= 89.0:
        out.append(tag + "near-pole")
    if p[2] in (H_LO, H_HI):
        out.append(tag + "h-end")
    if abs(p[0]) <= 1e-6:
        out.append(tag + "greenwich")
    return out


def in_l93(p):
    return L93_LON[0] <= p[0] <= L93_LON[1] and L93_LAT[0] <= p[1] <= L93_LAT[1]


def in_domain(p):
    return (len(p) == 3 and all(isinstance(v, (int, float)) and v == v for v in p)
            and -180.0 <= p[0] <= 180.0 and abs(p[1]) <= LAT_MAX and H_LO <= p[2] <= H_HI)


def body_point(case):
    p, b1, b2, kind = tuple(case["p"]), tuple(case["b1"]), tuple(case["b2"]), case["base_kind"]
    if not (in_domain(p) and in_domain(b1) and in_domain(b2)):
        return {"undef": True}
    _check_point(p, b1, b2, kind)
    cls = _cls_point(p, "p:") + _cls_point(b1, "b:") + ["base-" + kind]
    if in_l93(p):
        _check_l93(p)
        cls.append("lambert93")
    d = math.dist(ref_ecef(*p), ref_ecef(*b1))
    cls.append("dist<1km" if d < 1e3 else "dist<100km" if d < 1e5 else "dist>=100km")
    if p == b1:
        cls.append("p==base")
    special = [c for c in cls if c.split(":")[-1] in ("antimeridian", "equator", "near-pole", "h-end")]
    return {"nt": bool(special) or "lambert93" in cls, "cls": cls}


# --- generators (flat: one tuple of primitives mapped to a case; no flatmap, it is the slow part) --
_U = st.floats(0.0, 1.0, allow_nan=False)          # unit draws; everything else is arithmetic on them
_S = st.floats(-1.0, 1.0, allow_nan=False)
LON_FIX = [180.0, -180.0, 0.0, 90.0, -90.0, 179.9999999999, -179.9999999999]
LAT_FIX = [0.0, LAT_MAX, -LAT_MAX, 45.0, -45.0, 89.0, -89.0, 89.5, -89.5]


def _mk_lon(m, u, k):
    if m <= 3:
        return -180.0 + 360.0 * u
    if m == 4:
        return LON_FIX[k % len(LON_FIX)]
    if m == 5:
        return 180.0 - 1e-6 * u
    if m == 6:
        return -180.0 + 1e-6 * u
    return 1e-6 * (2 * u - 1)


def _mk_lat(m, u, k):
    if m <= 2:
        return LAT_MAX * (2 * u - 1)
    if m == 3:
        return 1e-6 * (2 * u - 1)
    if m == 4:
        return LAT_FIX[k % len(LAT_FIX)]
    v = 89.0 + (LAT_MAX - 89.0) * u                  # m 5, 6, 7: polar caps
    return v if (m != 6) else -v


def _mk_h(m, u, k):
    if m <= 1:
        return H_LO + (H_HI - H_LO) * u
    if m == 2:
        return [H_LO, H_HI, 0.0][k % 3]
    return -100.0 + 600.0 * u


def _mk_geo(t, l93=False):
    (ml, ul, ma, ua, mh, uh, k) = t
    if l93:
        lon = [-5.0, 10.0, 3.0, 0.0][k % 4] if ml == 4 else L93_LON[0] + (L93_LON[1] - L93_LON[0]) * ul
        lat = [41.0, 51.5, 46.5][k % 3] if ma == 4 else L93_LAT[0] + (L93_LAT[1] - L93_LAT[0]) * ua
        return [lon, lat, _mk_h(mh, uh, k)]
    return [_mk_lon(ml, ul, k), _mk_lat(ma, ua, k), _mk_h(mh, uh, k)]


def _geo_raw():
    m = st.integers(0, 7)
    return st.tuples(m, _U, m, _U, st.integers(0, 3), _U, st.integers(0, 62))


def _geo():
    return _geo_raw().map(_mk_geo)


def _clamp(p):
    return [min(max(p[0], -180.0), 180.0), min(max(p[1], -LAT_MAX), LAT_MAX), min(max(p[2], H_LO), H_HI)]


SCALES = [1e-4, 0.05, 3.0]      # degrees: ~10 m, ~5 km, ~300 km


def _off_raw():
    return st.tuples(st.integers(0, 2), _S, _S, _S)


def _near(p, o):
    """a point metres .. a few hundred km from p (a realistic base for a local frame)"""
    sc = SCALES[o[0]]
    return _clamp([p[0] + sc * o[1], p[1] + sc * o[2], p[2] + 50.0 * o[3]])


def _pick_base(mode, p, o, g):
    """mode 0-2: near p; 3-4: anywhere; 5: p itself"""
    return _near(p, o) if mode <= 2 else (list(g) if mode <= 4 else list(p))


def strat_point():
    def build(t):
        kind, kindp, rawp, m1, o1, g1, m2, o2, g2 = t
        p = _mk_geo(rawp, l93=(kindp == 2))
        if kindp == 3:                                   # polar fix seen from a base anywhere on the globe
            p[1] = math.copysign(89.5 + (LAT_MAX - 89.5) * rawp[3], p[1] if p[1] else 1.0)
            m1 = 3
        return {"p": p, "b1": _pick_base(m1, p, o1, g1), "b2": _pick_base(m2 % 5, p, o2, g2), "base_kind": kind}
    return st.tuples(st.sampled_from(["geo", "ecef"]), st.integers(0, 3), _geo_raw(), st.integers(0, 5), _off_raw(), _geo(),
                     st.integers(0, 5), _off_raw(), _geo()).map(build)


# --- (ii) whole tracks ----------------------------------------------------------------------------
ROUTES = ["ecef", "enu", "enu-first", "enu-enu", "ecef-enu", "proj", "enu-srid"]


def _track(pts):
    tr = Track([], 1)
    for i, p in enumerate(pts):
        tr.addObs(Obs(GeoCoords(p[0], p[1], p[2]), ObsTime(2020, 1, 1, 0, 0, i % 60, 0)))
    return tr


def _positions(tr, cls_, what):
    out = []
    for i in range(tr.size()):
        pos = tr.getObs(i).position
        if not isinstance(pos, cls_):
            raise Violation("track-wrong-type", "%s: observation %d is %s, expected %s" % (
                what, i, type(pos).__name__, cls_.__name__))
        out.append((_num(pos.getX(), what), _num(pos.getY(), what), _num(pos.getZ(), what)))
    if out and (tr.getX() != [v[0] for v in out] or tr.getY() != [v[1] for v in out] or tr.getZ() != [v[2] for v in out]):
        raise Violation("track-accessors-disagree", "%s: getX/getY/getZ differ from the observations" % what)
    return out


def _pointwise(got, want, tol, what):
    if len(got) != len(want):
        raise Violation("track-size-changed", "%s: %d observations became %d" % (what, len(want), len(got)))
    for i, (g, w) in enumerate(zip(got, want)):
        d = max(abs(g[k] - w[k]) for k in range(3))
        if d > tol:
            raise Violation("track-not-pointwise", "%s: observation %d is %r, the point-wise call gives %r" % (what, i, g, w))


def _base_is(tr, want, what):
    b = tr.base
    if isinstance(want, int):
        if not (isinstance(b, int) and b == want):
            raise Violation("track-base-not-recorded", "%s: track.base = %r, expected SRID %d" % (what, b, want))
        return
    if not isinstance(b, GeoCoords):
        raise Violation("track-base-not-recorded", "%s: track.base = %r, expected geographic %r" % (what, b, want))
    got = geo_of(b, "track.base")
    if dlon(got[0], want[0]) > TOL_DEG or abs(got[1] - want[1]) > TOL_DEG or abs(got[2] - want[2]) > TOL_M:
        raise Violation("track-base-not-recorded", "%s: track.base = %r, base used = %r" % (what, got, want))


def _roundtrip(tr, pts, what, key="track-roundtrip"):
    back = _positions(tr, GeoCoords, what)
    if len(back) != len(pts):
        raise Violation("track-size-changed", "%s: %d observations became %d" % (what, len(pts), len(back)))
    for i, (g, w) in enumerate(zip(back, pts)):
        need_geo(key, g, tuple(w), "%s, observation %d" % (what, i))


def body_track(case):
    pts = [tuple(p) for p in case["pts"]]
    b1, b2, kind, route = tuple(case["b1"]), tuple(case["b2"]), case["base_kind"], case["route"]
    if not pts or len(pts) > 6 or not all(in_domain(p) for p in pts) or not (in_domain(b1) and in_domain(b2)):
        return {"undef": True}
    if route in ("proj", "enu-srid") and not all(in_l93(p) for p in pts):
        return {"undef": True}
    tr = _track(pts)
    tol_same = 1e-6          # whole-track result vs the single-point call: same formula, metres
    rt_key = KEY_FRAME if kind == "ecef" else "track-roundtrip"     # way back through the *recorded* (geographic) base
    if route == "ecef":
        tr.toECEFCoords()
        got = _positions(tr, ECEFCoords, "Track.toECEFCoords")
        _pointwise(got, [ecef_of(GeoCoords(*p).toECEFCoords(), "pt") for p in pts], tol_same, "Track.toECEFCoords")
        for g, p in zip(got, pts):
            need_m("ecef-not-wgs84", g, ref_ecef(*p), TOL_FORM, "Track.toECEFCoords of %r" % (p,))
        tr.toGeoCoords()
        _roundtrip(tr, pts, "Track geo->ecef->geo")
    elif route in ("enu", "enu-first"):
        used = pts[0] if route == "enu-first" else b1
        if route == "enu-first":
            tr.toENUCoords()
        else:
            tr.toENUCoords(mk_base(b1, kind))
        got = _positions(tr, ENUCoords, "Track.toENUCoords")
        _pointwise(got, [enu_of(GeoCoords(*p).toENUCoords(mk_base(used, "geo" if route == "enu-first" else kind)), "pt")
                         for p in pts], tol_same,
                   "Track.toENUCoords(base %r)" % (used,))
        for g, p in zip(got, pts):
            need_m("enu-not-east-north-up", g, ref_enu(p, used), TOL_M, "Track.toENUCoords of %r, base %r" % (p, used))
        _base_is(tr, used, "Track.toENUCoords(%s base)" % ("first fix as" if route == "enu-first" else kind))
        tr.toGeoCoords()                                   # uses the recorded base
        _roundtrip(tr, pts, "Track geo->enu->geo (recorded base)", "track-roundtrip" if route == "enu-first" else rt_key)
    elif route == "enu-enu":
        tr.toENUCoords(mk_base(b1, kind))
        tr.toENUCoords(mk_base(b2, kind))
        got = _positions(tr, ENUCoords, "Track.toENUCoords x2")
        for g, p in zip(got, pts):
            need_m("enu-not-east-north-up", g, ref_enu(p, b2), 2 * TOL_M, "Track enu(b1)->enu(b2) of %r, b2 %r" % (p, b2))
        _base_is(tr, b2, "Track enu(b1)->enu(b2)")
        tr.toENUCoords(mk_base(b1, kind))
        back = _positions(tr, ENUCoords, "Track.toENUCoords x3")
        _pointwise(back, [enu_of(GeoCoords(*p).toENUCoords(mk_base(b1, kind)), "pt") for p in pts], TOL_M,
                   "Track enu(b1)->enu(b2)->enu(b1)")
        _base_is(tr, b1, "Track enu(b1)->enu(b2)->enu(b1)")
        tr.toECEFCoords()                                  # uses the recorded base
        got = _positions(tr, ECEFCoords, "Track enu->ecef")
        for g, p in zip(got, pts):
            need_m("track-roundtrip", g, ref_ecef(*p), TOL_M, "Track enu->ecef (recorded base) of %r" % (p,))
        tr.toGeoCoords()
        _roundtrip(tr, pts, "Track geo->enu->enu->enu->ecef->geo", rt_key)
    elif route == "ecef-enu":
        tr.toECEFCoords()
        tr.toENUCoords(mk_base(b1, kind))
        got = _positions(tr, ENUCoords, "Track ecef->enu")
        _pointwise(got, [enu_of(GeoCoords(*p).toECEFCoords().toENUCoords(mk_base(b1, kind)), "pt") for p in pts],
                   tol_same, "Track ecef->enu")
        _base_is(tr, b1, "Track ecef->enu (%s base)" % kind)
        tr.toECEFCoords(mk_base(b1, kind))
        got = _positions(tr, ECEFCoords, "Track ecef->enu->ecef")
        for g, p in zip(got, pts):
            need_m("track-roundtrip", g, ref_ecef(*p), TOL_M, "Track ecef->enu->ecef of %r" % (p,))
        tr.toGeoCoords()
        _roundtrip(tr, pts, "Track geo->ecef->enu->ecef->geo")
    else:
        if route == "proj":
            tr.toProjCoords(L93)
        else:
            tr.toENUCoords(L93)
        got = _positions(tr, ENUCoords, "Track.toProjCoords")
        _pointwise(got, [enu_of(GeoCoords(*p).toProjCoords(L93), "pt") for p in pts], tol_same, "Track -> Lambert-93")
        _base_is(tr, L93, "Track -> Lambert-93 (%s)" % route)
        tr.toGeoCoords()                                   # uses the recorded SRID
        _roundtrip(tr, pts, "Track geo->L93->geo (recorded SRID)")
    cls = ["route-" + route, "n=%d" % len(pts)]
    if route not in ("ecef", "proj", "enu-srid", "enu-first"):
        cls.append("base-" + kind)
    sp = set()
    for p in pts:
        sp.update(_cls_point(p, "p:"))
    cls += sorted(sp)
    return {"nt": len(pts) >= 2 or bool(sp), "cls": cls}


def strat_track():
    def build(t):
        rest, route, kind, raw0, m1, o1, g1, m2, o2, g2 = t
        l93 = route in ("proj", "enu-srid")
        p0 = _mk_geo(raw0, l93)
        pts = [p0]
        for (m, o, raw) in rest:
            q = _near(p0, o) if m <= 1 else _mk_geo(raw, l93)
            if l93:
                q = [min(max(q[0], L93_LON[0]), L93_LON[1]), min(max(q[1], L93_LAT[0]), L93_LAT[1]), q[2]]
            pts.append(q)
        return {"pts": pts, "b1": _pick_base(m1, p0, o1, g1), "b2": _pick_base(m2 % 5, p0, o2, g2),
                "base_kind": kind, "route": route}
    one = st.tuples(st.integers(0, 2), _off_raw(), _geo_raw())
    more = st.sampled_from([0, 1, 1, 2, 3, 4, 5, 5]).flatmap(lambda n: st.lists(one, min_size=n, max_size=n))
    return st.tuples(more, st.sampled_from(ROUTES), st.sampled_from(["geo", "ecef"]), _geo_raw(),
                     st.integers(0, 5), _off_raw(), _geo(), st.integers(0, 5), _off_raw(), _geo()).map(build)


# --- (ii-b) histories: the SAME base objects reused across conversions and edited in place ----------------------
def body_sequence(case):
    """A program keeps a few base objects, converts points and tracks with them, and now and then edits a base in place
    (setters or attribute assignment - both public).  'For any base point' means the value the base has at the time of
    the call: every conversion is judged against the closed form with the CURRENT value of the base."""
    model = [tuple(b) for b in case["bases"]]
    if not all(in_domain(b) for b in model):
        return {"undef": True}
    objs = [GeoCoords(*b) for b in model]
    cls, edited_then_used = set(), 0
    dirty = [False] * len(objs)
    held = []
    for n, st_ in enumerate(case["steps"]):
        op = st_["op"]
        if op == "edit":
            k, new = st_["b"], tuple(st_["new"])
            if not in_domain(new):
                return {"undef": True}
            o = objs[k]
            if st_["how"] == "setters":
                o.setX(new[0]); o.setY(new[1]); o.setZ(new[2])
            elif st_["how"] == "attrs":
                o.lon, o.lat, o.hgt = new
            else:                                   # height only (same tangent point, other altitude)
                new = (model[k][0], model[k][1], new[2])
                o.setZ(new[2])
            model[k] = new
            dirty[k] = True
            cls.add("edit-" + st_["how"])
            continue
        k, p = st_["b"], tuple(st_["p"])
        if not in_domain(p):
            return {"undef": True}
        b, o = model[k], objs[k]
        what = "step %d (%s) with base object #%d = %r%s" % (n, op, k, b, " (edited in place earlier)" if dirty[k] else "")
        want = ref_enu(p, b)
        if op == "geo-enu":
            need_m("enu-not-east-north-up", enu_of(GeoCoords(*p).toENUCoords(o), "GeoCoords.toENUCoords"), want, TOL_M, what)
        elif op == "ecef-enu":
            need_m("enu-not-east-north-up", enu_of(ECEFCoords(*ref_ecef(*p)).toENUCoords(o), "ECEFCoords.toENUCoords"), want, TOL_M, what)
        elif op == "enu-geo":
            need_geo("enu-to-geo-wrong", geo_of(ENUCoords(*want).toGeoCoords(o), "ENUCoords.toGeoCoords"), p, what)
        elif op == "enu-ecef":
            need_m("enu-to-ecef-wrong", ecef_of(ENUCoords(*want).toECEFCoords(o), "ENUCoords.toECEFCoords"), ref_ecef(*p), TOL_M, what)
        elif op == "base-origin":
            need_m("base-not-origin", enu_of(GeoCoords(*b).toENUCoords(o), "GeoCoords.toENUCoords"), (0.0, 0.0, 0.0), TOL_FORM, what)
        elif op in ("track", "track-hold"):
            pts = [p] + [tuple(q) for q in st_.get("more", [])]
            tr = _track(pts)
            tr.toENUCoords(o)
            got = _positions(tr, ENUCoords, what)
            _pointwise(got, [ref_enu(q, b) for q in pts], TOL_M, what)
            _base_is(tr, b, what)
            if op == "track-hold":
                # the local track is kept while the program goes on (and may edit the base OBJECT it handed over): the
                # track "records the base it used", so converting it back at the end must still return the input
                held.append((tr, pts, b, what))
            else:
                tr.toGeoCoords()
                _roundtrip(tr, pts, what + " and back")
        else:
            raise ValueError(op)
        got_b = geo_of(o, "base object")
        if got_b != tuple(float(v) for v in b):
            raise Violation("base-object-modified", "%s: the base object now reads %r" % (what, got_b))
        cls.add("op-" + op)
        if dirty[k]:
            edited_then_used += 1
    for tr, pts, b, what in held:
        later = " (kept until the end of the history; base object #s %s edited meanwhile)" % [k for k, d in enumerate(dirty) if d]
        _base_is(tr, b, what + later)
        tr.toGeoCoords()
        _roundtrip(tr, pts, what + later + " and back", key="track-roundtrip-after-history")
        cls.add("held-track-converted-back-at-the-end")
    if edited_then_used:
        cls.add("conversion-after-in-place-edit")
    return {"nt": edited_then_used > 0, "cls": sorted(cls)}


def strat_sequence():
    def build(t):
        raws, steps = t
        bases = [_mk_geo(r) for r in raws]
        out = []
        for (kind, k, raw, o, m, how, extra) in steps:
            k %= len(bases)
            if kind <= 1:
                out.append({"op": "edit", "b": k, "new": _mk_geo(raw), "how": how})
            else:
                p = _near(bases[k], o) if m else _mk_geo(raw)
                op = ["geo-enu", "ecef-enu", "enu-geo", "enu-ecef", "base-origin", "track", "track-hold", "track"][kind - 2]
                stp = {"op": op, "b": k, "p": p}
                if op in ("track", "track-hold"):
                    stp["more"] = [_near(p, oo) for oo in extra]
                out.append(stp)
        return {"bases": bases, "steps": out}
    step = st.tuples(st.integers(0, 9), st.integers(0, 2), _geo_raw(), _off_raw(), st.booleans(),
                     st.sampled_from(["setters", "attrs", "height"]), st.lists(_off_raw(), max_size=2))
    return st.tuples(st.lists(_geo_raw(), min_size=1, max_size=3), st.lists(step, min_size=2, max_size=10)).map(build)


# --- (iii) a fixed grid (small finite space, enumerated) ------------------------------------------
GRID_LON = [-180.0, -179.999999, -135.0, -90.0, -1e-7, 0.0, 1e-7, 2.5, 45.0, 90.0, 179.999999, 180.0]
GRID_LAT = [-LAT_MAX, -89.5, -89.0, -60.0, -1e-6, 0.0, 1e-6, 30.0, 48.85, 89.0, 89.5, LAT_MAX]
GRID_H = [H_LO, 0.0, 250.0, H_HI]


def enum_grid(tier):
    k = 0
    for lo in GRID_LON:
        for la in GRID_LAT:
            for h in GRID_H:
                k += 1
                b1 = [GRID_LON[(k * 5) % len(GRID_LON)], GRID_LAT[(k * 7) % len(GRID_LAT)], GRID_H[(k * 3) % 4]]
                b2 = _clamp([lo + 0.01, la - 0.01, h + 10.0])
                yield {"p": [lo, la, h], "b1": b1, "b2": b2, "base_kind": "geo" if k % 2 else "ecef"}


RULE = ("points: Hypothesis over lon/lat/h with explicit classes (antimeridian +-180 and within 1e-6 deg of it, equator +-1e-6 deg, "
        "|lat| in [89, 89.9), h = -1000 / 10000 m, Lambert-93 box), two bases per point (metres .. hundreds of km away, anywhere on the "
        "globe, or the point itself; a quarter of the cases is a fix at |lat| in [89.5, 89.9) seen from a base anywhere), each base handed "
        "over as GeoCoords or as ECEFCoords (built with the reference formula); grid: 12 lon x 12 lat x 4 h enumerated; "
        "tracks: 1..6 such fixes through 7 conversion routes of Track (ecef, enu with given base, enu with default base, enu->enu->enu->ecef, "
        "ecef->enu->ecef, toProjCoords(2154), toENUCoords(2154)) and back.  Non-trivial: a point in one of the boundary classes "
        "or in the Lambert-93 box; a track with >= 2 fixes or a boundary-class fix.  Distinct = hash of the case.")

SUBCHECKS = [
    SubCheck("grid", body_point, enum=enum_grid, rule="12 x 12 x 4 boundary grid, bases rotated over the same grid", qshards=2, tshards=2),
    SubCheck("points", body_point, strategy=strat_point, quick=20000, thorough=300000, qshards=8),
    SubCheck("sequences", body_sequence, strategy=strat_sequence, quick=4000, thorough=80000, qshards=4,
             rule="histories of conversions that reuse 1..3 base objects, with in-place edits of a base in between"),
    SubCheck("tracks", body_track, strategy=strat_track, quick=8000, thorough=100000, qshards=8),
]
