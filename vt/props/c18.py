"""C18 - dynamic time warping: the score is the optimal monotone-coupling cost (sum of d^p, max for
p = inf = discrete Frechet), symmetric under swapping the tracks; the returned matching is such a
coupling, covers both tracks and realises the score; FDTW reports the same score.

Oracle (independent of tracklib): enumeration of *all* monotone couplings (<= 6x6 cells, 1683 paths)
and an own dynamic programme (cross-checked against the enumeration on every enumerable case)."""
import itertools
import math

import numpy as np

from hypothesis import strategies as st

from tracklib.algo.comparison import (MODE_COMPARISON_FRECHET, MODE_MATCHING_DTW, MODE_MATCHING_FDTW,
                                      MODE_MATCHING_FRECHET, MODE_MATCHING_NN, compare, match)

from tracklib.core.obs import Obs
from tracklib.core.obs_coords import GeoCoords
from tracklib.core.track import Track

from vt import gen
from vt.core import HarnessError, SubCheck, Violation, close

INF = math.inf
ENUM_CELLS = 36              # enumerate all couplings when n1*n2 <= 36 and both sizes <= 6

ASSUMPTIONS = [
    "tracks have 1..10 fixes; for ENU tracks the distance d = |dz| (dim 1), planar (dim 2) or 3-D (dim 3) Euclidean distance of the "
    "two positions, computed by the check's own arithmetic",
    "coordinate class (pairs sub-check): both tracks ENU, both geographic (GeoCoords: metres east/north/up x {1, 10, 250} around one of "
    "6 base points converted with Track.toGeoCoords(base), or longitude / latitude / height given directly on a 1e-4 degree lattice) or "
    "both geocentric (Track.toECEFCoords(base)). The property is about the optimisation, not the metric: for the non-ENU classes the "
    "cost matrix of the oracle is filled with tracklib's own point distance (the one comparison._distance selects: "
    "position.distance2DTo for dim 2, position.distanceTo for dim 3) evaluated on objects built afresh from the case, never on "
    "the objects handed to match(); enumeration / own DP remain the optimiser. GeoCoords.distance2DTo(q) projects into the local frame "
    "of q and is therefore not exactly symmetric (about 1e-7 relative); the statement does not say which argument order is 'the' "
    "distance, so for these classes each call is judged against the matrix in its own argument order and every comparison (score vs "
    "optimum, coupling cost vs score, swapped score) gets the additional absolute slack (largest asymmetry |d(a,b)-d(b,a)|^p of the "
    "case) x (longest coupling n1+n2-1; 1 for p = inf)",
    "dim 1 reads position.U and dim 2 needs distance2DTo: the unchanged code raises AttributeError for GeoCoords with dim 1 and for "
    "ECEFCoords with dim 1 or 2; these combinations are not generated and nothing is demanded for them (undef); mixed classes are not generated",
    "coupling cost = sum of d^p over the coupled pairs for p in {1, 2}, maximum of d for p = inf; a coupling starts at (first, first), "
    "ends at (last, last) and advances by one step in either or both tracks",
    "reference optimum = minimum over the complete enumeration of couplings when both sizes <= 6 (<= 1683 couplings); an own DP, "
    "required to agree exactly with the enumeration on every enumerable case, is the reference for larger sizes (up to 10 x 10)",
    "scores and realised costs are compared with relative tolerance 1e-9 (+1e-12 absolute); when several couplings are optimal any of them is accepted",
    "the matching is read from the 'pair' feature of the returned track: pair[j] = indices of track 2 linked with fix j of track 1, in list order",
    "histories: passing the result of an earlier match() (any mode, nearest neighbour included) or a track with analytical features "
    "of its own as first or second argument is ordinary use (match() deep-copies its first argument and re-initialises 'pair'); "
    "nothing is demanded of the nearest-neighbour results themselves",
    "histories: a caller may also keep its two Track objects and edit them in place between two calls (Track.translate / scale / "
    "symmetrize, position.setX/setY/setZ on one fix; integer / power-of-two parameters on lattice data, so the edited coordinates are "
    "exact); every call is judged against the coordinates the two objects hold at the time of that call, recomputed from the case",
    "compare(mode=DTW/FDTW) (normalised score) and p = 0 / user weight functions are outside the statement and not checked",
]


# ------------------------------------------------------------------------------------------------
# reference
def _term(a, b, dim, p):
    dx, dy, dz = a[0] - b[0], a[1] - b[1], a[2] - b[2]
    if dim == 1:
        s = dz * dz
    elif dim == 2:
        s = dx * dx + dy * dy
    else:
        s = dx * dx + dy * dy + dz * dz
    return s if p == 2 else math.sqrt(s)          # d^p ; for p = inf the term is d itself


def _costs(t1, t2, dim, p):
    """C[i][j] for fix i of track 2 and fix j of track 1 (tracklib's orientation)"""
    return [[_term(b, a, dim, p) for a in t1] for b in t2]


def _acc(A, c, p):
    return max(A, c) if p == INF else A + c


def _dp(C, p):
    n2, n1 = len(C), len(C[0])
    T = [[0.0] * n1 for _ in range(n2)]
    T[0][0] = _acc(0.0, C[0][0], p)
    for i in range(1, n2):
        T[i][0] = _acc(T[i - 1][0], C[i][0], p)
    for j in range(1, n1):
        T[0][j] = _acc(T[0][j - 1], C[0][j], p)
    for i in range(1, n2):
        for j in range(1, n1):
            T[i][j] = _acc(min(T[i - 1][j - 1], T[i - 1][j], T[i][j - 1]), C[i][j], p)
    return T


def _enum_opt(C, p):
    """minimum over all monotone couplings, by exhaustive depth-first enumeration (no memo, no pruning)"""
    n2, n1 = len(C), len(C[0])
    best = [INF, 0]

    def go(i, j, acc):
        if i == n2 - 1 and j == n1 - 1:
            best[1] += 1
            if acc < best[0]:
                best[0] = acc
            return
        if i + 1 < n2 and j + 1 < n1:
            go(i + 1, j + 1, _acc(acc, C[i + 1][j + 1], p))
        if i + 1 < n2:
            go(i + 1, j, _acc(acc, C[i + 1][j], p))
        if j + 1 < n1:
            go(i, j + 1, _acc(acc, C[i][j + 1], p))

    go(0, 0, _acc(0.0, C[0][0], p))
    return best[0], best[1]


def _tie_classes(T):
    """which kinds of equal-cost predecessor sets occur in the reference table"""
    out = set()
    for i in range(1, len(T)):
        for j in range(1, len(T[0])):
            ul, u, l = T[i - 1][j - 1], T[i - 1][j], T[i][j - 1]
            m = min(ul, u, l)
            k = (ul == m) + (u == m) + (l == m)
            if k >= 2:
                if ul == m:
                    out.add("tie:diag+side" if k == 2 else "tie:all-three")
                else:
                    out.add("tie:l==u<ul")
    return out


def _reference_of(C, p, what=""):
    """optimum of the coupling problem with cost matrix C (rows = fixes of track 2, columns = fixes of track 1)"""
    n2, n1 = len(C), len(C[0])
    T = _dp(C, p)
    opt = T[-1][-1]
    enumerated = n1 <= 6 and n2 <= 6 and n1 * n2 <= ENUM_CELLS
    if enumerated:
        e, npaths = _enum_opt(C, p)
        if e != opt:
            raise HarnessError("reference DP %r and enumeration %r disagree on %s p=%s" % (opt, e, what or C, p))
    return C, T, opt, enumerated


def _reference(t1, t2, dim, p):
    return _reference_of(_costs(t1, t2, dim, p), p, "%s / %s dim=%s" % (t1, t2, dim))


# ------------------------------------------------------------------------------------------------
# coordinate classes.  The property is about the optimisation, not about the metric: for tracks that are not ENU the
# point distance is tracklib's own (the call comparison._distance makes: dim 2 -> position.distance2DTo, dim 3 ->
# position.distanceTo), evaluated on objects built afresh from the case - never on the objects handed to match().
BASES = [[2.3488, 48.8534, 35.0], [0.0, 0.0, 0.0], [-70.65, -33.45, 520.0], [139.75, 35.68, 40.0], [-122.5, 64.0, 0.0],
         [179.9999, -17.5, 3.0]]
LONLAT0 = [[2.34, 48.85, 30], [0, 0, 0], [-70.65, -33.45, 500], [139.75, 35.68, 0], [-0.0002, 0.0002, 10], [179.9998, 64, 0]]
SUPPORTED_DIMS = {"enu": (1, 2, 3), "geo": (2, 3), "lonlat": (2, 3), "ecef": (3,)}


def _coords_of(case):
    c = case.get("coords") or {"cls": "enu"}
    return c if c.get("cls") in SUPPORTED_DIMS else None


def _build(pts, coords, feats=None):
    """a new Track object holding the fixes of the case in the coordinate class of the case"""
    cls = coords["cls"]
    if cls == "lonlat":                                   # the numbers of the case ARE longitude, latitude (degrees), height
        t0 = gen.ms_of_fields(2020, 1, 1)
        tr = Track([], 1)
        for k, q in enumerate(pts):
            tr.addObs(Obs(GeoCoords(float(q[0]), float(q[1]), float(q[2])), gen.obstime_of_ms(t0 + 1000 * k)))
        return tr
    s = float(coords.get("scale", 1)) if cls != "enu" else 1.0
    tr = gen.make_track([tuple(float(v) * s for v in q) for q in pts])
    if cls == "geo":                                      # metres east / north / up of a base point -> lon, lat, height
        tr.toGeoCoords(GeoCoords(*[float(v) for v in coords["base"]]))
    elif cls == "ecef":
        tr.toECEFCoords(GeoCoords(*[float(v) for v in coords["base"]]))
    return tr


def _lib_term(q2, q1, dim, p):
    d = float(q2.distance2DTo(q1) if dim == 2 else q2.distanceTo(q1))
    return d * d if p == 2 else d


def _matrices(t1, t2, dim, p, coords):
    """(C, Cs, slack): C[i][j] = cost of coupling fix i of track 2 with fix j of track 1 as match(track1, track2) sees it,
    Cs[j][i] the same for match(track2, track1).  ENU: own Euclidean arithmetic, Cs is the transpose.  Other classes: tracklib's
    point distance on fresh objects, evaluated in the argument order of the respective call; that distance need not be
    symmetric (GeoCoords.distance2DTo projects into the local frame of its argument), and the statement does not say which
    order is 'the' point distance, so every comparison gets the absolute slack (largest asymmetry) x (longest coupling)"""
    if coords["cls"] == "enu":
        C = _costs(t1, t2, dim, p)
        return C, [list(r) for r in zip(*C)], 0.0
    f1, f2 = _build(t1, coords), _build(t2, coords)
    P1 = [f1.getObs(j).position for j in range(len(t1))]
    P2 = [f2.getObs(i).position for i in range(len(t2))]
    C = [[_lib_term(b, a, dim, p) for a in P1] for b in P2]
    Cs = [[_lib_term(a, b, dim, p) for b in P2] for a in P1]
    asym = max(abs(C[i][j] - Cs[j][i]) for i in range(len(P2)) for j in range(len(P1)))
    if not asym < INF:
        raise HarnessError("point distances of the oracle are not finite for %s / %s %s" % (t1, t2, coords))
    return C, Cs, asym * (1 if p == INF else len(t1) + len(t2) - 1)


# ------------------------------------------------------------------------------------------------
# checks on one tracklib matching
def _coupling_of(m, n1, what):
    if m.size() != n1:
        raise Violation(what + "-coupling-invalid", "matching has %d fixes, track 1 has %d" % (m.size(), n1))
    S = []
    for j in range(n1):
        lst = m.getObsAnalyticalFeature("pair", j)
        if not isinstance(lst, list):
            raise Violation(what + "-coupling-invalid", "pair[%d] = %r is not a list" % (j, lst))
        for i in lst:
            S.append((int(i), j))
    return S


def _check_matching(m, C, opt, p, what, ctx, slack=0.0):
    n2, n1 = len(C), len(C[0])
    score = float(m.score)
    if not close(score, opt, 1e-9, 1e-12 + slack):
        raise Violation(what + "-score-not-optimal", "score %r, optimal coupling cost %r; %s" % (score, opt, ctx))
    S = _coupling_of(m, n1, what)
    bad = None
    if not S or S[0] != (0, 0):
        bad = "does not start at (0,0)"
    elif S[-1] != (n2 - 1, n1 - 1):
        bad = "does not end at (%d,%d)" % (n2 - 1, n1 - 1)
    else:
        for a, b in zip(S, S[1:]):
            if (b[0] - a[0], b[1] - a[1]) not in ((1, 0), (0, 1), (1, 1)):
                bad = "step %s -> %s" % (a, b)
                break
    if bad is None:
        if {s[0] for s in S} != set(range(n2)) or {s[1] for s in S} != set(range(n1)):
            bad = "does not link every fix"
    if bad is not None:
        raise Violation(what + "-coupling-invalid", "coupling (track2 index, track1 index) %s %s; %s" % (S, bad, ctx))
    if m.nb_links != len(S):
        raise Violation(what + "-nb-links-wrong", "nb_links %r, coupling has %d links; %s" % (m.nb_links, len(S), ctx))
    acc = 0.0
    for (i, j) in S:
        acc = _acc(acc, C[i][j], p)
    if not close(acc, score, 1e-9, 1e-12 + slack):
        raise Violation(what + "-coupling-cost-differs-from-score",
                        "returned coupling %s accumulates %r but the score is %r (optimum %r); %s" % (S, acc, score, opt, ctx))
    return S


# np.float32 exponents are not generated: numpy then computes d**p in single precision (2e-8 relative), which the 1e-9
# tolerance of the score would misread as a wrong optimum
PTYPES = ["py", "py", "py", "float", "np.int64", "np.int32", "np.float64"]


def _typed_p(p, ptype):
    """the same exponent in another numeric type (an element of np.arange, a data-frame cell ...); inf stays as it is"""
    if p == INF or ptype in (None, "py"):
        return p
    if ptype == "float":
        return float(p)
    return getattr(np, ptype.split(".")[1])(p)


def _check(t1, t2, dim, p, frechet, coords=None, fdtw_first=False, ptype=None):
    coords = coords or {"cls": "enu"}
    a = _build(t1, coords)
    b = _build(t2, coords)
    pa = _typed_p(p, ptype)              # what tracklib receives; the oracle works with the plain number
    C, Cs, slack = _matrices(t1, t2, dim, p, coords)
    _, T, opt, enumerated = _reference_of(C, p, "%s / %s dim=%s %s" % (t1, t2, dim, coords))
    opts = opt if slack == 0.0 else _reference_of(Cs, p)[2]        # optimum as the swapped call sees it
    ctx = "t1=%s t2=%s p=%s dim=%s" % (t1, t2, p, dim)
    if coords["cls"] != "enu":
        ctx += " coords=%s" % (coords,)
    calls = (("dtw", MODE_MATCHING_DTW), ("fdtw", MODE_MATCHING_FDTW))
    for what, mode in (calls[::-1] if fdtw_first else calls):
        m = match(a, b, mode=mode, p=pa, dim=dim, verbose=False, plot=False)
        _check_matching(m, C, opt, p, what, ctx, slack)
        ms = match(b, a, mode=mode, p=pa, dim=dim, verbose=False, plot=False)
        if not close(float(ms.score), float(m.score), 1e-9, 1e-12 + slack):
            raise Violation(what + "-swap-asymmetric", "score %r, swapped %r; %s" % (m.score, ms.score, ctx))
        _check_matching(ms, Cs, opts, p, what, ctx + " (swapped)", slack)
    if frechet:
        if p == INF:
            Cf, of, sf = C, opt, slack
        else:
            Cf, _, sf = _matrices(t1, t2, dim, INF, coords)
            of = _reference_of(Cf, INF)[2]
        m = match(a, b, mode=MODE_MATCHING_FRECHET, p=pa, dim=dim, verbose=False, plot=False)
        _check_matching(m, Cf, of, INF, "dtw", ctx + " mode=FRECHET", sf)
        v = compare(a, b, mode=MODE_COMPARISON_FRECHET, p=pa, dim=dim, verbose=False, plot=False)
        if not close(float(v), of, 1e-9, 1e-12 + sf):
            raise Violation("frechet-compare-wrong", "compare(FRECHET) = %r, discrete Frechet distance %r; %s" % (v, of, ctx))
        vs = compare(b, a, mode=MODE_COMPARISON_FRECHET, p=pa, dim=dim, verbose=False, plot=False)
        if not close(float(vs), float(v), 1e-9, 1e-12 + sf):
            raise Violation("frechet-compare-asymmetric", "compare(FRECHET) = %r, swapped %r; %s" % (v, vs, ctx))
    ties = _tie_classes(T)
    return ties, enumerated


def _p_of(v):
    return INF if v in ("inf", INF) else int(v)


# ------------------------------------------------------------------------------------------------
# (i) exhaustive: all pairs of tracks of <= 2 (quick) / <= 3 (thorough) fixes on {0,1,2}^2, p in {1, 2, inf}
CELLS = [(x, y) for x in range(3) for y in range(3)]


def _small_tracks(nmax):
    out = []
    for n in range(1, nmax + 1):
        out.extend(itertools.product(range(9), repeat=n))
    return out


def enum_small(tier):
    tracks = _small_tracks(3 if tier == "thorough" else 2)
    # unordered pairs: the body checks (t1, t2) and (t2, t1) alike
    for ia in range(len(tracks)):
        for ib in range(ia, len(tracks)):
            yield {"a": list(tracks[ia]), "b": list(tracks[ib])}


def body_small(case):
    t1 = [[CELLS[c][0], CELLS[c][1], 0] for c in case["a"]]
    t2 = [[CELLS[c][0], CELLS[c][1], 0] for c in case["b"]]
    ties = set()
    for p in (1, 2, INF):
        tt, _ = _check(t1, t2, 2, p, frechet=(p == INF))
        ties |= {"p=%s %s" % (p, t) for t in tt}
    return {"nt": bool(ties), "cls": sorted(ties) + ["sizes=%dx%d" % (len(t1), len(t2))]}


# ------------------------------------------------------------------------------------------------
# (ii) generated pairs
@st.composite
def strat_pair(draw):
    kind = draw(st.sampled_from(["lat3", "lat3", "lat3", "lat5", "near", "stall", "float", "big"]))
    if kind == "big":
        sizes = st.integers(7, 10)
    else:                       # 1..6, weighted to >= 3 (the smallest table with an 'l == u < ul' cell is 3 x 3)
        sizes = st.sampled_from([1, 2, 3, 3, 4, 4, 5, 5, 6, 6])
    n1 = draw(sizes)
    n2 = draw(sizes)
    if kind in ("lat3", "big"):
        c = st.integers(0, 2)
        t1 = [[draw(c), draw(c), draw(c)] for _ in range(n1)]
        t2 = [[draw(c), draw(c), draw(c)] for _ in range(n2)]
    elif kind == "lat5":
        c = st.integers(-2, 2)
        t1 = [[draw(c), draw(c), draw(c)] for _ in range(n1)]
        t2 = [[draw(c), draw(c), draw(c)] for _ in range(n2)]
    elif kind == "near":        # track 2 = track 1 resampled / displaced by lattice noise (the usual DTW use)
        c = st.integers(0, 4)
        t1 = [[draw(c), draw(c), draw(c)] for _ in range(n1)]
        e = st.integers(-1, 1)
        t2 = []
        for k in range(n2):
            q = t1[min(n1 - 1, (k * n1) // n2)]
            t2.append([q[0] + draw(e), q[1] + draw(e), q[2] + draw(e)])
    elif kind == "stall":       # stationary stretches: many zero distances, ties everywhere
        c = st.integers(0, 1)
        t1 = [[draw(c), draw(c), 0] for _ in range(n1)]
        t2 = [[draw(c), draw(c), 0] for _ in range(n2)]
    else:
        f = st.integers(-2 ** 30, 2 ** 30).map(lambda k: k / 2.0 ** 20)          # dyadic floats in [-1024, 1024]
        t1 = [[draw(f), draw(f), draw(f)] for _ in range(n1)]
        t2 = [[draw(f), draw(f), draw(f)] for _ in range(n2)]
    p = draw(st.sampled_from([1, 2, "inf"]))
    # coordinate class of the two tracks: local ENU (the first version of this sub-check), geographic (the ENU numbers are
    # metres x scale around a base point, converted with Track.toGeoCoords(base); or lon / lat / height given directly on a
    # 1e-4 degree lattice), geocentric (Track.toECEFCoords(base))
    cc = draw(st.sampled_from(["enu"] * 5 + ["geo", "geo", "lonlat", "lonlat", "ecef"]))
    case = {"t1": t1, "t2": t2, "p": p}
    if cc == "enu":
        case["dim"] = draw(st.sampled_from([1, 2, 2, 3]))
        return case
    case["dim"] = 3 if cc == "ecef" else draw(st.sampled_from([2, 2, 3]))
    case["fdtw_first"] = draw(st.booleans())
    case["ptype"] = draw(st.sampled_from(PTYPES))
    if cc == "lonlat":
        o = draw(st.sampled_from(LONLAT0))
        case["t1"] = [[o[0] + q[0] * 1e-4, o[1] + q[1] * 1e-4, o[2] + q[2]] for q in t1]
        case["t2"] = [[o[0] + q[0] * 1e-4, o[1] + q[1] * 1e-4, o[2] + q[2]] for q in t2]
        case["coords"] = {"cls": "lonlat"}
    else:
        case["coords"] = {"cls": cc, "base": draw(st.sampled_from(BASES)), "scale": draw(st.sampled_from([1, 10, 250]))}
    return case


def body_pair(case):
    p = _p_of(case["p"])
    dim = int(case["dim"])
    t1, t2 = case["t1"], case["t2"]
    coords = _coords_of(case)
    if not t1 or not t2 or dim not in (1, 2, 3) or p not in (1, 2, INF) or coords is None:
        return {"undef": True}
    if dim not in SUPPORTED_DIMS[coords["cls"]]:
        # comparison._distance reads .U (dim 1) / calls distance2DTo (dim 2), which only ENUCoords (/ GeoCoords) have:
        # the unchanged code raises AttributeError; not generated, nothing demanded
        return {"undef": True, "cls": ["dim-%d-not-available-for-%s" % (dim, coords["cls"])]}
    ties, enumerated = _check(t1, t2, dim, p, frechet=(p == INF), coords=coords, fdtw_first=bool(case.get("fdtw_first")),
                              ptype=case.get("ptype"))
    cls = sorted(ties) or ["no-tie"]
    cls += ["p=%s" % p, "dim=%d" % dim, "oracle=enumeration" if enumerated else "oracle=dp",
            "size1" if min(len(t1), len(t2)) == 1 else "sizes>=2", "coords=" + coords["cls"]]
    if coords["cls"] != "enu":
        cls.append("non-enu,first-fixes-%s" % ("equal" if t1[0] == t2[0] else "differ"))
        cls.append("non-enu,%s" % ("fdtw-called-first" if case.get("fdtw_first") else "dtw-called-first"))
        cls.append("non-enu,%s" % ("tie" if ties else "no-tie"))
    return {"nt": bool(ties), "cls": cls}


# ------------------------------------------------------------------------------------------------
# (iii) short histories: the first argument of match() is the RESULT of earlier match() calls (one track matched
# against several references in turn, the same pair re-matched, a nearest-neighbour matching first) and/or carries
# analytical features of its own.  match() copies its first argument, features included, so this is ordinary use;
# every DTW / FDTW / FRECHET result of the history must pass the complete oracle against the two tracks of ITS step.
HMODES = {"dtw": MODE_MATCHING_DTW, "fdtw": MODE_MATCHING_FDTW, "frechet": MODE_MATCHING_FRECHET, "nn": MODE_MATCHING_NN}
FEATURE_NAMES = ["foo", "abs_curv", "diff", "ex"]          # user-owned features; 'diff' / 'ex' collide with names match() writes


def _mk(pts, feats=None):
    features = {name: [float((3 * k + len(name)) % 5) for k in range(len(pts))] for name in (feats or [])}
    return gen.make_track([tuple(float(v) for v in q) for q in pts], features=features)


def _check_step(out, t1, t2, mode, dim, p, ctx):
    pp = INF if mode == "frechet" else p
    C, T, opt, _ = _reference(t1, t2, dim, pp)
    _check_matching(out, C, opt, pp, "fdtw" if mode == "fdtw" else "dtw", ctx)
    return _tie_classes(T)


def _edit_data(pts, ed):
    """coordinates after an in-place edit (pure; the oracle's side).  Lattice / dyadic data and integer or power-of-two
    parameters: every result is exact"""
    op = ed["op"]
    if op == "translate":
        d = ed["d"]
        return [[q[0] + d[0], q[1] + d[1], q[2] + d[2]] for q in pts]
    if op == "scale":                                   # Track.scale: planar homothety, z unchanged
        return [[q[0] * ed["h"], q[1] * ed["h"], q[2]] for q in pts]
    if op == "set":
        out = [list(q) for q in pts]
        out[ed["i"] % len(pts)] = [float(v) for v in ed["xyz"]]
        return out
    if op == "symmetrize":                              # Track.symmetrize(dim, val): coordinate -> val - coordinate
        out = [list(q) for q in pts]
        for q in out:
            q[ed["dim"]] = ed["val"] - q[ed["dim"]]
        return out
    raise HarnessError("unknown edit %r" % (ed,))


def _edit_live(tr, ed):
    """the same edit on the tracklib object that earlier calls have already seen"""
    op = ed["op"]
    if op == "translate":
        tr.translate(ed["d"][0], ed["d"][1], ed["d"][2])
    elif op == "scale":
        tr.scale(ed["h"])
    elif op == "set":
        pos = tr.getObs(ed["i"] % tr.size()).position
        pos.setX(float(ed["xyz"][0]))
        pos.setY(float(ed["xyz"][1]))
        pos.setZ(float(ed["xyz"][2]))
    elif op == "symmetrize":
        tr.symmetrize(ed["dim"], ed["val"])


@st.composite
def _edit(draw):
    op = draw(st.sampled_from(["translate", "translate", "set", "set", "scale", "symmetrize"]))
    on = draw(st.sampled_from(["cur", "cur", "ref"]))
    c = st.integers(-3, 3)
    if op == "translate":
        d = [draw(c), draw(c), draw(c)]
        if d == [0, 0, 0]:
            d = [3, -2, 1]
        return {"on": on, "op": op, "d": d}
    if op == "set":
        return {"on": on, "op": op, "i": draw(st.integers(0, 5)), "xyz": [draw(c), draw(c), draw(c)]}
    if op == "scale":
        return {"on": on, "op": op, "h": draw(st.sampled_from([2, 0.5, -1, 4]))}
    return {"on": on, "op": op, "dim": draw(st.integers(0, 2)), "val": draw(c)}


@st.composite
def strat_history(draw):
    kind = draw(st.sampled_from(["lat3", "lat3", "near", "line"]))
    # plan: 'chain' = the result of a call is the first argument of the next one (no edits: the first version of this
    # sub-check); 'mixed' = chain steps, kept objects and in-place edits mixed; 'loop' = registration loop: the same two
    # objects are matched again and again with an in-place move in between
    plan = draw(st.sampled_from(["chain", "mixed", "mixed", "loop", "loop"]))
    sizes = st.sampled_from([1, 2, 3, 3, 4, 4, 5, 6])
    n0 = draw(sizes)
    nref = 1 if plan == "loop" else draw(st.integers(1, 3))
    if kind == "lat3":
        c = st.integers(0, 2)
        tracks = [[[draw(c), draw(c), draw(c)] for _ in range(n0)]]
        for _ in range(nref):
            tracks.append([[draw(c), draw(c), draw(c)] for _ in range(draw(sizes))])
    elif kind == "near":                      # references = displaced resamplings of the base track
        c = st.integers(0, 4)
        e = st.integers(-1, 1)
        base = [[draw(c), draw(c), draw(c)] for _ in range(n0)]
        tracks = [base]
        for _ in range(nref):
            n = draw(sizes)
            tracks.append([[base[min(n0 - 1, (k * n0) // n)][a] + draw(e) for a in range(3)] for k in range(n)])
    else:                                     # parallel lines with uneven spacing: the couplings with two references differ a lot
        x = st.integers(0, 8)
        tracks = [[[k, 0, 0] for k in range(n0)]]
        for r in range(nref):
            xs = sorted(draw(x) for _ in range(draw(sizes)))
            tracks.append([[v, r + 1, 1] for v in xs])
    steps = []
    nsteps = draw(st.sampled_from([2, 3, 2, 3, 1])) if plan == "chain" else draw(st.sampled_from([2, 3, 3, 4]))
    loop_dim = draw(st.sampled_from([2, 2, 1, 3]))
    loop_swap = draw(st.sampled_from([False, False, True]))
    for k in range(nsteps):
        stp = {"ref": draw(st.integers(1, nref)),
               "mode": draw(st.sampled_from(["dtw", "dtw", "fdtw", "fdtw", "frechet", "nn"])),
               "p": draw(st.sampled_from([1, 2, "inf"])),
               "dim": draw(st.sampled_from([2, 2, 1, 3])),
               "swap": draw(st.sampled_from([False, False, False, True]))}
        if plan == "loop":
            stp["keep"] = True
            stp["swap"] = loop_swap
            stp["mode"] = draw(st.sampled_from(["dtw", "dtw", "dtw", "frechet", "fdtw"]))
            if draw(st.sampled_from([True, True, True, False])):
                stp["dim"] = loop_dim
            if k > 0:
                stp["edit"] = draw(_edit())
        elif plan == "mixed":
            stp["keep"] = draw(st.booleans())
            if draw(st.booleans()):
                stp["edit"] = draw(_edit())
        steps.append(stp)
    feats = draw(st.sampled_from([[], [], ["foo"], ["abs_curv", "foo"], ["diff"], ["ex", "foo"]]))
    return {"tracks": tracks, "features": feats, "steps": steps}


def body_history(case):
    tracks, feats, steps = case["tracks"], list(case.get("features") or []), case["steps"]
    if not tracks or any(not t for t in tracks) or not steps:
        return {"undef": True}
    geo = [[[float(v) for v in q] for q in t] for t in tracks]     # coordinates each live object holds NOW
    cur = _mk(tracks[0], feats)
    refs = {}
    carried = bool(feats)          # does the first argument carry state (features of its own / of an earlier matching)?
    edited = False                 # has any live object been edited in place after a call saw it?
    prev_refs = []
    last = None                    # (id(first), id(second), dim) of the previous DTW-type call
    cls = set()
    nt = False
    checked = 0
    for k, stp in enumerate(steps):
        ref, mode, p, dim, swap = int(stp["ref"]), stp["mode"], _p_of(stp["p"]), int(stp["dim"]), bool(stp.get("swap"))
        if not (1 <= ref < len(tracks)) or mode not in HMODES or dim not in (1, 2, 3) or p not in (1, 2, INF):
            return {"undef": True}
        if ref not in refs:
            refs[ref] = _mk(tracks[ref])
        ed = stp.get("edit")
        moved = False
        if ed:
            which = 0 if ed.get("on") == "cur" else ref
            new = _edit_data(geo[which], ed)
            _edit_live(cur if which == 0 else refs[ref], ed)
            moved = new != geo[which]
            geo[which] = new
            edited = edited or (k > 0 and moved)
            cls.add("edit-%s-on-%s" % (ed["op"], "first-track" if which == 0 else "reference"))
        first, second = (refs[ref], cur) if swap else (cur, refs[ref])
        g1, g2 = (geo[ref], geo[0]) if swap else (geo[0], geo[ref])
        kw = dict(mode=HMODES[mode], dim=dim, verbose=False, plot=False)
        if mode not in ("nn", "frechet"):
            kw["p"] = p
        out = match(first, second, **kw)
        same_objects = last is not None and last[:2] == (id(first), id(second))
        if mode != "nn":
            ctx = "step %d of %s: mode=%s p=%s dim=%s swap=%s edit=%s; coordinates now %s (initially %s) features=%s" % (
                k, [(s["mode"], s["ref"], bool(s.get("swap")), bool(s.get("keep")), s.get("edit")) for s in steps], mode, p, dim,
                swap, ed, geo, tracks, feats)
            try:
                ties = _check_step(out, g1, g2, mode, dim, p, ctx)
            except Violation as v:
                if (carried and not swap) or edited:
                    # same geometry, same call, but from tracks without history: if that is fine the root cause is
                    # state carried over from an earlier call / the first argument, not the dynamic programme
                    fresh = match(_mk(g1), _mk(g2), **kw)
                    try:
                        _check_step(fresh, g1, g2, mode, dim, p, ctx)
                    except Violation:
                        raise v
                    raise Violation("stale-input-state:" + v.key, v.msg)
                raise
            checked += 1
            if carried and not swap and k > 0:
                nt = True
                cls.add("checked-after-" + "+".join(sorted(set(s["mode"] for s in steps[:k] if not s.get("swap"))) or ["swap-only"]))
                if ref in prev_refs:
                    cls.add("rematch-same-reference")
                if ties:
                    cls.add("history+tie")
            if same_objects:
                cls.add("same-two-objects-as-previous-call")
                if moved:
                    nt = True
                    cls.add("same-two-objects-moved-in-between")
                    cls.add("same-two-objects-moved-in-between,%s-dim" % ("same" if last[2] == dim else "other"))
        last = (id(first), id(second), dim)
        if not swap and not stp.get("keep"):
            cur = out
            carried = True
            prev_refs.append(ref)
        elif not swap:
            prev_refs.append(ref)
    cls.add("steps=%d" % len(steps))
    cls.add("features" if feats else "no-features")
    if not checked:
        cls.add("nothing-checked(nn only)")
    return {"nt": nt, "cls": sorted(cls)}


RULE = ("small: every unordered pair of tracks with <= 2 (quick) / <= 3 (thorough) fixes on the lattice {0,1,2}^2, each with p in "
        "{1, 2, inf}, dim 2, modes DTW and FDTW in both argument orders, plus match/compare FRECHET; pairs: Hypothesis - sizes 1..6 "
        "(1/8: 7..10) on {0,1,2}^3, {-2..2}^3, a track and its displaced resampling, {0,1}^2 stationary stretches, dyadic floats; "
        "p in {1,2,inf}, dim in {1,2,3}; coordinate class of both tracks: ENU (5 in 10, as in the first version), geographic from "
        "ENU metres via toGeoCoords(base) (2 in 10), geographic lon/lat lattice (2 in 10; dim 2 or 3), geocentric via "
        "toECEFCoords(base) (1 in 10; dim 3), and for the non-ENU classes which of DTW / FDTW is called first on the two objects. "
        "Non-trivial: some cell of the reference DP table has two or more predecessors of equal "
        "accumulated cost (the back-pointer rule matters). histories: Hypothesis - a base track (optionally carrying analytical "
        "features, also ones named 'diff'/'ex') and 1..3 reference tracks, 1..3 steps out = match(current, ref_k, mode in "
        "{DTW, FDTW, FRECHET, NN}, p, dim) with current := out (or, 1 in 4, match(ref_k, current)); every non-NN result is checked "
        "with the complete oracle against the two tracks of its step; non-trivial there: a checked step whose first argument is the "
        "result of an earlier step, or whose two arguments are the same two objects as in the previous call with an in-place "
        "coordinate edit in between. Three plans: 'chain' (as described), 'mixed' (each step may keep the current object instead of "
        "replacing it by the result and may be preceded by an in-place edit of the first track or of the reference), 'loop' (one "
        "reference, 2..4 calls on the same two objects, same dim in 3 of 4, DTW / FRECHET / FDTW, p free, an in-place edit before "
        "every call but the first). Distinct = hash of the case.")

SUBCHECKS = [
    SubCheck("small", body_small, enum=enum_small, rule="all unordered pairs of lattice tracks of <= 2/3 fixes x p in {1,2,inf}",
             qshards=8, tshards=16),
    SubCheck("pairs", body_pair, strategy=strat_pair, quick=8000, thorough=150000, qshards=8),
    SubCheck("histories", body_history, strategy=strat_history, quick=4000, thorough=60000, qshards=8,
             rule="1..4 successive match() calls on the result of the previous one / on a track with features / on the same two "
                  "objects edited in place in between"),
]
