"""C02 - algebraic feature expressions evaluate to ordinary arithmetic.
Oracle: vt.exprs.evaluate (own tree evaluator, documented operator semantics)."""
import copy
import functools
import itertools
import sys

from hypothesis import strategies as st

import tracklib.core.track          # loaded before the class-level state is recorded below
from tracklib.core.operators import Operator
from tracklib.util.exceptions import AnalyticalFeatureError

from vt import exprs, gen
from vt.core import SubCheck, Violation, close, same

ASSUMPTIONS = [
    "language = documented subset: numbers, names a b x y z t idx, + - * / ^ < >, parentheses, unary minus at start/after '='/after '(' "
    "and the pairs '--' '+-', f{e} or f(e) for the documented functions, D/I/D2; function arguments contain a feature name",
    "undefined or numerically fragile arithmetic (x/0, 0^-k, negative^fraction, LOG<=0, SQRT<0, SIGN(0), pointwise f(NaN), MEDIAN with NaN, "
    "aggregate of all-NaN, |v|>1e100, cancellation/comparison of inexact nearly-equal operands) is not judged",
    "exact equality is demanded when every operation in the tree is exact on dyadic data, 1e-9 relative otherwise",
    "feature values: {-2..3} and NaN; two fifths of the vectors also hold (in half of their elements) magnitudes far from 1 (vt.exprs.WIDE: 2^-60, -2^-70, 1e-17, -2.5e-16, "
    "5.6e-17, 1e-40, 2^40, -1e12): ordinary arithmetic treats a tiny non-zero number like any other (only an exact 0 is a zero divisor); "
    "such values are judged with the relative tolerance, and not at all where a result leaves 1e-100..1e100",
    "external scalar variables (documented form operate('A=A/factor', {'factor': var})): names k, w, factor (disjoint from feature and "
    "function names) stand where a literal may; values are Python ints / floats from vt.exprs.EXT_VALUES; every evaluation is judged against "
    "the values passed to THAT call (the same text is evaluated again with other values, on the same and on a fresh track)",
    "shift operator objects are judged against the definitions documented in class Operator: SHIFT y(t)=x(t-k) (NaN outside), SHIFT_REV "
    "y(t)=x(t+k), SHIFT_CIRCULAR(_REV) y(t)=x((t-+k)%n), SHIFT_RIGHT/LEFT and their circular forms k=1; k integer in -6..6; the algebraic "
    "'>>' '<<' forms are not in the stated language and are not judged",
    "an omitted output name of a void operator means the first input feature (docstring of Track.operate); issued only when that input is a "
    "real feature (a, b), not a virtual one",
    "the coordinate class of the track is a case field (ENUCoords / GeoCoords / ECEFCoords; the exhaustive enumeration uses one class per "
    "fixed vector set): x, y, z are the three stored components of the class, whatever it is (no geodesy involved); after 'x=<expr>' the "
    "value is read back through Track.getX(), Obs.position.getX() and the virtual feature 'x' (same for y, z), the other two components, "
    "the class of the positions, features and timestamps must be as before; coordinate values come from {-2..3}; an assignment to a "
    "coordinate of a GeoCoords track is judged only when every value is finite with |lon| <= 180, |lat| <= 90",
    "cases of one process share tracklib's class-level state on purpose; a violation is re-run after that state is put back to its "
    "import-time content: still failing = self-contained witness (plain key), else key + ':after-earlier-cases'",
]

T0 = gen.ms_of_fields(2021, 3, 4, 5, 6, 7)
NAMES = ["a", "b", "x", "y", "z", "t", "idx"]
# coordinate class of the track: x, y, z are the three stored components of whichever class the positions have
# (ENUCoords E/N/U, GeoCoords lon/lat/hgt, ECEFCoords X/Y/Z), read and written through getX/getY/getZ, setX/setY/setZ
COORDS = ["ENU", "GEO", "ECEF"]


def coord_class(name):
    from tracklib.core.obs_coords import ECEFCoords, ENUCoords, GeoCoords
    return {"ENU": ENUCoords, "GEO": GeoCoords, "ECEF": ECEFCoords}[name]


def make_track(pts, times_ms, coords="ENU"):
    """track of the given coordinate class from pts = [(x, y, z)] (the three stored components) and epoch ms"""
    if coords == "ENU":
        return gen.make_track(pts, times_ms)
    from tracklib.core.obs import Obs
    from tracklib.core.track import Track
    cls = coord_class(coords)
    tr = Track([], 1)
    for p, t in zip(pts, times_ms):
        tr.addObs(Obs(cls(p[0], p[1], p[2]), gen.obstime_of_ms(t)))
    return tr


def coord_valid(coords, c, vec):
    """may the values vec be stored as component c ('x' | 'y' | 'z') of a position of this class?  Geographic
    coordinates are finite with lon in [-180, 180], lat in [-90, 90]; the other classes hold any number"""
    if coords != "GEO":
        return True
    lim = {"x": 180.0, "y": 90.0}.get(c)
    return all(v == v and abs(v) != float("inf") and (lim is None or abs(v) <= lim) for v in vec)


GETTERS = {"x": "getX", "y": "getY", "z": "getZ"}


def coord_views(tr, c):
    """the three public readings of component c: [(label, values)]"""
    g = GETTERS[c]
    return [("track.%s()" % g, list(getattr(tr, g)())),
            ("position.%s()" % g, [getattr(tr.getObs(i).position, g)() for i in range(tr.size())]),
            ("feature %r" % c, list(tr.getAnalyticalFeature(c)))]


# --- witnesses that do not depend on earlier cases -----------------------------------------------------
# tracklib may keep state at class / module level (a cache, a flag) that outlives a call.  Cases of one process
# then influence each other, which is welcome (more histories are explored) but a violation found that way does
# not replay alone.  So when a body raises a Violation, the containers and scalars held by tracklib's modules and
# classes are put back to what they were when this module was imported and the SAME case is run again: if it still
# fails, the case is a self-contained witness (key unchanged); if not, the violation is reported under the key
# + ':after-earlier-cases' (it is still a violation of a property quantified over histories), and the search goes on
# for a self-contained witness under the plain key.  Nothing of this runs while the property holds.
def _holders():
    for name, mod in sorted(sys.modules.items()):
        if mod is not None and (name == "tracklib" or name.startswith("tracklib.")):
            yield mod
            for v in list(vars(mod).values()):
                if isinstance(v, type) and str(getattr(v, "__module__", "")).startswith("tracklib"):
                    yield v


def _snapshot_state():
    snap, seen = [], set()
    for h in _holders():
        if id(h) in seen:
            continue
        seen.add(id(h))
        for attr, val in list(vars(h).items()):
            if attr.startswith("__") and attr.endswith("__"):
                continue
            if isinstance(val, (dict, list, set)):
                snap.append((h, attr, val, copy.copy(val)))
            elif val is None or isinstance(val, (bool, int, float, str)):
                snap.append((h, attr, val, None))
    return snap


_PRISTINE = _snapshot_state()


def restore_pristine_state():
    for h, attr, val, content in _PRISTINE:
        try:
            if content is None:
                if vars(h).get(attr, val) is not val:
                    setattr(h, attr, val)
                continue
            if vars(h).get(attr) is not val:
                setattr(h, attr, val)
            if isinstance(val, list):
                val[:] = content
            else:
                val.clear()
                val.update(content)
        except Exception:
            pass


def self_contained(body):
    """wrap a body: a Violation is confirmed on pristine class-level state (see above)"""
    @functools.wraps(body)
    def wrapped(case):
        try:
            return body(case)
        except Violation as v:
            restore_pristine_state()
            try:
                body(case)
            except Violation:
                raise v
            raise Violation(v.key + ":after-earlier-cases",
                            "[the case passes on pristine class-level state: the failure needs calls made by earlier cases of this "
                            "process, i.e. tracklib keeps state between calls] " + v.msg)
    return wrapped


# ----------------------------------------------------------------------------------------------
# numpy INTEGER scalars are not generated: they follow numpy's integer arithmetic (no negative powers, wrap-around), which is
# not the "ordinary arithmetic" of the statement
VTYPES = ["py", "py", "py", "np64", "np64", "pyint"]


def typed(values, vtype):
    """the same numbers in another numeric type: numpy float64 scalars (what list(np.array(...)) yields), numpy / Python
    ints where every value is integral (and not NaN), else unchanged"""
    import numpy as np
    if vtype == "np64":
        return [np.float64(v) for v in values]
    if vtype in ("npint", "pyint") and all(v == v and abs(v) < 2 ** 53 and float(v).is_integer() for v in values):
        return [np.int64(int(v)) for v in values] if vtype == "npint" else [int(v) for v in values]
    return list(values)


def build(case):
    n = case["n"]
    tr = make_track([tuple(p) for p in case["xyz"]], [T0 + 1000 * i for i in range(n)], case.get("coords", "ENU"))
    for name in ("a", "b"):
        if case.get(name) is not None:
            tr.createAnalyticalFeature(name, typed(case[name], case.get("vtype", "py")))
    return tr


def env_of(case, ext=None):
    n = case["n"]
    env = {"x": [float(p[0]) for p in case["xyz"]], "y": [float(p[1]) for p in case["xyz"]],
           "z": [float(p[2]) for p in case["xyz"]], "t": [(T0 + 1000 * i) / 1000.0 for i in range(n)],
           "idx": [float(i) for i in range(n)]}
    for name in ("a", "b"):
        if case.get(name) is not None:
            env[name] = [float(v) for v in case[name]]
    if ext:
        env.update(ext)         # external scalars: name -> number (names disjoint from the feature names)
    return env


def operate_expr(tr, s, ext):
    """the call a user writes: without a dictionary when there are no externals, with (a copy of) it otherwise"""
    if ext is None:
        return tr.operate(s)
    return tr.operate(s, dict(ext))


def ext_rounds(case):
    """[(externals of the call, fresh track?)]: the first evaluation and the repeated ones of the same text"""
    more = case.get("ext_more") or []
    fresh = case.get("fresh") or []
    return [(case.get("ext"), True)] + [(e, bool(fresh[j]) if j < len(fresh) else True) for j, e in enumerate(more)]


def snapshot(tr):
    names = list(tr.getListAnalyticalFeatures())
    return {"names": names, "feat": {k: list(tr.getAnalyticalFeature(k)) for k in names},
            "x": tr.getX(), "y": tr.getY(), "z": tr.getZ(),
            "views": {c: coord_views(tr, c) for c in "xyz"},
            "pos": [type(tr.getObs(i).position).__name__ for i in range(tr.size())],
            "t": [gen.ms_of_obstime(tr.getObs(i).timestamp) for i in range(tr.size())],
            "nfeat": [len(tr.getObs(i).features) for i in range(tr.size())]}


def vec_same(u, v):
    return len(u) == len(v) and all(same(p, q) for p, q in zip(u, v))


def compare_effects(before, after, changed_feature=None, changed_coord=None, new_values=None, s=""):
    """everything except the designated feature / coordinate must be as before"""
    want_names = set(before["names"])
    if changed_feature is not None:
        want_names.add(changed_feature)
    got_names = set(after["names"])
    left = [k for k in got_names if k.startswith("#")]
    if left:
        raise Violation("temp-left-listed", "%r leaves evaluator temporaries %s listed" % (s, left))
    if got_names != want_names:
        missing = want_names - got_names
        if missing:
            raise Violation("feature-removed", "%r removed feature(s) %s" % (s, sorted(missing)))
        raise Violation("feature-added", "%r added feature(s) %s" % (s, sorted(got_names - want_names)))
    if len(after["names"]) != len(got_names) or any(k != len(got_names) for k in after["nfeat"]):
        raise Violation("table-misaligned", "%r: %d names listed, observations carry %s values" % (s, len(got_names), after["nfeat"]))
    for k in before["names"]:
        if k != changed_feature and not vec_same(before["feat"][k], after["feat"][k]):
            raise Violation("other-feature-changed", "%r changed feature %s: %s -> %s" % (s, k, before["feat"][k], after["feat"][k]))
    for c in "xyz":
        if c == changed_coord:
            continue
        for (label, u), (_, v) in zip(before["views"][c], after["views"][c]):
            if not vec_same(u, v):
                raise Violation("coordinate-changed", "%r changed %s (%s): %s -> %s" % (s, c, label, u, v))
    if before["pos"] != after["pos"]:
        raise Violation("coordinate-class-changed", "%r changed the class of the positions: %s -> %s" % (s, before["pos"], after["pos"]))
    if before["t"] != after["t"]:
        raise Violation("timestamp-changed", "%r changed timestamps" % s)


def check_values(got, ref, s, tree):
    if len(got) != len(ref.vec):
        raise Violation("wrong-length", "%r returned %d values for %d observations" % (s, len(got), len(ref.vec)))
    for i, (g, w) in enumerate(zip(got, ref.vec)):
        try:
            g = float(g)
        except (TypeError, ValueError):
            raise Violation("non-numeric-result", "%r -> %r at index %d" % (s, g, i))
        ok = same(g, w) if ref.exact else close(g, w, rel=1e-9, abs_=1e-9)
        if not ok:
            fs = sorted(exprs.features(tree)["funcs"])
            raise Violation("wrong-value:" + ("+".join(fs) if fs else "operators"),
                            "%r gives %r at index %d, ordinary arithmetic gives %r (all: %s vs %s)" % (s, g, i, w, got, ref.vec))


def classes_of(tree, ref):
    f = exprs.features(tree)
    cls = ["depth-%d" % min(f["depth"], 7)]
    for k in ("noncomm_chain", "scalar_left", "literal_only", "paren_needed", "neg"):
        if f[k]:
            cls.append(k)
    if len(f["levels"]) >= 2:
        cls.append("mixed-precedence")
    if f["funcs"]:
        cls.append("funcs")
    if any(v != v for v in ref.vec):
        cls.append("nan-result")
    cls.append("exact" if ref.exact else "inexact")
    if f["externals"]:
        cls.append("ext")
    return cls


def magnitude_classes(case, tree):
    """labels for feature vectors that hold values of magnitudes far from 1 (vt.exprs.WIDE)"""
    used = exprs.features(tree)["names"]
    wide = [k for k in ("a", "b") if k in used and any(v == v and v != 0 and not (0.25 <= abs(v) <= 8) for v in case.get(k) or [])]
    if not wide:
        return []
    out = ["wide-magnitude"]

    def divisors(t):
        if t[0] == "b":
            if t[1] == "/" and exprs.features(t[3])["names"] & set(wide):
                out.append("wide-magnitude-in-divisor")
            divisors(t[2])
            divisors(t[3])
        elif t[0] in "uf":
            divisors(t[-1])
    divisors(tree)
    return sorted(set(out))


# --- evaluation without '=' ---------------------------------------------------------------------
@self_contained
def body_eval(case):
    tree, s = case["tree"], case["s"]
    tr = None
    judged, info = 0, None
    last = None
    for ext, fresh in ext_rounds(case):
        try:
            ref = exprs.evaluate(tree, env_of(case, ext), case["n"])
        except exprs.Undef:
            continue
        if tr is None or fresh:
            tr = build(case)
        before = snapshot(tr)
        got = operate_expr(tr, s, ext)
        check_values(got, ref, s if not ext else "%s with %s" % (s, ext), tree)
        compare_effects(before, snapshot(tr), s=s)
        judged += 1
        if info is None:
            info = {"nt": exprs.nontrivial(tree), "cls": classes_of(tree, ref) + ["coords-" + case.get("coords", "ENU")] + magnitude_classes(case, tree)}
        used = sorted((k, float(v)) for k, v in (ext or {}).items() if k in exprs.features(tree)["externals"])
        if last is not None and used != last:
            info["cls"].append("ext-repeat-other-value" + ("-fresh-track" if fresh else "-same-track"))
        last = used
    if info is None:
        return {"undef": True}
    if case.get("ext") is not None and not exprs.features(tree)["externals"]:
        info["cls"].append("ext-dict-unused")
    return info


def _vec_case(tree, s, n, a, b, xyz):
    return {"n": n, "a": a, "b": b, "xyz": xyz, "tree": tree, "s": s}


@st.composite
def strat_eval(draw, max_depth=6):
    n = draw(st.integers(1, 5))
    with_ext = draw(st.integers(0, 2)) == 0
    tree, s = draw(exprs.styled(exprs.trees(NAMES, max_depth, externals=exprs.EXTERNALS if with_ext else ())))
    a = draw(exprs.vectors(n))
    b = draw(exprs.vectors(n))
    xyz = draw(st.lists(st.tuples(*[st.sampled_from(exprs.VALUES)] * 3).map(list), min_size=n, max_size=n))
    c = _vec_case(tree, s, n, a, b, xyz)
    c["coords"] = draw(st.sampled_from(COORDS))
    c["vtype"] = draw(st.sampled_from(VTYPES))
    used = exprs.externals_of(tree)
    if used or with_ext:
        # the dictionary of the call: the externals of the text, sometimes one more that the text does not use
        names = used + [x for x in exprs.EXTERNALS if x not in used][:draw(st.integers(0, 1))]
        c["ext"] = draw(exprs.ext_values(names))
        if used:       # the same text again with other values, on the same track or on a fresh one
            k = draw(st.sampled_from([0, 1, 2, 2]))
            c["ext_more"] = [draw(exprs.ext_values(names)) for _ in range(k)]
            c["fresh"] = [draw(st.booleans()) for _ in range(k)]
    return c


# --- exhaustive depth <= 3 ------------------------------------------------------------------------
LEAVES = [["n", "a"], ["n", "b"], ["n", "idx"], ["l", 2]]
FIXED = [
    (3, [1.0, 2.0, 3.0], [2.0, 0.5, -1.0]),
    (4, [0.0, -2.0, 2.0, 2.0], [3.0, 3.0, 1.0, -0.5]),
    (2, [0.5, float("nan")], [-1.0, 2.0]),
]


def _level(k):
    if k == 1:
        return list(LEAVES)
    prev = _level(k - 1)
    return list(LEAVES) + [["b", op, l, r] for op in exprs.BINOPS for l in prev for r in prev]


def enum_trees(tier):
    d2 = _level(2)
    out = d2
    if tier == "thorough":
        out = _level(3)
    else:
        d3 = _level(3)
        out = d2 + d3[len(LEAVES)::31]          # depth 2 complete + every 31st depth-3 tree
    for tree in out:
        s = exprs.render(tree)
        for k, (n, a, b) in enumerate(FIXED):
            c = _vec_case(tree, s, n, a, b, [[float(i), 1.0, 0.5] for i in range(n)])
            c["coords"] = COORDS[k]          # one coordinate class per fixed vector set
            yield c


# --- with '=' ---------------------------------------------------------------------------------------
@st.composite
def strat_assign(draw):
    c = draw(strat_eval(max_depth=4))
    c["lhs"] = draw(st.sampled_from(["c", "a", "b", "x", "y", "z", "k1"]))
    # right-hand sides made of literals only ("a=5", "a=2*3") are in the language
    if draw(st.integers(0, 5)) == 0:
        lt = draw(st.recursive(st.sampled_from(exprs.LITERALS).map(lambda v: ["l", v]),
                               lambda ch: st.tuples(st.sampled_from(["+", "-", "*"]), ch, ch).map(lambda t: ["b", t[0], t[1], t[2]]),
                               max_leaves=3))
        c["tree"], c["s"] = lt, exprs.render(lt)
        for k in ("ext", "ext_more", "fresh"):
            c.pop(k, None)
    c["sp"] = draw(st.sampled_from(["", "", " "]))
    # the augmented spelling  lhs op= rhs  (documented meaning: lhs = lhs op (rhs)); needs an lhs that exists
    if c["lhs"] in ("a", "b", "x", "y", "z") and c.get(c["lhs"], True) is not None and draw(st.integers(0, 3)) == 0:
        c["aug"] = draw(st.sampled_from(["+", "-", "*", "/", "^", "-", "*"]))
    return c


@self_contained
def body_assign(case):
    tree, lhs = case["tree"], case["lhs"]
    aug = case.get("aug")
    if aug:
        s = lhs + case.get("sp", "") + aug + "=" + case.get("sp", "") + case["s"]
        tree = ["b", aug, ["n", lhs], tree]
    else:
        s = lhs + case.get("sp", "") + "=" + case.get("sp", "") + case["s"]
    coords = case.get("coords", "ENU")
    info = None
    for j, (ext, _) in enumerate(ext_rounds(case)):       # every round on a fresh track (histories are C01's subject)
        try:
            ref = exprs.evaluate(tree, env_of(case, ext), case["n"])
        except exprs.Undef:
            continue
        coord = lhs if lhs in "xyz" else None
        feat = None if coord else lhs
        if coord and not coord_valid(coords, coord, ref.vec):
            continue                 # the value is not a number the coordinate class can hold: nothing is demanded
        tr = build(case)
        before = snapshot(tr)
        operate_expr(tr, s, ext)
        after = snapshot(tr)
        compare_effects(before, after, changed_feature=feat, changed_coord=coord, s=s)
        # a coordinate is read back through every public reading (track.getX(), position.getX(), feature 'x')
        for label, got in (after["views"][coord] if coord else [("feature %r" % lhs, after["feat"][lhs])]):
            if len(got) != len(ref.vec):
                raise Violation("wrong-length", "%r: %s has %d values for %d observations" % (s, label, len(got), len(ref.vec)))
            for i, (g, w) in enumerate(zip(got, ref.vec)):
                ok = same(g, w) if ref.exact else close(g, w, rel=1e-9, abs_=1e-9)
                if not ok:
                    raise Violation("assign-not-stored", "%r%s on %s positions: %s reads %s, expression value is %s" % (
                        s, " with %s" % (ext,) if ext else "", coords, label, got, ref.vec))
        if info is None:
            kind = "coord" if coord else ("overwrite" if lhs in before["names"] else "create")
            f = exprs.features(tree)
            rhs = "literal-rhs" if not f["names"] else ("name-rhs" if tree[0] == "n" else "expr-rhs")
            info = {"nt": True, "cls": [kind, rhs, "coords-" + coords, kind + "-" + coords] + (["ext"] if f["externals"] else [])
                    + (["augmented-" + aug] if aug else []) + ["values-" + case.get("vtype", "py")]}
            if coord:
                info["cls"].append("coord-%s-%s" % (rhs, coords))
        elif "ext-repeat" not in info["cls"]:
            info["cls"].append("ext-repeat")
    return info if info is not None else {"undef": True}


# --- operator objects give the same values ------------------------------------------------------------
UNARY_VOID = {"ABS": "RECTIFIER", "SQRT": "SQRT", "LOG": "LOG", "EXP": "EXP", "COS": "COS", "SIN": "SIN", "TAN": "TAN",
              "SIGN": "SIGN", "DIODE": "DIODE", "D": "DIFFERENTIATOR", "I": "INTEGRATOR", "D2": "SECOND_ORDER_FINITE_DIFF"}
NON_VOID = {"SUM": "SUM", "AVG": "AVERAGER", "VAR": "VARIANCE", "STD": "STDDEV", "MSE": "MSE", "RMSE": "RMSE", "MAD": "MAD",
            "MIN": "MIN", "MAX": "MAX", "MEDIAN": "MEDIAN", "ARGMIN": "ARGMIN", "ARGMAX": "ARGMAX"}
BINARY_VOID = {"+": "ADDER", "-": "SUBSTRACTER", "*": "MULTIPLIER", "/": "DIVIDER", "^": "POWER", ">": "ABOVE", "<": "BELOW"}
SCALAR_VOID = {"+": "SCALAR_ADDER", "-": "SCALAR_SUBSTRACTER", "*": "SCALAR_MULTIPLIER", "/": "SCALAR_DIVIDER", "^": "SCALAR_POWER",
               ">": "SCALAR_ABOVE", "<": "SCALAR_BELOW"}
SCALAR_REV = {"-": "SCALAR_REV_SUBSTRACTER", "/": "SCALAR_REV_DIVIDER", "^": "SCALAR_REV_POWER",
              ">": "SCALAR_REV_ABOVE", "<": "SCALAR_REV_BELOW"}
# shift operators: name -> (circular, sign of the documented index offset: y(t) = x(t - sign*k)); unary ones have k = 1
SHIFT_SCALAR = {"SHIFT": (False, 1), "SHIFT_REV": (False, -1), "SHIFT_CIRCULAR": (True, 1), "SHIFT_CIRCULAR_REV": (True, -1)}
SHIFT_UNARY = {"SHIFT_RIGHT": (False, 1), "SHIFT_LEFT": (False, -1), "SHIFT_CIRCULAR_RIGHT": (True, 1), "SHIFT_CIRCULAR_LEFT": (True, -1)}


def shift_ref(opname, vec, k=1):
    """documented result of a shift operator object on the vector vec (k ignored for the unary ones)"""
    if opname in SHIFT_UNARY:
        circ, sign = SHIFT_UNARY[opname]
        return exprs.shift_ref(vec, sign, circ)
    circ, sign = SHIFT_SCALAR[opname]
    return exprs.shift_ref(vec, sign * k, circ)


@st.composite
def strat_operator(draw):
    n = draw(st.integers(1, 5))
    a = draw(exprs.vectors(n))
    b = draw(exprs.vectors(n))
    xyz = draw(st.lists(st.tuples(*[st.sampled_from(exprs.VALUES)] * 3).map(list), min_size=n, max_size=n))
    src = st.sampled_from(NAMES)
    kind = draw(st.sampled_from(["uv", "nv", "bv", "sv", "sr", "su", "sh"]))
    extra = {}
    if kind == "uv":
        tree = ["f", draw(st.sampled_from(sorted(UNARY_VOID))), ["n", draw(src)]]
    elif kind == "nv":
        tree = ["f", draw(st.sampled_from(sorted(NON_VOID))), ["n", draw(src)]]
    elif kind == "bv":
        tree = ["b", draw(st.sampled_from(sorted(BINARY_VOID))), ["n", draw(src)], ["n", draw(src)]]
    elif kind == "sv":
        tree = ["b", draw(st.sampled_from(sorted(SCALAR_VOID))), ["n", draw(src)], ["l", draw(st.sampled_from(exprs.LITERALS))]]
    elif kind == "sr":
        tree = ["b", draw(st.sampled_from(sorted(SCALAR_REV))), ["l", draw(st.sampled_from(exprs.LITERALS))], ["n", draw(src)]]
    else:
        # shift operators have no form in the stated expression language: "tree" is only the source leaf
        tree = ["n", draw(st.sampled_from(["a", "a", "b", "b"] + NAMES))]
        if kind == "su":
            extra = {"op": draw(st.sampled_from(sorted(SHIFT_UNARY)))}
        else:
            extra = {"op": draw(st.sampled_from(sorted(SHIFT_SCALAR))), "k": draw(st.integers(-6, 6))}
    c = _vec_case(tree, exprs.render(tree), n, a, b, xyz)
    c.update(extra)
    c["kind"] = kind
    c["coords"] = draw(st.sampled_from(COORDS))
    # output: a new name, an existing feature (possibly the input itself), or omitted (= first input, documented)
    c["dst"] = draw(st.sampled_from(["out", "a", "b", None]))
    return c


def first_input(case):
    tree, kind = case["tree"], case["kind"]
    if kind in ("su", "sh"):
        return tree[1]
    return tree[3][1] if kind == "sr" else tree[2][1]


@self_contained
def body_operator(case):
    tree, kind = case["tree"], case["kind"]
    dst = case.get("dst", "out")
    env = env_of(case)
    try:
        if kind in ("su", "sh"):
            src = exprs.evaluate(tree, env, case["n"])
            ref = exprs.Val(shift_ref(case["op"], src.vec, case.get("k", 1)), src.exact)
            tree = ["f", "SHIFT_CIRCULAR" if (SHIFT_UNARY.get(case["op"]) or SHIFT_SCALAR[case["op"]])[0] else "SHIFT", tree]
        else:
            ref = exprs.evaluate(tree, env, case["n"])
    except exprs.Undef:
        return {"undef": True}
    cls = [kind, "exact" if ref.exact else "inexact", "coords-" + case.get("coords", "ENU")] + magnitude_classes(case, case["tree"])
    inp = first_input(case)
    omitted = False
    if kind != "nv":
        if dst is None and inp not in ("a", "b"):
            dst = "out"              # an omitted output means the first input; not issued for the virtual ones
        omitted = dst is None
        eff = inp if omitted else dst
        cls.append("dst-omitted" if omitted else ("dst-is-input" if eff == inp else ("dst-existing" if eff in ("a", "b") else "dst-new")))
        if kind in ("su", "sh") and eff == inp:
            cls.append("shift-in-place")
    tr = build(case)
    before = snapshot(tr)
    out = [] if omitted else [dst]
    if kind == "uv":
        tr.operate(getattr(Operator, UNARY_VOID[tree[1]]), tree[2][1], *out)
    elif kind == "nv":
        r = tr.operate(getattr(Operator, NON_VOID[tree[1]]), tree[2][1])
        check_values([r] * case["n"], ref, "Operator.%s(%s)" % (NON_VOID[tree[1]], tree[2][1]), tree)
        compare_effects(before, snapshot(tr), s="Operator." + NON_VOID[tree[1]])
    elif kind == "bv":
        tr.operate(getattr(Operator, BINARY_VOID[tree[1]]), tree[2][1], tree[3][1], *out)
    elif kind == "sv":
        tr.operate(getattr(Operator, SCALAR_VOID[tree[1]]), tree[2][1], tree[3][1], *out)
    elif kind == "sr":
        tr.operate(getattr(Operator, SCALAR_REV[tree[1]]), tree[3][1], tree[2][1], *out)
    elif kind == "su":
        tr.operate(getattr(Operator, case["op"]), inp, *out)
    else:
        tr.operate(getattr(Operator, case["op"]), inp, case["k"], *out)
    if kind != "nv":
        what = "Operator.%s on %s" % (case["op"] + ("(k=%d)" % case["k"] if kind == "sh" else ""), inp) if kind in ("su", "sh") \
            else "Operator form of " + case["s"]
        what += " -> %s" % ("(omitted)" if omitted else dst)
        after = snapshot(tr)
        compare_effects(before, after, changed_feature=eff, s=what)
        check_values(after["feat"][eff], ref, what, tree)
    if kind not in ("su", "sh"):
        # the algebraic form of the same one-operator tree on a fresh track
        tr2 = build(case)
        check_values(tr2.operate(case["s"]), ref, case["s"], tree)
    return {"nt": True, "cls": cls}


RULE = ("exhaustive: every tree of depth <= 2 (quick, + every 31st depth-3 tree) / depth <= 3 (thorough) over leaves {a,b,idx,2} and "
        "+ - * / ^ < >, on 3 fixed vector sets; random: Hypothesis recursive trees (depth <= 6, functions, unary minus, styles) on vectors from "
        "{-2..3, NaN} (two fifths of the vectors mixed with magnitudes 2^-70..1e12), a third of them with external scalar variables (k, w, factor) as leaves, the call handing their values over in a dictionary "
        "(sometimes with an unused entry) and the same text evaluated up to 2 more times with other values on the same or a fresh track; "
        "assign: the same with '=' and lhs in {new, existing, x, y, z} (repeated rounds on fresh tracks); every sub-check draws the "
        "coordinate class of the positions from {ENU, GEO, ECEF}; operators: one-operator trees through "
        "Operator objects, plus the 8 shift operator objects (k in -6..6), with the output a new name, an existing feature, the input itself, "
        "or omitted (= first input). "
        "Non-trivial: reference fully defined and (>= 2 operators of different precedence, or a same-precedence non-commutative chain, "
        "or a scalar on the left, or a literal-only sub-tree, or a parenthesis that changes the parse); assign/operators: reference defined. "
        "Distinct = hash of the case.")

# coverage-guided stage of the thorough tier (vt/fuzz.py): sub-check -> libFuzzer executions
FUZZ = {'random_expr': 20000, 'assign': 10000}

SUBCHECKS = [
    SubCheck("exhaustive", body_eval, enum=enum_trees, rule="all small trees", qshards=8),
    SubCheck("random_expr", body_eval, strategy=strat_eval, quick=6000, thorough=300000),
    SubCheck("assign", body_assign, strategy=strat_assign, quick=3000, thorough=150000),
    SubCheck("operators", body_operator, strategy=strat_operator, quick=3000, thorough=100000),
]
