"""C02 - algebraic feature expressions evaluate to ordinary arithmetic.
Oracle: vt.exprs.evaluate (own tree evaluator, documented operator semantics)."""
import itertools

from hypothesis import strategies as st

from tracklib.core.operators import Operator
from tracklib.util.exceptions import AnalyticalFeatureError

from vt import exprs, gen
from vt.core import SubCheck, Violation, close, same

ASSUMPTIONS = [
    "language = documented subset: numbers, names a b x y z t idx, + - * / ^ < >, parentheses, unary minus at start/after '='/after '(' "
    "and the pairs '--' '+-', f{e} or f(e) for the documented functions, D/I/D2; function arguments contain a feature name",
    "undefined or numerically fragile arithmetic (x/0, 0^-k, negative^fraction, LOG<=0, SQRT<0, SIGN(0), pointwise f(NaN), MEDIAN with NaN, "
    "aggregate of all-NaN, |v|>1e100, cancellation/comparison of inexact nearly-equal operands) is not judged",
    "exact equality is demanded when every operation in the tree is exact on dyadic data, 1e-9 relative otherwise",
]

T0 = gen.ms_of_fields(2021, 3, 4, 5, 6, 7)
NAMES = ["a", "b", "x", "y", "z", "t", "idx"]


# ----------------------------------------------------------------------------------------------
def build(case):
    n = case["n"]
    tr = gen.make_track([tuple(p) for p in case["xyz"]], [T0 + 1000 * i for i in range(n)])
    for name in ("a", "b"):
        if case.get(name) is not None:
            tr.createAnalyticalFeature(name, list(case[name]))
    return tr


def env_of(case):
    n = case["n"]
    env = {"x": [float(p[0]) for p in case["xyz"]], "y": [float(p[1]) for p in case["xyz"]],
           "z": [float(p[2]) for p in case["xyz"]], "t": [(T0 + 1000 * i) / 1000.0 for i in range(n)],
           "idx": [float(i) for i in range(n)]}
    for name in ("a", "b"):
        if case.get(name) is not None:
            env[name] = [float(v) for v in case[name]]
    return env


def snapshot(tr):
    names = list(tr.getListAnalyticalFeatures())
    return {"names": names, "feat": {k: list(tr.getAnalyticalFeature(k)) for k in names},
            "x": tr.getX(), "y": tr.getY(), "z": tr.getZ(),
            "t": [gen.ms_of_obstime(tr.getObs(i).timestamp) for i in range(tr.size())],
            "nfeat": [len(tr.getObs(i).features) for i in range(tr.size())]}


def vec_same(u, v):
    return len(u) == len(v) and all(same(p, q) for p, q in zip(u, v))


def compare_effects(before, after, changed_feature=None, changed_coord=None, new_values=None, s=""):
    """everything except the designated feature / coordinate must be as before"""
    want_names = set(before["names"])
    if changed_feature is not None:
        want_names.add(changed_feature)
    got_names = set(after["names"])
    left = [k for k in got_names if k.startswith("#")]
    if left:
        raise Violation("temp-left-listed", "%r leaves evaluator temporaries %s listed" % (s, left))
    if got_names != want_names:
        missing = want_names - got_names
        if missing:
            raise Violation("feature-removed", "%r removed feature(s) %s" % (s, sorted(missing)))
        raise Violation("feature-added", "%r added feature(s) %s" % (s, sorted(got_names - want_names)))
    if len(after["names"]) != len(got_names) or any(k != len(got_names) for k in after["nfeat"]):
        raise Violation("table-misaligned", "%r: %d names listed, observations carry %s values" % (s, len(got_names), after["nfeat"]))
    for k in before["names"]:
        if k != changed_feature and not vec_same(before["feat"][k], after["feat"][k]):
            raise Violation("other-feature-changed", "%r changed feature %s: %s -> %s" % (s, k, before["feat"][k], after["feat"][k]))
    for c in "xyz":
        if c != changed_coord and not vec_same(before[c], after[c]):
            raise Violation("coordinate-changed", "%r changed %s: %s -> %s" % (s, c, before[c], after[c]))
    if before["t"] != after["t"]:
        raise Violation("timestamp-changed", "%r changed timestamps" % s)


def check_values(got, ref, s, tree):
    if len(got) != len(ref.vec):
        raise Violation("wrong-length", "%r returned %d values for %d observations" % (s, len(got), len(ref.vec)))
    for i, (g, w) in enumerate(zip(got, ref.vec)):
        try:
            g = float(g)
        except (TypeError, ValueError):
            raise Violation("non-numeric-result", "%r -> %r at index %d" % (s, g, i))
        ok = same(g, w) if ref.exact else close(g, w, rel=1e-9, abs_=1e-9)
        if not ok:
            fs = sorted(exprs.features(tree)["funcs"])
            raise Violation("wrong-value:" + ("+".join(fs) if fs else "operators"),
                            "%r gives %r at index %d, ordinary arithmetic gives %r (all: %s vs %s)" % (s, g, i, w, got, ref.vec))


def classes_of(tree, ref):
    f = exprs.features(tree)
    cls = ["depth-%d" % min(f["depth"], 7)]
    for k in ("noncomm_chain", "scalar_left", "literal_only", "paren_needed", "neg"):
        if f[k]:
            cls.append(k)
    if len(f["levels"]) >= 2:
        cls.append("mixed-precedence")
    if f["funcs"]:
        cls.append("funcs")
    if any(v != v for v in ref.vec):
        cls.append("nan-result")
    cls.append("exact" if ref.exact else "inexact")
    return cls


# --- evaluation without '=' ---------------------------------------------------------------------
def body_eval(case):
    tree, s = case["tree"], case["s"]
    try:
        ref = exprs.evaluate(tree, env_of(case), case["n"])
    except exprs.Undef:
        return {"undef": True}
    tr = build(case)
    before = snapshot(tr)
    got = tr.operate(s)
    check_values(got, ref, s, tree)
    compare_effects(before, snapshot(tr), s=s)
    return {"nt": exprs.nontrivial(tree), "cls": classes_of(tree, ref)}


def _vec_case(tree, s, n, a, b, xyz):
    return {"n": n, "a": a, "b": b, "xyz": xyz, "tree": tree, "s": s}


@st.composite
def strat_eval(draw, max_depth=6):
    n = draw(st.integers(1, 5))
    tree, s = draw(exprs.styled(exprs.trees(NAMES, max_depth)))
    a = draw(exprs.vectors(n))
    b = draw(exprs.vectors(n))
    xyz = draw(st.lists(st.tuples(*[st.sampled_from(exprs.VALUES)] * 3).map(list), min_size=n, max_size=n))
    return _vec_case(tree, s, n, a, b, xyz)


# --- exhaustive depth <= 3 ------------------------------------------------------------------------
LEAVES = [["n", "a"], ["n", "b"], ["n", "idx"], ["l", 2]]
FIXED = [
    (3, [1.0, 2.0, 3.0], [2.0, 0.5, -1.0]),
    (4, [0.0, -2.0, 2.0, 2.0], [3.0, 3.0, 1.0, -0.5]),
    (2, [0.5, float("nan")], [-1.0, 2.0]),
]


def _level(k):
    if k == 1:
        return list(LEAVES)
    prev = _level(k - 1)
    return list(LEAVES) + [["b", op, l, r] for op in exprs.BINOPS for l in prev for r in prev]


def enum_trees(tier):
    d2 = _level(2)
    out = d2
    if tier == "thorough":
        out = _level(3)
    else:
        d3 = _level(3)
        out = d2 + d3[len(LEAVES)::31]          # depth 2 complete + every 31st depth-3 tree
    for tree in out:
        s = exprs.render(tree)
        for k, (n, a, b) in enumerate(FIXED):
            yield _vec_case(tree, s, n, a, b, [[float(i), 1.0, 0.5] for i in range(n)])


# --- with '=' ---------------------------------------------------------------------------------------
@st.composite
def strat_assign(draw):
    c = draw(strat_eval(max_depth=4))
    c["lhs"] = draw(st.sampled_from(["c", "a", "b", "x", "y", "z", "k1"]))
    # right-hand sides made of literals only ("a=5", "a=2*3") are in the language
    if draw(st.integers(0, 5)) == 0:
        lt = draw(st.recursive(st.sampled_from(exprs.LITERALS).map(lambda v: ["l", v]),
                               lambda ch: st.tuples(st.sampled_from(["+", "-", "*"]), ch, ch).map(lambda t: ["b", t[0], t[1], t[2]]),
                               max_leaves=3))
        c["tree"], c["s"] = lt, exprs.render(lt)
    c["sp"] = draw(st.sampled_from(["", "", " "]))
    return c


def body_assign(case):
    tree, lhs = case["tree"], case["lhs"]
    s = lhs + case.get("sp", "") + "=" + case.get("sp", "") + case["s"]
    try:
        ref = exprs.evaluate(tree, env_of(case), case["n"])
    except exprs.Undef:
        return {"undef": True}
    tr = build(case)
    before = snapshot(tr)
    tr.operate(s)
    after = snapshot(tr)
    coord = lhs if lhs in "xyz" else None
    feat = None if coord else lhs
    compare_effects(before, after, changed_feature=feat, changed_coord=coord, s=s)
    got = after[coord] if coord else after["feat"][lhs]
    for i, (g, w) in enumerate(zip(got, ref.vec)):
        ok = same(g, w) if ref.exact else close(g, w, rel=1e-9, abs_=1e-9)
        if not ok:
            raise Violation("assign-not-stored", "%r: %s reads %s, expression value is %s" % (s, lhs, got, ref.vec))
    kind = "coord" if coord else ("overwrite" if lhs in before["names"] else "create")
    f = exprs.features(tree)
    rhs = "literal-rhs" if not f["names"] else ("name-rhs" if tree[0] == "n" else "expr-rhs")
    return {"nt": True, "cls": [kind, rhs]}


# --- operator objects give the same values ------------------------------------------------------------
UNARY_VOID = {"ABS": "RECTIFIER", "SQRT": "SQRT", "LOG": "LOG", "EXP": "EXP", "COS": "COS", "SIN": "SIN", "TAN": "TAN",
              "SIGN": "SIGN", "DIODE": "DIODE", "D": "DIFFERENTIATOR", "I": "INTEGRATOR", "D2": "SECOND_ORDER_FINITE_DIFF"}
NON_VOID = {"SUM": "SUM", "AVG": "AVERAGER", "VAR": "VARIANCE", "STD": "STDDEV", "MSE": "MSE", "RMSE": "RMSE", "MAD": "MAD",
            "MIN": "MIN", "MAX": "MAX", "MEDIAN": "MEDIAN", "ARGMIN": "ARGMIN", "ARGMAX": "ARGMAX"}
BINARY_VOID = {"+": "ADDER", "-": "SUBSTRACTER", "*": "MULTIPLIER", "/": "DIVIDER", "^": "POWER", ">": "ABOVE", "<": "BELOW"}
SCALAR_VOID = {"+": "SCALAR_ADDER", "-": "SCALAR_SUBSTRACTER", "*": "SCALAR_MULTIPLIER", "/": "SCALAR_DIVIDER", "^": "SCALAR_POWER",
               ">": "SCALAR_ABOVE", "<": "SCALAR_BELOW"}
SCALAR_REV = {"-": "SCALAR_REV_SUBSTRACTER", "/": "SCALAR_REV_DIVIDER", "^": "SCALAR_REV_POWER",
              ">": "SCALAR_REV_ABOVE", "<": "SCALAR_REV_BELOW"}


@st.composite
def strat_operator(draw):
    n = draw(st.integers(1, 5))
    a = draw(exprs.vectors(n))
    b = draw(exprs.vectors(n))
    xyz = draw(st.lists(st.tuples(*[st.sampled_from(exprs.VALUES)] * 3).map(list), min_size=n, max_size=n))
    src = st.sampled_from(NAMES)
    kind = draw(st.sampled_from(["uv", "nv", "bv", "sv", "sr"]))
    if kind == "uv":
        tree = ["f", draw(st.sampled_from(sorted(UNARY_VOID))), ["n", draw(src)]]
    elif kind == "nv":
        tree = ["f", draw(st.sampled_from(sorted(NON_VOID))), ["n", draw(src)]]
    elif kind == "bv":
        tree = ["b", draw(st.sampled_from(sorted(BINARY_VOID))), ["n", draw(src)], ["n", draw(src)]]
    elif kind == "sv":
        tree = ["b", draw(st.sampled_from(sorted(SCALAR_VOID))), ["n", draw(src)], ["l", draw(st.sampled_from(exprs.LITERALS))]]
    else:
        tree = ["b", draw(st.sampled_from(sorted(SCALAR_REV))), ["l", draw(st.sampled_from(exprs.LITERALS))], ["n", draw(src)]]
    c = _vec_case(tree, exprs.render(tree), n, a, b, xyz)
    c["kind"] = kind
    c["dst"] = draw(st.sampled_from(["out", "a", "b"]))
    return c


def body_operator(case):
    tree, kind, dst = case["tree"], case["kind"], case["dst"]
    try:
        ref = exprs.evaluate(tree, env_of(case), case["n"])
    except exprs.Undef:
        return {"undef": True}
    tr = build(case)
    before = snapshot(tr)
    if kind == "uv":
        tr.operate(getattr(Operator, UNARY_VOID[tree[1]]), tree[2][1], dst)
    elif kind == "nv":
        r = tr.operate(getattr(Operator, NON_VOID[tree[1]]), tree[2][1])
        check_values([r] * case["n"], ref, "Operator.%s(%s)" % (NON_VOID[tree[1]], tree[2][1]), tree)
        compare_effects(before, snapshot(tr), s="Operator." + NON_VOID[tree[1]])
        dst = None
    elif kind == "bv":
        tr.operate(getattr(Operator, BINARY_VOID[tree[1]]), tree[2][1], tree[3][1], dst)
    elif kind == "sv":
        tr.operate(getattr(Operator, SCALAR_VOID[tree[1]]), tree[2][1], tree[3][1], dst)
    else:
        tr.operate(getattr(Operator, SCALAR_REV[tree[1]]), tree[3][1], tree[2][1], dst)
    if dst is not None:
        after = snapshot(tr)
        compare_effects(before, after, changed_feature=dst, s="Operator on %s -> %s" % (case["s"], dst))
        check_values(after["feat"][dst], ref, "Operator form of " + case["s"], tree)
    # the algebraic form of the same one-operator tree on a fresh track
    tr2 = build(case)
    check_values(tr2.operate(case["s"]), ref, case["s"], tree)
    return {"nt": True, "cls": [kind, "exact" if ref.exact else "inexact"]}


RULE = ("exhaustive: every tree of depth <= 2 (quick, + every 31st depth-3 tree) / depth <= 3 (thorough) over leaves {a,b,idx,2} and "
        "+ - * / ^ < >, on 3 fixed vector sets; random: Hypothesis recursive trees (depth <= 6, functions, unary minus, styles) on vectors from "
        "{-2..3, NaN}; assign: the same with '=' and lhs in {new, existing, x, y, z}; operators: one-operator trees through Operator objects. "
        "Non-trivial: reference fully defined and (>= 2 operators of different precedence, or a same-precedence non-commutative chain, "
        "or a scalar on the left, or a literal-only sub-tree, or a parenthesis that changes the parse); assign/operators: reference defined. "
        "Distinct = hash of the case.")

# coverage-guided stage of the thorough tier (vt/fuzz.py): sub-check -> libFuzzer executions
FUZZ = {'random_expr': 20000, 'assign': 10000}

SUBCHECKS = [
    SubCheck("exhaustive", body_eval, enum=enum_trees, rule="all small trees", qshards=8),
    SubCheck("random_expr", body_eval, strategy=strat_eval, quick=6000, thorough=300000),
    SubCheck("assign", body_assign, strategy=strat_assign, quick=3000, thorough=150000),
    SubCheck("operators", body_operator, strategy=strat_operator, quick=3000, thorough=100000),
]
