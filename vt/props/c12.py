"""C12 - optimalPartition returns a global optimum for the requested direction, and so do its delegating
callers (optimalSegmentation, simplify(..., MODE_SIMPLIFY_FREE[_MAXIMIZE]), findStopsGlobal).
Oracle: enumeration of all 2^(N-2) strictly increasing index lists 0 .. N-1 (never a dynamic programme)."""
import itertools
import math
import random

import numpy as np
from hypothesis import strategies as st

from tracklib.algo.segmentation import (MODE_SEGMENTATION_MAXIMIZE, MODE_SEGMENTATION_MINIMIZE,
                                        findStopsGlobal, optimalPartition, optimalSegmentation)
import tracklib.algo.simplification as simplification
from tracklib.algo.simplification import MODE_SIMPLIFY_FREE, MODE_SIMPLIFY_FREE_MAXIMIZE, simplify

from vt import gen
from vt.core import SubCheck, Violation

REL = 1e-9

ASSUMPTIONS = [
    "conventions of optimalPartition taken from its callers: a (N+1)x(N+1) matrix describes N break candidates 0..N-1; "
    "the last row/column and the diagonal carry no cost; the returned list runs from 0 to N-1",
    "optimalSegmentation: matrix entry (i, j) = cost(track, i, j-1) as its comment documents; N = track.size() - 1",
    "value of a list = sum of cost[i_k, i_k+1]; exact comparison on integer-valued matrices, 1e-9 relative on floats",
    "findStopsGlobal: reward of a segment p_i..p_j-1 = (j-i)^2 if its minimal enclosing circle is smaller than `diameter` and it "
    "lasts longer than `duration`, else 0 (its documented matrix); point sets in general position only (no duplicate / "
    "cocircular / right-angle configurations, where tracklib's randomised minCircle is outside this property), "
    "thresholds never within 1e-6 of a measured diameter or equal to a measured duration",
    "enumeration oracle: all 2^(N-2) lists, N <= 12",
    "simplify_builtin: the per-segment criterion of simplify modes 4/5/6 is evaluated by tracklib's own (private) cost "
    "functions with the tolerance as their offset; only the optimisation is judged (1e-9 relative); tracks in general position (no repeated position, no three fixes "
    "collinear: tracklib's Jarvis-march convex hull does not terminate on collinear sets, which is outside C12)",
    "partition: the same matrix object may be passed again (other direction): every answer is judged against the matrix as first handed over",
]

MIN, MAX = MODE_SEGMENTATION_MINIMIZE, MODE_SEGMENTATION_MAXIMIZE


# --- oracle ---------------------------------------------------------------------------------------
def all_lists(N):
    inner = list(range(1, N - 1))
    for r in range(len(inner) + 1):
        for mid in itertools.combinations(inner, r):
            yield (0,) + mid + (N - 1,)


def list_value(W, L):
    return sum(W[L[k]][L[k + 1]] for k in range(len(L) - 1))


def enumerate_optimum(W, N):
    """(min value, max value, number of distinct values) over ALL admissible lists."""
    vals = [list_value(W, L) for L in all_lists(N)]
    return min(vals), max(vals), len(set(vals))


def _eq(a, b, exact):
    if exact:
        return a == b
    return abs(a - b) <= REL * max(abs(a), abs(b), 1.0)


def judge(entry, L, W, N, mode, exact):
    """L = list returned through `entry`; raises Violation unless it is an optimum of direction `mode`."""
    try:
        Li = [int(v) for v in L]
        ok = all(float(v) == float(i) for v, i in zip(L, Li))
    except (TypeError, ValueError):
        ok = False
    if not ok or len(Li) < 2 or Li[0] != 0 or Li[-1] != N - 1 or any(Li[k] >= Li[k + 1] for k in range(len(Li) - 1)):
        raise Violation("list-malformed", "%s returned %r; want strictly increasing from 0 to %d" % (entry, L, N - 1))
    vmin, vmax, nvals = enumerate_optimum(W, N)
    v = list_value(W, Li)
    want = vmin if mode == MIN else vmax
    if not _eq(v, want, exact):
        name = "minimize" if mode == MIN else "maximize"
        other = vmax if mode == MIN else vmin
        if _eq(v, other, exact):
            key = "minimize-returns-maximum" if mode == MIN else "maximize-returns-minimum"
        else:
            key = "suboptimal-" + name
        raise Violation(key, "%s (%s): %r has value %r, enumeration min %r max %r; upper triangle %r" % (
            entry, name, Li, v, vmin, vmax, [[W[i][j] for j in range(i + 1, N)] for i in range(N - 1)]))
    trivial = W[0][N - 1]
    nt = (not _eq(vmin, vmax, exact)) and (not _eq(trivial, vmin, exact)) and (not _eq(trivial, vmax, exact))
    cls = ["min" if mode == MIN else "max", "N=%s" % (N if N <= 6 else "7-9" if N <= 9 else "10-12")]
    cls.append("all-lists-equal" if nvals == 1 else "two-element-list-optimal" if not nt else "interior-optimum")
    if len(Li) > 2:
        cls.append("returned-has-interior-break")
    return {"nt": nt, "cls": cls}


# --- case -> matrices ---------------------------------------------------------------------------------
def unpack(case):
    """W[i][j] for 0 <= i < j < N (symmetric), from the row-major upper triangle in case['w']."""
    N = case["N"]
    if "base" in case:
        i, b = case["i"], case["base"]
        w = []
        for _ in range(N * (N - 1) // 2):
            w.append(float(i % b))
            i //= b
    else:
        w = [float(v) for v in case["w"]]
    W = [[0.0] * N for _ in range(N)]
    it = iter(w)
    for i in range(N):
        for j in range(i + 1, N):
            W[i][j] = W[j][i] = next(it)
    exact = all(v == int(v) and abs(v) < 2 ** 40 for v in w)
    return N, W, exact


def full_matrix(case, N, W):
    """(N+1)x(N+1) symmetric array handed to optimalPartition: unused diagonal and last row/column are filled too."""
    C = np.zeros((N + 1, N + 1))
    for i in range(N):
        for j in range(N):
            if i != j:
                C[i, j] = W[i][j]
    pad = case.get("pad", 0.0)
    for i in range(N + 1):
        C[i, N] = C[N, i] = pad
    for i in range(N + 1):
        C[i, i] = case.get("diag", 0.0)
    return C


# --- (1) optimalPartition ------------------------------------------------------------------------------
def body_partition(case):
    N, W, exact = unpack(case)
    C = full_matrix(case, N, W)
    if case.get("int_dtype") and exact and float(case.get("pad", 0)).is_integer() and float(case.get("diag", 0)).is_integer():
        C = C.astype(int)
    L = optimalPartition(C, case["mode"], verbose=bool(case.get("verbose", False)))
    info = judge("optimalPartition", L, W, N, case["mode"], exact)
    info["cls"].append("integer-valued" if exact else "float-valued")
    # further calls with the SAME matrix object (a user minimises, then maximises, the criterion they built):
    # each answer is judged against the matrix as it was handed over the first time
    for k, mode in enumerate(case.get("again", [])):
        L = optimalPartition(C, mode, verbose=False)
        try:
            judge("optimalPartition", L, W, N, mode, exact)
        except Violation as v:
            raise Violation("repeat-call-" + v.key, "call %d on the same matrix object (modes so far %s): %s"
                            % (k + 2, [case["mode"]] + case["again"][:k + 1], v.msg))
    if case.get("again"):
        info["cls"].append("same-matrix-called-%d-times" % (1 + len(case["again"])))
    return info


def enum_partition(tier):
    for mode in (MIN, MAX):
        for N in (2, 3, 4, 5):
            for i in range(3 ** (N * (N - 1) // 2)):
                yield {"N": N, "base": 3, "i": i, "mode": mode}
        for i in range(2 ** 15):
            yield {"N": 6, "base": 2, "i": i, "mode": mode}


def _values(kind):
    return {
        "tern": st.sampled_from([0.0, 1.0, 2.0]),
        "int": st.integers(0, 10).map(float),
        "quarter": st.integers(0, 40).map(lambda k: k / 4.0),
        "float": st.floats(min_value=0.0, max_value=10.0, allow_nan=False, allow_infinity=False),
        "signed": st.integers(-3, 3).map(float),
    }[kind]


@st.composite
def _matrix_case(draw, nmin=2, nmax=12):
    N = draw(st.one_of(st.integers(nmin, nmax), st.integers(max(nmin, 4), 9)))
    kind = draw(st.sampled_from(["tern", "int", "int", "quarter", "float", "float", "signed"]))
    val = _values(kind)
    w = draw(st.lists(val, min_size=N * (N - 1) // 2, max_size=N * (N - 1) // 2))
    return {"N": N, "w": w, "mode": draw(st.sampled_from([MIN, MAX])), "kind": kind}


@st.composite
def _partition_case(draw):
    c = draw(_matrix_case())
    val = _values(c["kind"])
    c["pad"] = draw(val)
    c["diag"] = draw(val)
    c["int_dtype"] = draw(st.booleans())
    c["verbose"] = draw(st.sampled_from([False, False, False, True]))
    if draw(st.integers(0, 2)) == 0:
        c["again"] = draw(st.lists(st.sampled_from([MIN, MAX]), min_size=1, max_size=3))
    return c


# --- (2) optimalSegmentation with a table-backed cost function -----------------------------------------------
def _track(n):
    return gen.make_track([(float(3 * k), float((k * k) % 5)) for k in range(n)])


def _cost_fn(track, W, N, glob, calls):
    """cost(track, i, j[, glob]) = W[i][j+1]: the matrix entry (i, j+1) is documented as cost(track, i, j)."""
    def lookup(t, i, j):
        calls.append((i, j))
        if 0 <= i <= j and j + 1 < N:
            return W[i][j + 1]
        return 0.0                      # diagonal (i, i-1) and anything outside the documented triangle: no information

    if glob is None:
        def cost(t, i, j):
            return lookup(t, i, j)
    else:
        def cost(t, i, j, g):
            if g != glob:
                raise Violation("cost-callback-contract", "glob_param arrived as %r, was %r" % (g, glob))
            return lookup(t, i, j)
    return cost


def body_segmentation(case):
    N, W, exact = unpack(case)
    track = _track(N + 1)
    glob = case.get("glob")
    calls = []
    cost = _cost_fn(track, W, N, glob, calls)
    L = optimalSegmentation(track, cost, glob, case["mode"], bool(case.get("verbose", False)))
    info = judge("optimalSegmentation", L, W, N, case["mode"], exact)
    info["cls"].append("glob-param" if glob is not None else "no-glob-param")
    return info


@st.composite
def _segmentation_case(draw):
    c = draw(_matrix_case(2, 10))
    c["glob"] = draw(st.sampled_from([None, None, 0.5, 7, 0, 0.0]))
    c["verbose"] = draw(st.sampled_from([False, False, False, True]))
    return c


# --- (3) simplify(track, cost, MODE_SIMPLIFY_FREE / FREE_MAXIMIZE) -----------------------------------------
def body_simplify(case):
    N, W, exact = unpack(case)
    track = _track(N + 1)
    rec = gen.track_records(track)
    calls = []
    cost = _cost_fn(track, W, N, None, calls)
    mode = case["mode"]
    smode = MODE_SIMPLIFY_FREE if mode == MIN else MODE_SIMPLIFY_FREE_MAXIMIZE
    if case.get("verbose") is None:
        out = simplify(track, cost, smode)
    else:
        out = simplify(track, cost, smode, bool(case["verbose"]))
    by_time = {r[3]: k for k, r in enumerate(rec)}
    L = []
    for r in gen.track_records(out):
        k = by_time.get(r[3])
        if k is None or rec[k][:3] != r[:3]:
            raise Violation("simplified-not-a-subset", "simplified track holds %r, not a fix of the input" % (r,))
        L.append(k)
    info = judge("simplify", L, W, N, mode, exact)
    info["cls"].append("verbose-default" if case.get("verbose") is None else "verbose-given")
    return info


@st.composite
def _simplify_case(draw):
    c = draw(_matrix_case(2, 10))
    c["verbose"] = draw(st.sampled_from([None, False, True]))
    return c


# --- (3b) simplify with the built-in criteria (modes 4, 5, 6): minimise the documented per-segment cost ---------
BUILTIN = {
    simplification.MODE_SIMPLIFY_MINIMIZE_LARGEST_DEVIATION: "__cost_largest_deviation",
    simplification.MODE_SIMPLIFY_MINIMIZE_ELONGATION_RATIO: "__cost_mbr_ratio",
    simplification.MODE_SIMPLIFY_PRECLUDE_LARGE_DEVIATION: "__cost_largest_deviation_strict",
}


def body_simplify_builtin(case):
    """The criterion (width / elongation of the minimum bounding rectangle of the skipped fixes + the tolerance as a
    per-segment penalty) is evaluated with tracklib's own cost function - the bounding rectangle is not what C12 is
    about - and the OPTIMISATION over all 2^(N-2) index lists is done here by enumeration."""
    pts = [tuple(p) for p in case["pts"]]
    n = len(pts)
    N = n - 1                                  # break candidates 0..N-1 (the convention of optimalSegmentation)
    if N < 2:
        return {"undef": True}
    if any((pts[b][0] - pts[a][0]) * (pts[c][1] - pts[a][1]) == (pts[b][1] - pts[a][1]) * (pts[c][0] - pts[a][0])
           for a in range(n) for b in range(a + 1, n) for c in range(b + 1, n)):
        return {"undef": True, "cls": ["undef-collinear-triple"]}
    track = gen.make_track(pts)
    rec = gen.track_records(track)
    costfn = getattr(simplification, BUILTIN[case["smode"]])
    tol = case["tol"]
    ref = gen.make_track(pts)
    W = [[0.0] * N for _ in range(N)]
    for i in range(N):
        for j in range(i + 1, N):
            W[i][j] = W[j][i] = float(costfn(ref, i, j - 1, tol))
    if any(not math.isfinite(W[i][j]) for i in range(N) for j in range(N)):
        return {"undef": True, "cls": ["undef-non-finite-cost"]}
    out = simplify(track, tol, case["smode"], False)
    by_time = {r[3]: k for k, r in enumerate(rec)}
    L = []
    for r in gen.track_records(out):
        k = by_time.get(r[3])
        if k is None or rec[k][:3] != r[:3]:
            raise Violation("simplified-not-a-subset", "simplified track holds %r, not a fix of the input" % (r,))
        L.append(k)
    info = judge("simplify(mode %d, tolerance %r)" % (case["smode"], tol), L, W, N, MIN, False)
    info["cls"] += ["smode-%d" % case["smode"], "tol=0" if tol == 0 else "tol>0"]
    if gen.track_records(track) != rec:
        raise Violation("simplify-modifies-input", "input track changed by simplify(mode %d)" % case["smode"])
    return info


@st.composite
def _simplify_builtin_case(draw):
    n = draw(st.integers(3, 9))
    # strictly increasing x: no repeated position, so every bounding rectangle has a positive length
    xs, x = [], 0.0
    for _ in range(n):
        x += draw(st.sampled_from([0.5, 1.0, 1.0, 2.0, 3.5]))
        xs.append(x)
    # no three fixes collinear (exact test on half-integers): tracklib's convex hull (Jarvis march) does not terminate on
    # collinear point sets - a defect of the bounding-shape code, outside what C12 states - so they are not generated
    cand = [k / 2.0 for k in range(-24, 25)]
    ys = []
    for k in range(n):
        start = draw(st.integers(0, len(cand) - 1))
        for off in range(len(cand)):
            y = cand[(start + off) % len(cand)]
            if all((xs[b] - xs[a]) * (y - ys[a]) != (ys[b] - ys[a]) * (xs[k] - xs[a])
                   for a in range(k) for b in range(a + 1, k)):
                ys.append(y)
                break
        else:
            raise AssertionError("no admissible ordinate")
    smode = draw(st.sampled_from(sorted(BUILTIN)))
    tol = draw(st.sampled_from([0, 0.0, 0.1, 0.5, 1.0, 1, 2.0, 5.0]))
    return {"pts": [[a, b] for a, b in zip(xs, ys)], "smode": smode, "tol": tol}


# --- (4) findStopsGlobal ------------------------------------------------------------------------------
def _circle2(a, b):
    return ((a[0] + b[0]) / 2.0, (a[1] + b[1]) / 2.0, math.hypot(a[0] - b[0], a[1] - b[1]) / 2.0)


def _circle3(a, b, c):
    d = 2.0 * (a[0] * (b[1] - c[1]) + b[0] * (c[1] - a[1]) + c[0] * (a[1] - b[1]))
    if d == 0:
        return None
    sa, sb, sc = a[0] ** 2 + a[1] ** 2, b[0] ** 2 + b[1] ** 2, c[0] ** 2 + c[1] ** 2
    ux = (sa * (b[1] - c[1]) + sb * (c[1] - a[1]) + sc * (a[1] - b[1])) / d
    uy = (sa * (c[0] - b[0]) + sb * (a[0] - c[0]) + sc * (b[0] - a[0])) / d
    return (ux, uy, math.hypot(a[0] - ux, a[1] - uy))


def mec_radius(pts):
    """radius of the minimal enclosing circle by brute force over all pairs and triples (len(pts) <= 8)"""
    if len(pts) == 1:
        return 0.0
    cands = [_circle2(a, b) for a, b in itertools.combinations(pts, 2)]
    cands += [c for c in (_circle3(*t) for t in itertools.combinations(pts, 3)) if c is not None]
    cands.sort(key=lambda c: c[2])
    for cx, cy, r in cands:
        if all(math.hypot(p[0] - cx, p[1] - cy) <= r * (1 + 1e-12) + 1e-12 for p in pts):
            return r
    raise AssertionError("no enclosing circle among candidates")


def general_position(pts, collinear_ok):
    """no duplicates; no third point on the circle whose diameter is a pair; no fourth point on the circle through
    a triple; (2-D sets) no collinear triple.  tol relative to the extent."""
    scale = max(1.0, max(abs(v) for p in pts for v in p))
    tol = 1e-7 * scale
    for a, b in itertools.combinations(pts, 2):
        if math.hypot(a[0] - b[0], a[1] - b[1]) <= tol:
            return False
        cx, cy, r = _circle2(a, b)
        for p in pts:
            if p is not a and p is not b and abs(math.hypot(p[0] - cx, p[1] - cy) - r) <= tol:
                return False
    for t in itertools.combinations(pts, 3):
        a, b, c = t
        area2 = abs((b[0] - a[0]) * (c[1] - a[1]) - (c[0] - a[0]) * (b[1] - a[1]))
        if area2 <= tol * scale:
            if not collinear_ok:
                return False
            continue
        cc = _circle3(a, b, c)
        if cc is None:
            continue
        for p in pts:
            if all(p is not q for q in t) and abs(math.hypot(p[0] - cc[0], p[1] - cc[1]) - cc[2]) <= tol:
                return False
    return True


def body_stops(case):
    pts = [(float(p[0]), float(p[1])) for p in case["pts"]]
    n = len(pts)
    N = n - 1
    times = [0]
    for d in case["dt"]:
        times.append(times[-1] + int(d))
    diameter, duration = float(case["diameter"]), float(case["duration"])
    one_d = all(p[1] == 0.0 for p in pts)
    if not general_position(pts, collinear_ok=one_d):
        return {"undef": True, "cls": ["degenerate-point-set"]}
    # documented reward matrix over break candidates 0..N-1 (segment p_i .. p_j-1)
    W = [[0.0] * N for _ in range(N)]
    for i in range(N):
        for j in range(i + 1, N):
            dia = 2.0 * mec_radius(pts[i:j])
            dur = times[j - 1] - times[i]
            if abs(dia - diameter) <= 1e-6 or dur == duration:
                return {"undef": True, "cls": ["threshold-tie"]}
            if dia < diameter and dur > duration:
                W[i][j] = W[j][i] = float((j - i) ** 2)
    vmin, vmax, nvals = enumerate_optimum(W, N)

    t0 = gen.ms_of_fields(2021, 3, 4, 10, 0, 0)
    track = gen.make_track([(p[0], p[1], 0.0) for p in pts], [t0 + 1000 * t for t in times])
    random.seed(12345)                  # tracklib's minCircle draws from `random`; fixed for reproducibility
    stops = findStopsGlobal(track, diameter, duration, 1, bool(case.get("verbose", False)))

    total = 0.0
    prev_end = -1
    m = stops.size()
    for s in range(m):
        a = stops.getObsAnalyticalFeature("id_ini", s)
        b = stops.getObsAnalyticalFeature("id_end", s)
        nb = stops.getObsAnalyticalFeature("nb_points", s)
        if not (a == int(a) and b == int(b) and prev_end < a <= b <= N - 2 and nb == b - a + 1):
            raise Violation("stops-malformed", "stop %d: id_ini=%r id_end=%r nb_points=%r (previous end %r, track of %d)" % (
                s, a, b, nb, prev_end, n))
        a, b = int(a), int(b)
        if W[a][b + 1] == 0.0:
            raise Violation("stop-does-not-qualify", "stop %d..%d: enclosing diameter %r (max %r), lasts %r s (min %r)" % (
                a, b, 2 * mec_radius(pts[a:b + 1]), diameter, times[b] - times[a], duration))
        total += W[a][b + 1]
        prev_end = b
    if total != vmax:
        raise Violation("stops-suboptimal", "stops score %r (sum of nb_points^2), best segmentation scores %r; pts=%r times=%r "
                        "diameter=%r duration=%r" % (total, vmax, pts, times, diameter, duration))
    nt = nvals >= 3
    cls = ["1-D" if one_d else "2-D", "stops=%d" % min(m, 3)]
    cls.append("choice-matters" if nt else "no-stop-possible" if vmax == 0 else "single-score")
    return {"nt": nt, "cls": cls}


GENERIC = [(0.113, 0.271), (-0.207, 0.149), (0.331, -0.187), (-0.143, -0.309),
           (0.259, 0.083), (-0.061, 0.353), (0.197, -0.239), (-0.283, 0.029)]


@st.composite
def _stops_case(draw):
    n = draw(st.one_of(st.integers(3, 8), st.integers(5, 8)))
    one_d = draw(st.booleans())
    kinds = draw(st.lists(st.sampled_from(["stay", "stay", "stay", "stay", "move"]), min_size=n - 1, max_size=n - 1))
    pts = [(0.0, 0.0)]
    if one_d:
        for k in kinds:
            step = draw(st.integers(1, 3)) if k == "stay" else draw(st.integers(15, 40))
            pts.append((pts[-1][0] + float(step), 0.0))
        diameter = draw(st.sampled_from([2.5, 4.5, 6.5, 9.5, 12.5]))
    else:
        # anchors on a half-unit lattice + a fixed generic offset per index: shrunk cases stay in general position
        half = st.integers(-3, 3).map(lambda k: k / 2.0)
        ax, ay = 0.0, 0.0
        pts = [GENERIC[0]]
        for i, k in enumerate(kinds):
            if k == "stay":
                ax, ay = ax + draw(half), ay + draw(half)
            else:
                ax, ay = ax + float(draw(st.integers(15, 40))), ay + draw(half)
            pts.append((ax + GENERIC[i + 1][0], ay + GENERIC[i + 1][1]))
        diameter = draw(st.sampled_from([2.0, 3.0, 5.0, 8.0, 12.0]))
    dt = draw(st.lists(st.integers(1, 3), min_size=n - 1, max_size=n - 1))
    duration = draw(st.sampled_from([0.5, 0.5, 1.5, 2.5, 4.5]))
    return {"pts": [list(p) for p in pts], "dt": dt, "diameter": diameter, "duration": duration,
            "verbose": draw(st.sampled_from([False, False, True]))}


RULE = ("partition_exh: EVERY {0,1,2}-valued symmetric matrix for N = 2..5 candidates (3^1+3^3+3^6+3^10) and every {0,1}-valued one for "
        "N = 6 (2^15), each in both directions; partition: Hypothesis, N 2..12, entries {0,1,2} / ints 0..10 / quarters / floats [0,10] / "
        "ints -3..3, unused diagonal and last row/column filled with values of the same kind, int or float dtype; segmentation and "
        "simplify: the same matrices served through a table-backed cost function (with/without glob_param; FREE and FREE_MAXIMIZE); "
        "stops: 3..8-fix stop-and-go tracks (1-D integer or 2-D float), findStopsGlobal re-scored with the documented reward matrix. "
        "Every returned list is compared with the enumeration of all 2^(N-2) lists. Non-trivial: min-optimum != max-optimum and the "
        "two-element list [0, N-1] attains neither (stops: at least 3 distinct achievable scores). Distinct = hash of the case.")

SUBCHECKS = [
    SubCheck("partition_exh", body_partition, enum=enum_partition, qshards=8, tshards=16,
             rule="all {0,1,2} matrices N<=5, all {0,1} matrices N=6, both directions"),
    SubCheck("partition", body_partition, strategy=_partition_case, quick=4000, thorough=120000, qshards=4,
             rule="random symmetric matrices N<=12, both directions"),
    SubCheck("segmentation", body_segmentation, strategy=_segmentation_case, quick=2000, thorough=60000, qshards=4,
             rule="optimalSegmentation with table-backed cost, both directions"),
    SubCheck("simplify", body_simplify, strategy=_simplify_case, quick=2000, thorough=60000, qshards=4,
             rule="simplify FREE / FREE_MAXIMIZE with table-backed cost"),
    SubCheck("simplify_builtin", body_simplify_builtin, strategy=_simplify_builtin_case, quick=1200, thorough=30000, qshards=4,
             rule="simplify modes 4/5/6 (built-in bounding-rectangle criteria, tolerance incl. 0) on 3..9-fix tracks; "
                  "matrix from tracklib's own cost function, optimum by enumeration"),
    SubCheck("stops", body_stops, strategy=_stops_case, quick=1500, thorough=40000, qshards=4,
             rule="findStopsGlobal vs documented reward matrix"),
]
