"""C12 - optimalPartition returns a global optimum for the requested direction, and so do its delegating
callers (optimalSegmentation, simplify(..., MODE_SIMPLIFY_FREE[_MAXIMIZE]), findStopsGlobal).
Oracle: enumeration of all 2^(N-2) strictly increasing index lists 0 .. N-1 (never a dynamic programme)."""
import itertools
import math
import random

import numpy as np
from hypothesis import strategies as st

from tracklib.algo.segmentation import (MODE_SEGMENTATION_MAXIMIZE, MODE_SEGMENTATION_MINIMIZE,
                                        findStopsGlobal, optimalPartition, optimalSegmentation)
import tracklib.algo.simplification as simplification
from tracklib.algo.simplification import MODE_SIMPLIFY_FREE, MODE_SIMPLIFY_FREE_MAXIMIZE, simplify

from vt import gen
from vt.core import SubCheck, Violation

REL = 1e-9

ASSUMPTIONS = [
    "conventions of optimalPartition taken from its callers: a (N+1)x(N+1) matrix describes N break candidates 0..N-1; "
    "the last row/column and the diagonal carry no cost; the returned list runs from 0 to N-1",
    "optimalSegmentation: matrix entry (i, j) = cost(track, i, j-1) as its comment documents; N = track.size() - 1",
    "value of a list = sum of cost[i_k, i_k+1]; exact comparison on integer-valued matrices and on such matrices multiplied by 2^k "
    "(-50 <= k <= 40: every sum stays exact in binary64); on other float matrices two list values are equal when they differ by at most "
    "1e-9 * (sum of the |entries| along the two lists) - relative to the data, no absolute floor, so that a table of magnitude 1e-13 is "
    "judged like one of magnitude 1",
    "magnitude: optimalPartition states no unit for its matrix - squared deviations in degrees (1e-10), likelihoods (1e-13), costs in "
    "metres (1e3..1e9) are all inputs; the matrix scale is generated (2^k exact, decimal factors 1e-13..1e9) for optimalPartition, "
    "optimalSegmentation and simplify FREE / FREE_MAXIMIZE; simplify modes 4/5/6 get coordinates (and length tolerances) times 2^k, "
    "k in {0, -17, -30, -40, 12}",
    "time stamps (simplify): optimalSimplification states nothing about time - the track may be a recorded one (increasing stamps), one built "
    "from a geometry (Obs(position): all stamps equal the 1970 default), all stamps equal, decreasing (a reversed track) or unsorted; "
    "positions of the generated tracks are pairwise distinct and a returned observation is identified by its POSITION (its stamp must be "
    "the one of that input observation); the returned observations must be the optimal list in the ORIGINAL index order",
    "findStopsGlobal: reward of a segment p_i..p_j-1 = (j-i)^2 if its minimal enclosing circle is smaller than `diameter` and it "
    "lasts longer than `duration`, else 0 (its documented matrix); point sets in general position only (no duplicate / "
    "cocircular / right-angle configurations, where tracklib's randomised minCircle is outside this property), "
    "thresholds never within 1e-6 of a measured diameter or equal to a measured duration",
    "enumeration oracle: all 2^(N-2) lists, N <= 12",
    "simplify_builtin: the per-segment criterion of simplify modes 4/5/6 is evaluated by tracklib's own (private) cost "
    "functions with the tolerance as their offset; only the optimisation is judged (1e-9 relative); tracks in general position (no repeated position, no three fixes "
    "collinear: tracklib's Jarvis-march convex hull does not terminate on collinear sets, which is outside C12; pairwise distinct "
    "abscissas: its bounding rectangle divides by the x-extent of every hull edge and raises ZeroDivisionError on a vertical one)",
    "simplify_builtin history: simplify is judged at every call against the coordinates the Track object holds AT THAT CALL (criterion "
    "matrix from tracklib's cost function on a FRESH track built from those coordinates), whatever was computed on the object before; "
    "in-place edits are removeObs and position.setX / setY of one fix and keep the track in the domain above",
    "partition: the array may have any numeric numpy dtype in which every entry is exactly representable (float64, float32, int64/32/16/8, "
    "uint16/8, bool for 0/1 tables); the oracle works on the mathematical values, so sums may leave the range of the dtype",
    "segmentation / simplify: a second call with another cost table on the same Track object is judged against that second table",
    "partition: the same matrix object may be passed again (other direction): every answer is judged against the matrix as first handed over",
]

MIN, MAX = MODE_SEGMENTATION_MINIMIZE, MODE_SEGMENTATION_MAXIMIZE


# --- oracle ---------------------------------------------------------------------------------------
def all_lists(N):
    inner = list(range(1, N - 1))
    for r in range(len(inner) + 1):
        for mid in itertools.combinations(inner, r):
            yield (0,) + mid + (N - 1,)


def list_value(W, L):
    return sum(W[L[k]][L[k + 1]] for k in range(len(L) - 1))


def enumerate_optimum(W, N):
    """(min value, max value, number of distinct values) over ALL admissible lists."""
    vals = [list_value(W, L) for L in all_lists(N)]
    return min(vals), max(vals), len(set(vals))


def list_abs(W, L):
    return sum(abs(W[L[k]][L[k + 1]]) for k in range(len(L) - 1))


def _eq(a, b, exact, mag):
    """a, b: values of two lists; mag = sum of the |entries| along those two lists.  The tolerance of the float comparison
    is RELATIVE to the data that went into the two sums (a table of likelihoods around 1e-12 is judged as strictly as one of
    costs around 1e6, and two penalty-free lists of a table that also holds 1e300 penalties are still told apart); an
    absolute floor would hide everything that happens on small-magnitude tables.  Rounding of either sum, in any order of
    association, is below 12 * 2^-53 * mag."""
    if exact:
        return a == b
    return abs(a - b) <= REL * mag


def enumerate_optimum_abs(W, N):
    """(min value, sum of |entries| of a list attaining it, max value, the same for it, number of distinct values)"""
    best = worst = None
    seen = set()
    for L in all_lists(N):
        v = list_value(W, L)
        seen.add(v)
        if best is None or v < best[0]:
            best = (v, list_abs(W, L))
        if worst is None or v > worst[0]:
            worst = (v, list_abs(W, L))
    return best[0], best[1], worst[0], worst[1], len(seen)


def judge(entry, L, W, N, mode, exact):
    """L = list returned through `entry`; raises Violation unless it is an optimum of direction `mode`."""
    try:
        Li = [int(v) for v in L]
        ok = all(float(v) == float(i) for v, i in zip(L, Li))
    except (TypeError, ValueError):
        ok = False
    if not ok or len(Li) < 2 or Li[0] != 0 or Li[-1] != N - 1 or any(Li[k] >= Li[k + 1] for k in range(len(Li) - 1)):
        raise Violation("list-malformed", "%s returned %r; want strictly increasing from 0 to %d" % (entry, L, N - 1))
    vmin, amin, vmax, amax, nvals = enumerate_optimum_abs(W, N)
    v, av = list_value(W, Li), list_abs(W, Li)
    want, awant = (vmin, amin) if mode == MIN else (vmax, amax)
    if not _eq(v, want, exact, av + awant):
        name = "minimize" if mode == MIN else "maximize"
        other, aother = (vmax, amax) if mode == MIN else (vmin, amin)
        if _eq(v, other, exact, av + aother):
            key = "minimize-returns-maximum" if mode == MIN else "maximize-returns-minimum"
        else:
            key = "suboptimal-" + name
        raise Violation(key, "%s (%s): %r has value %r, enumeration min %r max %r; upper triangle %r" % (
            entry, name, Li, v, vmin, vmax, [[W[i][j] for j in range(i + 1, N)] for i in range(N - 1)]))
    trivial = W[0][N - 1]
    atriv = abs(trivial)
    nt = (not _eq(vmin, vmax, exact, amin + amax)) and (not _eq(trivial, vmin, exact, atriv + amin)) and (
        not _eq(trivial, vmax, exact, atriv + amax))
    cls = ["min" if mode == MIN else "max", "N=%s" % (N if N <= 6 else "7-9" if N <= 9 else "10-12")]
    cls.append("all-lists-equal" if nvals == 1 else "two-element-list-optimal" if not nt else "interior-optimum")
    if len(Li) > 2:
        cls.append("returned-has-interior-break")
    return {"nt": nt, "cls": cls}


# --- case -> matrices ---------------------------------------------------------------------------------
def unpack(case):
    """W[i][j] for 0 <= i < j < N (symmetric), from the row-major upper triangle in case['w']."""
    N = case["N"]
    if "base" in case:
        i, b = case["i"], case["base"]
        w = []
        for _ in range(N * (N - 1) // 2):
            w.append(float(i % b))
            i //= b
    else:
        w = [float(v) for v in case["w"]]
    exact = all(v == int(v) and abs(v) < 2 ** 40 for v in w)
    # scale of the matrix: the same structure multiplied by 2^k (exact: integer-valued tables stay exactly comparable, all
    # sums of <= 12 entries are exact in binary64 for |k| <= 60) or by a decimal factor (then judged with the relative tolerance)
    if case.get("exp2"):
        f = 2.0 ** int(case["exp2"])
        w = [v * f for v in w]
    elif case.get("fscale") is not None and case["fscale"] != 1:
        f = float(case["fscale"])
        w = [v * f for v in w]
        exact = False
    W = [[0.0] * N for _ in range(N)]
    it = iter(w)
    for i in range(N):
        for j in range(i + 1, N):
            W[i][j] = W[j][i] = next(it)
    return N, W, exact


def _scale_class(case):
    if case.get("exp2"):
        k = case["exp2"]
        return "scale=2^k,k<-30" if k < -30 else "scale=2^k,-30<=k<0" if k < 0 else "scale=2^k,k>0"
    if case.get("fscale") is not None and case["fscale"] != 1:
        f = case["fscale"]
        return "scale<=1e-9" if f <= 1e-9 else "scale=1e-8..1e-3" if f < 1 else "scale>=1e3"
    return "scale=1"


_EXP2 = [-50, -45, -40, -36, -33, -31, -30, -29, -27, -24, -20, -10, -1, 1, 10, 20, 30, 40]
_FSCALE = [1e-13, 1e-12, 1e-10, 1e-9, 1e-8, 1e-6, 1e-3, 1e3, 1e6, 1e9]


@st.composite
def _scale_fields(draw, exp2=True, fscale=True):
    """{} (scale 1) | {'exp2': k} | {'fscale': f}"""
    kind = draw(st.sampled_from(["one", "one", "exp2", "exp2", "exp2", "fscale", "fscale"]))
    if kind == "exp2" and exp2:
        return {"exp2": draw(st.one_of(st.sampled_from(_EXP2), st.integers(-50, 40)))}
    if kind == "fscale" and fscale:
        return {"fscale": draw(st.sampled_from(_FSCALE))}
    return {}


def full_matrix(case, N, W):
    """(N+1)x(N+1) symmetric array handed to optimalPartition: unused diagonal and last row/column are filled too."""
    C = np.zeros((N + 1, N + 1))
    for i in range(N):
        for j in range(N):
            if i != j:
                C[i, j] = W[i][j]
    pad = case.get("pad", 0.0)
    for i in range(N + 1):
        C[i, N] = C[N, i] = pad
    for i in range(N + 1):
        C[i, i] = case.get("diag", 0.0)
    return C


# --- (1) optimalPartition ------------------------------------------------------------------------------
DTYPES = ["float64", "int64", "bool", "uint8", "int8", "int16", "int32", "uint16", "float32"]
_EXH_ROTATION = ["int64", "uint8", "int8", "int16", "int32", "uint16", "float32"]


def _representable(v, dtype):
    """v (a Python float) is exactly a value of the numpy dtype"""
    if dtype == "float64":
        return True
    if dtype == "bool":
        return v == 0.0 or v == 1.0
    if dtype == "float32":
        return float(np.float32(v)) == v
    info = np.iinfo(dtype)
    return v == int(v) and info.min <= int(v) <= info.max


def typed_matrix(C, dtype):
    """C as an array of `dtype` when EVERY entry is exactly representable in it (the caller's quantised / boolean table),
    else C itself (float64).  Returns (array, effective dtype name).  The oracle never sees the array."""
    if dtype == "float64":
        return C, "float64"
    with np.errstate(all="ignore"):
        T = C.astype(dtype)
        back = T.astype(np.float64)
    # a value outside the dtype comes back as some value inside it, i.e. different
    if np.array_equal(back, C):
        return T, dtype
    return C, "float64"


def _range_class(C, W, N, dtype):
    """does some list of candidates have a value outside the dtype (wrap-around / saturation possible)?"""
    if dtype in ("float64", "int64"):
        return None
    vals = [list_value(W, L) for L in all_lists(N)] + [W[i][k] + W[k][j] for i in range(N) for k in range(i + 1, N) for j in range(k + 1, N)]
    if any(not _representable(float(v), dtype) for v in vals):
        return "sums-leave-" + dtype
    return None


def body_partition(case):
    N, W, exact = unpack(case)
    C0 = full_matrix(case, N, W)
    dtype = case.get("dtype", "int64" if case.get("int_dtype") else "float64")
    C, eff = typed_matrix(C0, dtype)
    L = optimalPartition(C, case["mode"], verbose=bool(case.get("verbose", False)))
    try:
        info = judge("optimalPartition", L, W, N, case["mode"], exact)
    except Violation as v:
        raise Violation(v.key, "matrix dtype %s: %s" % (eff, v.msg))
    info["cls"].append("integer-valued" if exact else "float-valued")
    info["cls"].append("dtype=" + eff)
    info["cls"].append(_scale_class(case))
    rc = _range_class(C0, W, N, eff)
    if rc:
        info["cls"].append(rc)
    # exhaustive sub-check: the same matrix once more as a second array of another dtype (bool for 0/1 matrices)
    if "dtype2" in case:
        C2, eff2 = typed_matrix(C0, case["dtype2"])
        L = optimalPartition(C2, case["mode"], verbose=False)
        try:
            judge("optimalPartition", L, W, N, case["mode"], exact)
        except Violation as v:
            raise Violation(v.key, "matrix dtype %s: %s" % (eff2, v.msg))
        info["cls"].append("dtype2=" + eff2)
    # exhaustive sub-check: the same structure once more at another magnitude (entries k * 2^e, exact)
    if "exp2_again" in case:
        c3 = dict(case, exp2=case["exp2_again"])
        _, W3, exact3 = unpack(c3)
        L = optimalPartition(full_matrix(c3, N, W3), case["mode"], verbose=False)
        try:
            judge("optimalPartition", L, W3, N, case["mode"], exact3)
        except Violation as v:
            raise Violation(v.key, "matrix scaled by 2^%d: %s" % (case["exp2_again"], v.msg))
        info["cls"].append(_scale_class(c3).replace("scale=", "again-at-"))
    # further calls with the SAME matrix object (a user minimises, then maximises, the criterion they built):
    # each answer is judged against the matrix as it was handed over the first time
    for k, mode in enumerate(case.get("again", [])):
        L = optimalPartition(C, mode, verbose=False)
        try:
            judge("optimalPartition", L, W, N, mode, exact)
        except Violation as v:
            raise Violation("repeat-call-" + v.key, "call %d on the same matrix object (dtype %s, modes so far %s): %s"
                            % (k + 2, eff, [case["mode"]] + case["again"][:k + 1], v.msg))
    if case.get("again"):
        info["cls"].append("same-matrix-called-%d-times" % (1 + len(case["again"])))
    return info


def enum_partition(tier):
    for mode in (MIN, MAX):
        for N in (2, 3, 4, 5):
            for i in range(3 ** (N * (N - 1) // 2)):
                d, two = i, False
                while d:
                    two = two or d % 3 == 2
                    d //= 3
                yield {"N": N, "base": 3, "i": i, "mode": mode, "dtype2": _EXH_ROTATION[i % 7] if two else "bool",
                       "exp2_again": _EXP2[i % len(_EXP2)]}
        for i in range(2 ** 15):
            yield {"N": 6, "base": 2, "i": i, "mode": mode, "dtype2": "bool", "exp2_again": _EXP2[i % len(_EXP2)]}


def _values(kind):
    return {
        "tern": st.sampled_from([0.0, 1.0, 2.0]),
        "int": st.integers(0, 10).map(float),
        "quarter": st.integers(0, 40).map(lambda k: k / 4.0),
        "float": st.floats(min_value=0.0, max_value=10.0, allow_nan=False, allow_infinity=False),
        "signed": st.integers(-3, 3).map(float),
        # tables whose entries fit a narrow dtype while sums of a few of them do not
        "bit": st.integers(0, 1).map(float),
        "u8": st.one_of(st.integers(0, 200), st.integers(60, 200)).map(float),
        "i8": st.one_of(st.integers(-100, 100), st.integers(40, 120)).map(float),
        "i16": st.one_of(st.integers(-30000, 30000), st.integers(8000, 30000)).map(float),
        "u16": st.one_of(st.integers(0, 60000), st.integers(15000, 60000)).map(float),
        "i32": st.one_of(st.integers(-2000000000, 2000000000), st.integers(500000000, 2000000000)).map(float),
        "f32": st.sampled_from([0.0, 1.0, 2.0, 3.0, 16777215.0, 16777216.0, 16777218.0]),
    }[kind]


# dtype of the array handed to optimalPartition -> kinds of entries that fit it
_KINDS_OF = {
    "float64": ["tern", "int", "quarter", "float", "float", "signed"],
    "int64": ["tern", "int", "int", "signed", "i32"],
    "bool": ["bit"],
    "uint8": ["u8", "u8", "int"],
    "int8": ["i8", "i8", "signed"],
    "int16": ["i16", "i16", "u8"],
    "int32": ["i32", "i32", "i16"],
    "uint16": ["u16", "u16", "u8"],
    "float32": ["f32", "f32", "quarter"],
}


@st.composite
def _matrix_case(draw, nmin=2, nmax=12, kinds=("tern", "int", "int", "quarter", "float", "float", "signed"), exp2=True, fscale=True):
    N = draw(st.one_of(st.integers(nmin, nmax), st.integers(max(nmin, 4), 9)))
    kind = draw(st.sampled_from(list(kinds)))
    val = _values(kind)
    w = draw(st.lists(val, min_size=N * (N - 1) // 2, max_size=N * (N - 1) // 2))
    c = {"N": N, "w": w, "mode": draw(st.sampled_from([MIN, MAX])), "kind": kind}
    if exp2 or fscale:
        c.update(draw(_scale_fields(exp2, fscale)))
    return c


@st.composite
def _second_table(draw, c):
    """optionally a second cost table of the same size (for a second call on the same Track object)"""
    if draw(st.integers(0, 2)):
        return None
    m = c["N"] * (c["N"] - 1) // 2
    t = {"w": draw(st.lists(_values(c["kind"]), min_size=m, max_size=m)), "mode": draw(st.sampled_from([MIN, MAX]))}
    # the second table has a magnitude of its own (as the first one / 1 / another one)
    how = draw(st.sampled_from(["same", "same", "one", "other"]))
    if how == "same":
        t.update({k: c[k] for k in ("exp2", "fscale") if k in c})
    elif how == "other":
        t.update(draw(_scale_fields()))
    return t


@st.composite
def _partition_case(draw):
    dtype = draw(st.sampled_from(["float64", "float64", "float64", "float64", "int64", "int64"] + DTYPES))
    # a float table may have any magnitude; the integer dtypes hold what fits them (large magnitudes: kinds i16, u16, i32)
    c = draw(_matrix_case(kinds=_KINDS_OF[dtype], exp2=dtype in ("float64", "float32"), fscale=dtype == "float64"))
    val = _values(c["kind"])
    c["pad"] = draw(val)
    c["diag"] = draw(val)
    c["dtype"] = dtype
    c["verbose"] = draw(st.sampled_from([False, False, False, True]))
    if draw(st.integers(0, 2)) == 0:
        c["again"] = draw(st.lists(st.sampled_from([MIN, MAX]), min_size=1, max_size=3))
    return c


# --- (2) optimalSegmentation with a table-backed cost function -----------------------------------------------
T0 = gen.ms_of_fields(2020, 1, 1)


def _stamps(tp, n):
    """epoch ms of the n observations (None = the observation is built without a time stamp) for a time pattern
    tp = {'kind': 'inc' | 'none' | 'equal' | 'dec' | 'arb', 'ranks': [...]}.  'inc' is a recorded track; 'none' a track built
    from a geometry (Obs(position): every fix carries the default stamp); 'dec' what Track.reverse() leaves; 'arb' an
    unsorted track (stamp of fix k = T0 + 1 s * ranks[k], repeats allowed)."""
    kind = (tp or {}).get("kind", "inc")
    if kind == "inc":
        return [T0 + 1000 * k for k in range(n)]
    if kind == "none":
        return [None] * n
    if kind == "equal":
        return [T0] * n
    if kind == "dec":
        return [T0 + 1000 * (n - 1 - k) for k in range(n)]
    r = tp["ranks"]
    return [T0 + 1000 * int(r[k % len(r)]) for k in range(n)]


def _make_track(pts, stamps):
    """like gen.make_track, but a stamp None builds the observation without a time stamp (Obs(position))"""
    from tracklib.core.obs import Obs
    from tracklib.core.obs_coords import ENUCoords
    from tracklib.core.track import Track
    tr = Track([], 1)
    for p, t in zip(pts, stamps):
        pos = ENUCoords(p[0], p[1], p[2] if len(p) > 2 else 0.0)
        tr.addObs(Obs(pos) if t is None else Obs(pos, gen.obstime_of_ms(t)))
    return tr


def _time_class(stamps):
    n = len(stamps)
    if stamps[0] is None:
        return "times=none(Obs without stamp)"
    if all(stamps[k] < stamps[k + 1] for k in range(n - 1)):
        return "times=increasing"
    if len(set(stamps)) == 1:
        return "times=all-equal"
    if all(stamps[k] > stamps[k + 1] for k in range(n - 1)):
        return "times=decreasing"
    return "times=unsorted"


def _track(n, tp=None):
    """positions are pairwise distinct (x = 3k), so a returned observation is identified by its POSITION"""
    return _make_track([(float(3 * k), float((k * k) % 5)) for k in range(n)], _stamps(tp, n))


def _indices_by_position(out, rec, label=""):
    """index list of the observations of `out` in the input records rec (x, y, z, t, features), identified by position
    (pairwise distinct in rec); the time stamp must be the one of that input observation."""
    by_pos = {}
    for k, r in enumerate(rec):
        if r[:3] in by_pos:
            raise AssertionError("positions of the input are not unique: %r" % (rec,))
        by_pos[r[:3]] = k
    L = []
    for r in gen.track_records(out):
        k = by_pos.get(r[:3])
        if k is None or rec[k][3] != r[3]:
            raise Violation("simplified-not-a-subset", "%ssimplified track holds %r, not a fix of the input" % (label, r))
        L.append(k)
    return L


def _judge_vertices(entry, L, W, N, mode, exact, stamps):
    """judge(), with a root-cause label when the returned observations are the right ones in the wrong order"""
    try:
        return judge(entry, L, W, N, mode, exact)
    except Violation as v:
        if v.key == "list-malformed" and sorted(L) != list(L) and len(set(L)) == len(L):
            try:
                judge(entry, sorted(L), W, N, mode, exact)
            except Violation:
                raise v
            raise Violation("simplified-vertices-reordered", "%s returned the fixes %r of the input in this order (%s: %r); in track "
                            "order they are an optimal list" % (entry, list(L), _time_class(stamps), stamps))
        raise


def _cost_fn(track, W, N, glob, calls):
    """cost(track, i, j[, glob]) = W[i][j+1]: the matrix entry (i, j+1) is documented as cost(track, i, j)."""
    def lookup(t, i, j):
        calls.append((i, j))
        if 0 <= i <= j and j + 1 < N:
            return W[i][j + 1]
        return 0.0                      # diagonal (i, i-1) and anything outside the documented triangle: no information

    if glob is None:
        def cost(t, i, j):
            return lookup(t, i, j)
    else:
        def cost(t, i, j, g):
            if g != glob:
                raise Violation("cost-callback-contract", "glob_param arrived as %r, was %r" % (g, glob))
            return lookup(t, i, j)
    return cost


def body_segmentation(case):
    N, W, exact = unpack(case)
    track = _track(N + 1)
    glob = case.get("glob")
    calls = []
    cost = _cost_fn(track, W, N, glob, calls)
    L = optimalSegmentation(track, cost, glob, case["mode"], bool(case.get("verbose", False)))
    info = judge("optimalSegmentation", L, W, N, case["mode"], exact)
    info["cls"].append("glob-param" if glob is not None else "no-glob-param")
    info["cls"].append(_scale_class(case))
    if case.get("then"):
        # the same Track object again, with another cost table / direction: judged against THAT table
        t2 = dict(case["then"], N=N)
        _, W2, exact2 = unpack(t2)
        L = optimalSegmentation(track, _cost_fn(track, W2, N, glob, []), glob, t2["mode"], False)
        try:
            judge("optimalSegmentation", L, W2, N, t2["mode"], exact2)
        except Violation as v:
            raise Violation("repeat-call-" + v.key, "second call on the same track: " + v.msg)
        info["cls"].append("same-track-second-table")
    return info


@st.composite
def _segmentation_case(draw):
    c = draw(_matrix_case(2, 10))
    c["glob"] = draw(st.sampled_from([None, None, 0.5, 7, 0, 0.0]))
    c["verbose"] = draw(st.sampled_from([False, False, False, True]))
    c["then"] = draw(_second_table(c))
    return c


# --- (3) simplify(track, cost, MODE_SIMPLIFY_FREE / FREE_MAXIMIZE) -----------------------------------------
def body_simplify(case):
    N, W, exact = unpack(case)
    stamps = _stamps(case.get("times"), N + 1)
    track = _track(N + 1, case.get("times"))
    rec = gen.track_records(track)
    calls = []
    cost = _cost_fn(track, W, N, None, calls)
    mode = case["mode"]
    smode = MODE_SIMPLIFY_FREE if mode == MIN else MODE_SIMPLIFY_FREE_MAXIMIZE
    if case.get("verbose") is None:
        out = simplify(track, cost, smode)
    else:
        out = simplify(track, cost, smode, bool(case["verbose"]))
    L = _indices_by_position(out, rec)
    info = _judge_vertices("simplify", L, W, N, mode, exact, stamps)
    info["cls"].append("verbose-default" if case.get("verbose") is None else "verbose-given")
    info["cls"].append(_time_class(stamps))
    info["cls"].append(_scale_class(case))
    if case.get("then"):
        # the same Track object again, with another cost table / direction: judged against THAT table
        t2 = dict(case["then"], N=N)
        _, W2, exact2 = unpack(t2)
        out = simplify(track, _cost_fn(track, W2, N, None, []), MODE_SIMPLIFY_FREE if t2["mode"] == MIN else MODE_SIMPLIFY_FREE_MAXIMIZE, False)
        L = _indices_by_position(out, rec, "second call: ")
        try:
            _judge_vertices("simplify", L, W2, N, t2["mode"], exact2, stamps)
        except Violation as v:
            raise Violation("repeat-call-" + v.key, "second call on the same track: " + v.msg)
        info["cls"].append("same-track-second-table")
    return info


@st.composite
def _simplify_case(draw):
    c = draw(_matrix_case(2, 10))
    c["verbose"] = draw(st.sampled_from([None, False, True]))
    c["then"] = draw(_second_table(c))
    c["times"] = draw(_time_pattern())
    return c


@st.composite
def _time_pattern(draw):
    """time stamps of the track along its index: see _stamps"""
    kind = draw(st.sampled_from(["inc", "inc", "none", "none", "equal", "dec", "dec", "arb", "arb"]))
    tp = {"kind": kind}
    if kind == "arb":
        tp["ranks"] = draw(st.lists(st.integers(0, 12), min_size=12, max_size=12))
    return tp


# --- (3b) simplify with the built-in criteria (modes 4, 5, 6): minimise the documented per-segment cost ---------
BUILTIN = {
    simplification.MODE_SIMPLIFY_MINIMIZE_LARGEST_DEVIATION: "__cost_largest_deviation",
    simplification.MODE_SIMPLIFY_MINIMIZE_ELONGATION_RATIO: "__cost_mbr_ratio",
    simplification.MODE_SIMPLIFY_PRECLUDE_LARGE_DEVIATION: "__cost_largest_deviation_strict",
}


def _collinear_triple(pts):
    n = len(pts)
    return any((pts[b][0] - pts[a][0]) * (pts[c][1] - pts[a][1]) == (pts[b][1] - pts[a][1]) * (pts[c][0] - pts[a][0])
               for a in range(n) for b in range(a + 1, n) for c in range(b + 1, n))


def _builtin_call(track, cur, smode, tol, label):
    """simplify(track, tol, smode) on the (possibly edited) Track object `track`, whose fixes are NOW cur = [(x, y, t_ms | None)]
    (None: observation without a time stamp).  The criterion matrix comes from tracklib's cost function evaluated on a FRESH
    track built from cur.  Abscissas are pairwise distinct: returned observations are identified by position."""
    n = len(cur)
    N = n - 1                                  # break candidates 0..N-1 (the convention of optimalSegmentation)
    costfn = getattr(simplification, BUILTIN[smode])
    ref = _make_track([(p[0], p[1]) for p in cur], [p[2] for p in cur])
    W = [[0.0] * N for _ in range(N)]
    for i in range(N):
        for j in range(i + 1, N):
            W[i][j] = W[j][i] = float(costfn(ref, i, j - 1, tol))
    if any(not math.isfinite(W[i][j]) for i in range(N) for j in range(N)):
        return None
    rec = [(p[0], p[1], 0.0, 0 if p[2] is None else p[2], ()) for p in cur]       # an Obs without stamp shows 1970-01-01 00:00:00
    got = gen.track_records(track)
    if got != rec:
        # removeObs / setX / setY are not what C12 is about: a mismatch here is a fault of this harness (exit 2)
        raise AssertionError("%s: track holds %r, model %r" % (label, got, rec))
    out = simplify(track, tol, smode, False)
    L = _indices_by_position(out, rec, label + ": ")
    info = _judge_vertices("%s simplify(mode %d, tolerance %r)" % (label, smode, tol), L, W, N, MIN, False, [p[2] for p in cur])
    if gen.track_records(track) != rec:
        raise Violation("simplify-modifies-input", "%s: input track changed by simplify(mode %d)" % (label, smode))
    return info


def body_simplify_builtin(case):
    """The criterion (width / elongation of the minimum bounding rectangle of the skipped fixes + the tolerance as a
    per-segment penalty) is evaluated with tracklib's own cost function - the bounding rectangle is not what C12 is
    about - and the OPTIMISATION over all 2^(N-2) index lists is done here by enumeration.
    case["then"]: history on the SAME Track object - an in-place edit (a fix removed with removeObs, a fix moved with
    setX / setY, or nothing) followed by another call (same or other mode / tolerance); each call is judged against the
    coordinates the track holds at that call."""
    # magnitude of the coordinates: the generated half-integer geometry times 2^gexp2 (exact; 2^-17 ~ a track in degrees);
    # a tolerance that is a length (modes 4 and 6) is scaled with it, the elongation ratio of mode 5 is not
    g = 2.0 ** int(case.get("gexp2", 0))

    def _tol(smode, tol):
        return tol if smode == simplification.MODE_SIMPLIFY_MINIMIZE_ELONGATION_RATIO else tol * g

    pts = [(p[0] * g, p[1] * g) for p in case["pts"]]
    if len(pts) < 3:
        return {"undef": True}
    if _collinear_triple(pts):
        return {"undef": True, "cls": ["undef-collinear-triple"]}
    stamps = _stamps(case.get("times"), len(pts))
    cur = [(p[0], p[1], stamps[k]) for k, p in enumerate(pts)]
    track = _make_track(pts, stamps)
    info = _builtin_call(track, cur, case["smode"], _tol(case["smode"], case["tol"]), "call 1")
    if info is None:
        return {"undef": True, "cls": ["undef-non-finite-cost"]}
    info["cls"] += ["smode-%d" % case["smode"], "tol=0" if case["tol"] == 0 else "tol>0", _time_class(stamps),
                    "coordinates*2^%d" % int(case.get("gexp2", 0))]
    calls, edits = 1, []
    for k, step in enumerate(case.get("then", [])):
        ed = step["edit"]
        nxt = list(cur)
        if ed["op"] == "remove":
            i = ed["idx"] % len(cur)
            del nxt[i]
        elif ed["op"] == "move":
            i = ed["idx"] % len(cur)
            nxt[i] = (float(ed["x"]) * g, float(ed["y"]) * g, cur[i][2])
        # the edited track must stay in the domain (>= 3 fixes, general position); otherwise the history ends here
        if len(nxt) < 3 or len(set(p[0] for p in nxt)) < len(nxt) or _collinear_triple(nxt):
            info["cls"].append("history-cut:edit-leaves-domain")
            break
        if ed["op"] == "remove":
            track.removeObs(i)
        elif ed["op"] == "move":
            if nxt[i][0] != cur[i][0]:
                track.getObs(i).position.setX(nxt[i][0])
            if nxt[i][1] != cur[i][1]:
                track.getObs(i).position.setY(nxt[i][1])
        cur = nxt
        label = "call %d (same Track object, after %s)" % (k + 2, ", then ".join(edits + [ed["op"]]))
        try:
            sub = _builtin_call(track, cur, step["smode"], _tol(step["smode"], step["tol"]), label)
        except Violation as v:
            # root-cause label: is a NEW Track object with the same coordinates simplified correctly?
            if v.key in ("suboptimal-minimize", "minimize-returns-maximum", "list-malformed", "simplified-vertices-reordered"):
                fresh = _make_track([(p[0], p[1]) for p in cur], [p[2] for p in cur])
                try:
                    _builtin_call(fresh, cur, step["smode"], _tol(step["smode"], step["tol"]), label)
                except Violation:
                    raise v
                raise Violation("on-used-track-" + v.key, v.msg)
            raise
        if sub is None:
            info["cls"].append("history-cut:non-finite-cost")
            break
        edits.append(ed["op"])
        calls += 1
        info["nt"] = info["nt"] or sub["nt"]
        info["cls"].append("then-%s-%s" % (ed["op"], "same-mode" if step["smode"] == case["smode"] else "other-mode"))
        if sub["nt"] and ed["op"] != "none":
            info["cls"].append("interior-optimum-after-edit")
    info["cls"].append("calls-on-one-track=%d" % calls)
    info["cls"] = sorted(set(info["cls"]))
    return info


_YCAND = [k / 2.0 for k in range(-24, 25)]


def _admissible_y(draw, others, x):
    """an ordinate from the half-integer lattice such that (x, y) is on no line through two of `others` (exact test)"""
    start = draw(st.integers(0, len(_YCAND) - 1))
    for off in range(len(_YCAND)):
        y = _YCAND[(start + off) % len(_YCAND)]
        if all((b[0] - a[0]) * (y - a[1]) != (b[1] - a[1]) * (x - a[0])
               for ia, a in enumerate(others) for b in others[ia + 1:]) and all((x, y) != (o[0], o[1]) for o in others):
            return y
    raise AssertionError("no admissible ordinate")


@st.composite
def _simplify_builtin_case(draw):
    n = draw(st.one_of(st.integers(3, 9), st.integers(5, 9)))
    # strictly increasing x: no repeated position, so every bounding rectangle has a positive length
    xs, x = [], 0.0
    for _ in range(n):
        x += draw(st.sampled_from([0.5, 1.0, 1.0, 2.0, 3.5]))
        xs.append(x)
    # no three fixes collinear (exact test on half-integers): tracklib's convex hull (Jarvis march) does not terminate on
    # collinear point sets - a defect of the bounding-shape code, outside what C12 states - so they are not generated
    pts = []
    for k in range(n):
        pts.append((xs[k], _admissible_y(draw, pts, xs[k])))
    smode = draw(st.sampled_from(sorted(BUILTIN)))
    tols = [0, 0.0, 0.1, 0.5, 1.0, 1, 2.0, 5.0]
    tol = draw(st.sampled_from(tols))
    case = {"pts": [[a, b] for a, b in pts], "smode": smode, "tol": tol}
    # history on the same Track object; the edits keep the fixes in general position (quarter-unit x shifts, lattice y)
    then, cur = [], list(pts)
    for _ in range(draw(st.sampled_from([0, 1, 1, 2]))):
        op = draw(st.sampled_from(["remove", "move", "move", "none"])) if len(cur) > 3 else draw(st.sampled_from(["move", "none"]))
        ed = {"op": op}
        if op == "remove":
            ed["idx"] = draw(st.integers(0, len(cur) - 1))
            del cur[ed["idx"]]
        elif op == "move":
            i = draw(st.integers(0, len(cur) - 1))
            others = cur[:i] + cur[i + 1:]
            nx = cur[i][0] + draw(st.sampled_from([0.0, 0.0, 0.25, -0.25, 4.25]))
            if any(o[0] == nx for o in others):      # abscissas stay pairwise distinct (see ASSUMPTIONS)
                nx = cur[i][0]
            ny = _admissible_y(draw, others, nx)
            ed.update({"idx": i, "x": nx, "y": ny})
            cur[i] = (nx, ny)
        then.append({"edit": ed, "smode": draw(st.sampled_from([smode, smode] + sorted(BUILTIN))),
                     "tol": draw(st.sampled_from([tol, tol] + tols))})
    case["then"] = then
    case["times"] = draw(_time_pattern())
    case["gexp2"] = draw(st.sampled_from([0, 0, 0, -17, -30, -40, 12]))
    return case


# --- (4) findStopsGlobal ------------------------------------------------------------------------------
def _circle2(a, b):
    return ((a[0] + b[0]) / 2.0, (a[1] + b[1]) / 2.0, math.hypot(a[0] - b[0], a[1] - b[1]) / 2.0)


def _circle3(a, b, c):
    d = 2.0 * (a[0] * (b[1] - c[1]) + b[0] * (c[1] - a[1]) + c[0] * (a[1] - b[1]))
    if d == 0:
        return None
    sa, sb, sc = a[0] ** 2 + a[1] ** 2, b[0] ** 2 + b[1] ** 2, c[0] ** 2 + c[1] ** 2
    ux = (sa * (b[1] - c[1]) + sb * (c[1] - a[1]) + sc * (a[1] - b[1])) / d
    uy = (sa * (c[0] - b[0]) + sb * (a[0] - c[0]) + sc * (b[0] - a[0])) / d
    return (ux, uy, math.hypot(a[0] - ux, a[1] - uy))


def mec_radius(pts):
    """radius of the minimal enclosing circle by brute force over all pairs and triples (len(pts) <= 8)"""
    if len(pts) == 1:
        return 0.0
    cands = [_circle2(a, b) for a, b in itertools.combinations(pts, 2)]
    cands += [c for c in (_circle3(*t) for t in itertools.combinations(pts, 3)) if c is not None]
    cands.sort(key=lambda c: c[2])
    for cx, cy, r in cands:
        if all(math.hypot(p[0] - cx, p[1] - cy) <= r * (1 + 1e-12) + 1e-12 for p in pts):
            return r
    raise AssertionError("no enclosing circle among candidates")


def general_position(pts, collinear_ok):
    """no duplicates; no third point on the circle whose diameter is a pair; no fourth point on the circle through
    a triple; (2-D sets) no collinear triple.  tol relative to the extent."""
    scale = max(1.0, max(abs(v) for p in pts for v in p))
    tol = 1e-7 * scale
    for a, b in itertools.combinations(pts, 2):
        if math.hypot(a[0] - b[0], a[1] - b[1]) <= tol:
            return False
        cx, cy, r = _circle2(a, b)
        for p in pts:
            if p is not a and p is not b and abs(math.hypot(p[0] - cx, p[1] - cy) - r) <= tol:
                return False
    for t in itertools.combinations(pts, 3):
        a, b, c = t
        area2 = abs((b[0] - a[0]) * (c[1] - a[1]) - (c[0] - a[0]) * (b[1] - a[1]))
        if area2 <= tol * scale:
            if not collinear_ok:
                return False
            continue
        cc = _circle3(a, b, c)
        if cc is None:
            continue
        for p in pts:
            if all(p is not q for q in t) and abs(math.hypot(p[0] - cc[0], p[1] - cc[1]) - cc[2]) <= tol:
                return False
    return True


def body_stops(case):
    pts = [(float(p[0]), float(p[1])) for p in case["pts"]]
    n = len(pts)
    N = n - 1
    times = [0]
    for d in case["dt"]:
        times.append(times[-1] + int(d))
    diameter, duration = float(case["diameter"]), float(case["duration"])
    one_d = all(p[1] == 0.0 for p in pts)
    if not general_position(pts, collinear_ok=one_d):
        return {"undef": True, "cls": ["degenerate-point-set"]}
    # documented reward matrix over break candidates 0..N-1 (segment p_i .. p_j-1)
    W = [[0.0] * N for _ in range(N)]
    for i in range(N):
        for j in range(i + 1, N):
            dia = 2.0 * mec_radius(pts[i:j])
            dur = times[j - 1] - times[i]
            if abs(dia - diameter) <= 1e-6 or dur == duration:
                return {"undef": True, "cls": ["threshold-tie"]}
            if dia < diameter and dur > duration:
                W[i][j] = W[j][i] = float((j - i) ** 2)
    vmin, vmax, nvals = enumerate_optimum(W, N)

    t0 = gen.ms_of_fields(2021, 3, 4, 10, 0, 0)
    track = gen.make_track([(p[0], p[1], 0.0) for p in pts], [t0 + 1000 * t for t in times])
    random.seed(12345)                  # tracklib's minCircle draws from `random`; fixed for reproducibility
    stops = findStopsGlobal(track, diameter, duration, 1, bool(case.get("verbose", False)))

    total = 0.0
    prev_end = -1
    m = stops.size()
    for s in range(m):
        a = stops.getObsAnalyticalFeature("id_ini", s)
        b = stops.getObsAnalyticalFeature("id_end", s)
        nb = stops.getObsAnalyticalFeature("nb_points", s)
        if not (a == int(a) and b == int(b) and prev_end < a <= b <= N - 2 and nb == b - a + 1):
            raise Violation("stops-malformed", "stop %d: id_ini=%r id_end=%r nb_points=%r (previous end %r, track of %d)" % (
                s, a, b, nb, prev_end, n))
        a, b = int(a), int(b)
        if W[a][b + 1] == 0.0:
            raise Violation("stop-does-not-qualify", "stop %d..%d: enclosing diameter %r (max %r), lasts %r s (min %r)" % (
                a, b, 2 * mec_radius(pts[a:b + 1]), diameter, times[b] - times[a], duration))
        total += W[a][b + 1]
        prev_end = b
    if total != vmax:
        raise Violation("stops-suboptimal", "stops score %r (sum of nb_points^2), best segmentation scores %r; pts=%r times=%r "
                        "diameter=%r duration=%r" % (total, vmax, pts, times, diameter, duration))
    nt = nvals >= 3
    cls = ["1-D" if one_d else "2-D", "stops=%d" % min(m, 3)]
    cls.append("choice-matters" if nt else "no-stop-possible" if vmax == 0 else "single-score")
    return {"nt": nt, "cls": cls}


GENERIC = [(0.113, 0.271), (-0.207, 0.149), (0.331, -0.187), (-0.143, -0.309),
           (0.259, 0.083), (-0.061, 0.353), (0.197, -0.239), (-0.283, 0.029)]


@st.composite
def _stops_case(draw):
    n = draw(st.one_of(st.integers(3, 8), st.integers(5, 8)))
    one_d = draw(st.booleans())
    kinds = draw(st.lists(st.sampled_from(["stay", "stay", "stay", "stay", "move"]), min_size=n - 1, max_size=n - 1))
    pts = [(0.0, 0.0)]
    if one_d:
        for k in kinds:
            step = draw(st.integers(1, 3)) if k == "stay" else draw(st.integers(15, 40))
            pts.append((pts[-1][0] + float(step), 0.0))
        diameter = draw(st.sampled_from([2.5, 4.5, 6.5, 9.5, 12.5]))
    else:
        # anchors on a half-unit lattice + a fixed generic offset per index: shrunk cases stay in general position
        half = st.integers(-3, 3).map(lambda k: k / 2.0)
        ax, ay = 0.0, 0.0
        pts = [GENERIC[0]]
        for i, k in enumerate(kinds):
            if k == "stay":
                ax, ay = ax + draw(half), ay + draw(half)
            else:
                ax, ay = ax + float(draw(st.integers(15, 40))), ay + draw(half)
            pts.append((ax + GENERIC[i + 1][0], ay + GENERIC[i + 1][1]))
        diameter = draw(st.sampled_from([2.0, 3.0, 5.0, 8.0, 12.0]))
    dt = draw(st.lists(st.integers(1, 3), min_size=n - 1, max_size=n - 1))
    duration = draw(st.sampled_from([0.5, 0.5, 1.5, 2.5, 4.5]))
    return {"pts": [list(p) for p in pts], "dt": dt, "diameter": diameter, "duration": duration,
            "verbose": draw(st.sampled_from([False, False, True]))}


RULE = ("partition_exh: EVERY {0,1,2}-valued symmetric matrix for N = 2..5 candidates (3^1+3^3+3^6+3^10) and every {0,1}-valued one for "
        "N = 6 (2^15), each in both directions, as a float64 array and once more as an array of another dtype (bool for every 0/1 matrix; "
        "int64/uint8/int8/int16/int32/uint16/float32 in rotation otherwise) and a third time multiplied by 2^k, k rotating over 18 values in -50..40 "
        "(exact comparison); partition: Hypothesis, N 2..12, generated dtype of the array "
        "(float64, int64, bool, uint8, int8, int16, int32, uint16, float32) with entries that fit it - {0,1,2} / ints 0..10 / quarters / "
        "floats [0,10] / ints -3..3 / bits / ints up to 200, +-120, +-30000, 60000, +-2e9 / floats around 2^24 - so that sums of a few "
        "entries leave the narrow range; float tables at a generated magnitude: times 2^k (k -50..40, integer tables stay exactly comparable) or "
        "times 1e-13..1e9 (relative tolerance); unused diagonal and last row/column filled with values of the same kind; optional further calls on the same array; "
        "segmentation and simplify: such matrices served through a table-backed cost function (with/without glob_param; FREE and "
        "FREE_MAXIMIZE), at the same generated magnitudes, optionally a second call with another table (of its own magnitude) on the same "
        "Track object; simplify and simplify_builtin: the time stamps of the track follow a generated pattern - increasing / none "
        "(Obs built without stamp) / all equal / decreasing / unsorted - and returned fixes are mapped to input indices by position; "
        "simplify_builtin: modes 4/5/6 on 3..9-fix tracks in general position, coordinates times 2^k (k in 0, -17, -30, -40, 12), followed by a generated history of 0..2 steps on the SAME Track object - in-place edit (removeObs / a fix "
        "moved with setX, setY / none), then simplify again with the same or another mode and tolerance - each call judged on the current coordinates; "
        "stops: 3..8-fix stop-and-go tracks (1-D integer or 2-D float), findStopsGlobal re-scored with the documented reward matrix. "
        "Every returned list is compared with the enumeration of all 2^(N-2) lists. Non-trivial: min-optimum != max-optimum and the "
        "two-element list [0, N-1] attains neither (stops: at least 3 distinct achievable scores). Distinct = hash of the case.")

SUBCHECKS = [
    SubCheck("partition_exh", body_partition, enum=enum_partition, qshards=8, tshards=16,
             rule="all {0,1,2} matrices N<=5, all {0,1} matrices N=6, both directions, float64 + a second dtype + once more times 2^k"),
    SubCheck("partition", body_partition, strategy=_partition_case, quick=4000, thorough=120000, qshards=4,
             rule="random symmetric matrices N<=12 in 9 numpy dtypes, float tables at magnitudes 2^-50..2^40 / 1e-13..1e9, both directions"),
    SubCheck("segmentation", body_segmentation, strategy=_segmentation_case, quick=2000, thorough=60000, qshards=4,
             rule="optimalSegmentation with table-backed cost at generated magnitudes, both directions"),
    SubCheck("simplify", body_simplify, strategy=_simplify_case, quick=2000, thorough=60000, qshards=4,
             rule="simplify FREE / FREE_MAXIMIZE with table-backed cost at generated magnitudes, on tracks with increasing / absent / equal / "
                  "decreasing / unsorted time stamps"),
    SubCheck("simplify_builtin", body_simplify_builtin, strategy=_simplify_builtin_case, quick=1800, thorough=30000, qshards=4,
             rule="simplify modes 4/5/6 (built-in bounding-rectangle criteria, tolerance incl. 0) on 3..9-fix tracks (5 time-stamp patterns, "
                  "5 coordinate magnitudes), then in-place edits and "
                  "further calls on the same Track object; matrix from tracklib's own cost function on a fresh track, optimum by enumeration"),
    SubCheck("stops", body_stops, strategy=_stops_case, quick=1500, thorough=40000, qshards=4,
             rule="findStopsGlobal vs documented reward matrix"),
]
