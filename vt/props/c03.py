"""C03 - timestamps <-> epoch seconds.  Oracle: Python datetime / calendar (proleptic Gregorian)."""
import calendar

from hypothesis import strategies as st

from tracklib.core.obs_time import ObsTime

from vt import gen
from vt.core import SubCheck, Violation

DAY = gen.DAY_MS
TOL_S = 1e-3 + 1e-6      # "same instant to within one millisecond" (+ float slack on ~4e9 s)

ASSUMPTIONS = [
    "reference calendar = Python datetime/calendar (proleptic Gregorian, no leap seconds, as tracklib documents)",
    "domain 1970-01-01 .. 2099-12-31, millisecond resolution",
    "time-zone label: a timestamp may carry any whole-hour label -12..+14 (constructor argument zone=, in-place assignment of .zone "
    "as Track.setTimeZone does, result of convertToZone); 0 is one of the values. On this code base the calendar fields ARE the instant "
    "(toAbsTime, the comparisons and the difference read the fields only; convertToZone shifts the fields and sets the label), so every "
    "judged call is judged on the fields exactly as for label 0: well-formed fields, seconds = calendar of the fields, order = order of "
    "the seconds, add n = the fields move by n. Which label a result carries is nowhere documented and is not judged",
    "lives: the calendar fields are public attributes and may be assigned well-formed int values in place at any time (also on a copy()); "
    "every later conversion / comparison / difference / offset is judged against the fields the object holds at the time of that call; "
    "copy() itself is not judged (the fields the copy shows are taken as its state); likewise convertToZone(z) is a history step, not "
    "a judged call: the object it returns is taken with the fields and the label it shows (documented effect: fields shifted by "
    "3600 s x (z - old label); deviations are only counted)",
]

# --- the time-zone label ----------------------------------------------------------------------------
ZONE_LO, ZONE_HI = -12, 14
NZ = (1, 2, -5, 12, -11, 14, -1)          # fixed non-zero labels for the enumerated sub-checks


def strat_zone():
    return st.one_of(st.just(0), st.sampled_from(NZ), st.integers(ZONE_LO, ZONE_HI))


def strat_zone2():
    """labels of two timestamps: both 0 (as ever) / the same label / two different labels"""
    nz = st.one_of(st.sampled_from(NZ), st.integers(ZONE_LO, ZONE_HI))
    def mk(t):
        mode, z1, z2 = t
        if mode == 0:
            return (0, 0)
        if mode == 1:
            return (z1, z1)
        return (z1, z2 if z2 != z1 else (0 if z1 else 1))
    return st.tuples(st.sampled_from([0, 0, 1, 1, 2, 2]), nz, nz).map(mk)


def _zone_ok(z):
    return isinstance(z, int) and not isinstance(z, bool) and ZONE_LO <= z <= ZONE_HI


def _zcls(*zs):
    return "zone-label-nonzero" if any(zs) else "zone-label-0"


def _wellformed(t, what):
    ok = (isinstance(t.year, int) and isinstance(t.month, int) and isinstance(t.day, int)
          and 1 <= t.month <= 12 and 1 <= t.day <= calendar.monthrange(t.year, t.month)[1]
          and 0 <= t.hour <= 23 and 0 <= t.min <= 59 and 0 <= t.sec <= 59 and 0 <= t.ms <= 999)
    if not ok:
        raise Violation("malformed-date", "%s gives %s-%s-%s %s:%s:%s.%s" % (
            what, t.year, t.month, t.day, t.hour, t.min, t.sec, t.ms))


def _fields(t):
    return (t.year, t.month, t.day, t.hour, t.min, t.sec, t.ms)


def _check_instant(ms, zone=0, back=True):
    """both conversion directions for one instant given in epoch milliseconds; the timestamp object carries the
    time-zone label `zone` (back=False: only the directions that start from the labelled object)"""
    ref = gen.fields_of_ms(ms)
    s = ms / 1000.0
    lab = " [label %+d]" % zone if zone else ""
    # calendar -> seconds
    t = ObsTime(*ref, zone=zone) if zone else ObsTime(*ref)
    got = t.toAbsTime()
    if abs(got - s) > 1e-6:
        raise Violation("toAbsTime-wrong", "ObsTime%s%s.toAbsTime() = %r, calendar says %r" % (ref, lab, got, s))
    # seconds -> calendar
    if back:
        r = ObsTime.readUnixTime(s)
        _wellformed(r, "readUnixTime(%r)" % s)
        if ms % 1000 == 0:
            if _fields(r) != ref:
                raise Violation("readUnixTime-wrong", "readUnixTime(%r) = %s, calendar says %s" % (s, _fields(r), ref))
        else:
            d = gen.ms_of_obstime(r)
            if abs(d - ms) > 1:
                raise Violation("readUnixTime-drift", "readUnixTime(%r) = %s is %d ms away" % (s, _fields(r), d - ms))
    # round trip through the library only
    rt = ObsTime.readUnixTime(got)
    _wellformed(rt, "readUnixTime(toAbsTime(%s%s))" % (ref, lab))
    if abs(rt.toAbsTime() - s) > TOL_S:
        raise Violation("roundtrip-drift", "readUnixTime(toAbsTime(%s%s)) = %s" % (ref, lab, _fields(rt)))
    if ms % 1000 == 0 and (rt != t or _fields(rt) != ref):
        raise Violation("roundtrip-not-identical", "readUnixTime(toAbsTime(%s%s)) = %s" % (ref, lab, _fields(rt)))


def _near_boundary(ms):
    y, mo, d, h, mi, s, _ = gen.fields_of_ms(ms)
    sod = h * 3600 + mi * 60 + s
    return sod <= 1 or sod >= 86398 or (mo == 2 and d == 29)


# --- (i) every day x fixed instants --------------------------------------------------------------
def _mix(n):
    return (n * 2654435761 + 12345) % 86400000      # a fixed pseudo-random millisecond per day


def enum_days(tier):
    for d in range(gen.N_DAYS):
        yield {"day": d, "zone": NZ[d % len(NZ)]}


def body_day(case):
    d = case["day"]
    z = case.get("zone", 0)
    if not _zone_ok(z):
        return {"undef": True}
    base = d * DAY
    for off in (0, 43200000, 86399000, 86399999, _mix(d)):
        _check_instant(base + off)
    if z:                                      # the same day through timestamps that carry a time-zone label
        for off in (0, 86399999, _mix(d)):
            _check_instant(base + off, z, back=False)
    y, mo, dd = gen.fields_of_ms(base)[:3]
    last = calendar.monthrange(y, mo)[1]
    cls = []
    if dd == last or dd == 1:
        cls.append("month-boundary-day")
    if (mo, dd) in ((12, 31), (1, 1)):
        cls.append("year-boundary-day")
    if mo == 2 and dd == 29:
        cls.append("feb29")
    cls.append(_zcls(z))
    return {"nt": True, "cls": cls}          # every day carries instants within 1 s of a day boundary


# --- (ii) every second of the boundary days ------------------------------------------------------
def _boundary_days():
    out = []
    for y in range(1970, 2100):
        out.append(gen.ms_of_fields(y, 1, 1) // DAY)
        out.append(gen.ms_of_fields(y, 2, 28) // DAY)
        out.append(gen.ms_of_fields(y, 2, 28) // DAY + 1)      # 29 Feb or 1 Mar
        out.append(gen.ms_of_fields(y, 12, 31) // DAY)
    return out


def enum_seconds(tier):
    for k, d in enumerate(_boundary_days()):
        if tier == "quick":
            yield {"day": d, "lo": 0, "hi": 86400, "step": 997, "zone": NZ[k % len(NZ)]}
        else:
            for h in range(24):
                yield {"day": d, "lo": h * 3600, "hi": (h + 1) * 3600, "step": 1, "zone": NZ[(k + h) % len(NZ)]}


def body_seconds(case):
    base = case["day"] * DAY
    z = case.get("zone", 0)
    if not _zone_ok(z):
        return {"undef": True}
    secs = list(range(case["lo"], case["hi"], case["step"]))
    if case["step"] != 1:
        secs += [0, 1, 2, 86397, 86398, 86399]
    for s in secs:
        _check_instant(base + s * 1000)
    if z:                                      # labelled timestamps: every 7th of these seconds + the first / last 3 of the day
        for s in sorted(set(secs[::7]) | set(x for x in secs if x <= 2 or x >= 86397)):
            _check_instant(base + s * 1000, z, back=False)
    return {"nt": True, "cls": ["seconds-%d" % len(secs), _zcls(z)]}


# --- (iii) random instants ----------------------------------------------------------------------
def strat_instant():
    return st.tuples(gen.ts_ms(), strat_zone()).map(lambda t: {"ms": t[0], "zone": t[1]})


def body_instant(case):
    z = case.get("zone", 0)
    if not _zone_ok(z):
        return {"undef": True}
    _check_instant(case["ms"], z)
    nb = _near_boundary(case["ms"])
    return {"nt": nb, "cls": ["near-boundary" if nb else "interior", _zcls(z)]}


# --- (iii-b) arbitrary float seconds (ObsTime.random() and GPS epochs feed such values) ----------------
def strat_float():
    us = st.one_of(st.sampled_from([0, 1, 499, 500, 501, 949, 950, 999]), st.integers(0, 999))
    return st.tuples(gen.ts_ms(), us, strat_zone()).map(lambda t: {"ms": t[0], "us": t[1], "zone": t[2]})


def body_float(case):
    z = case.get("zone", 0)
    if not _zone_ok(z):
        return {"undef": True}
    s = case["ms"] / 1000.0 + case["us"] / 1e6
    r = ObsTime.readUnixTime(s)
    _wellformed(r, "readUnixTime(%r)" % s)
    if z:
        r.zone = z                             # the timestamp is tagged with a zone in place (as Track.setTimeZone does)
    back = r.toAbsTime()
    if abs(back - s) > TOL_S:
        raise Violation("readUnixTime-drift", "readUnixTime(%r) = %s denotes %r" % (s, _fields(r), back))
    ref = gen.fields_of_ms(case["ms"])
    nb = _near_boundary(case["ms"]) and case["ms"] % 1000 == 999
    return {"nt": case["us"] > 0, "cls": ["last-ms-of-day" if (nb and ref[3:6] == (23, 59, 59)) else "other", _zcls(z)]}


# --- (iv) ordering ------------------------------------------------------------------------------
def _bump(t):
    """second instant one unit away in exactly one field (stays inside the domain)"""
    ms, unit, sign = t
    y, mo, d, h, mi, s, z = gen.fields_of_ms(ms)
    if unit == 0:
        y2 = min(max(y + sign, 1970), 2099)
        d2 = min(d, calendar.monthrange(y2, mo)[1])
        other = gen.ms_of_fields(y2, mo, d2, h, mi, s, z)
    elif unit == 1:
        mo2 = min(max(mo + sign, 1), 12)
        d2 = min(d, calendar.monthrange(y, mo2)[1])
        other = gen.ms_of_fields(y, mo2, d2, h, mi, s, z)
    else:
        step = {2: DAY, 3: 3600000, 4: 60000, 5: 1000, 6: 1}[unit]
        other = ms + sign * step
    other = min(max(other, 0), gen.MAX_MS)
    return {"a": ms, "b": other}


def strat_pair():
    free = st.tuples(gen.ts_ms(), gen.ts_ms()).map(lambda t: {"a": t[0], "b": t[1]})
    same_year = st.tuples(gen.ts_ms(), st.sampled_from([-1, 1]), st.integers(1, 366 * DAY)).map(
        lambda t: {"a": t[0], "b": min(max(t[0] + t[1] * t[2], 0), gen.MAX_MS)})
    near = st.tuples(gen.ts_ms(), st.integers(0, 6), st.sampled_from([-1, 1])).map(_bump)
    eq = gen.ts_ms().map(lambda v: {"a": v, "b": v})
    delta = st.tuples(gen.ts_ms(), st.sampled_from([-1, 1]), st.sampled_from([1, 1000, 60000, 3600000, DAY, 28 * DAY, 31 * DAY, 365 * DAY]),
                      st.integers(1, 3)).map(lambda t: {"a": t[0], "b": min(max(t[0] + t[1] * t[2] * t[3], 0), gen.MAX_MS)})
    pairs = st.one_of(free, free, same_year, same_year, near, near, near, delta, delta, delta, eq)
    # time-zone labels of the two timestamps: both 0 (as ever) / the same label / two labels
    return st.tuples(pairs, strat_zone2()).map(lambda t: dict(t[0], za=t[1][0], zb=t[1][1]))


def _labelled(ms, zone):
    """ObsTime built field-wise that carries the time-zone label `zone`"""
    t = gen.obstime_of_ms(ms)
    if zone:
        t = ObsTime(t.year, t.month, t.day, t.hour, t.min, t.sec, t.ms, zone)
    return t


def body_pair(case):
    a, b = case["a"], case["b"]
    za, zb = case.get("za", 0), case.get("zb", 0)
    if not (_zone_ok(za) and _zone_ok(zb)):
        return {"undef": True}
    ta, tb = _labelled(a, za), _labelled(b, zb)
    want = {"<": a < b, ">": a > b, "==": a == b, "!=": a != b, "<=": a <= b, ">=": a >= b}
    got = {"<": ta < tb, ">": ta > tb, "==": ta == tb, "!=": ta != tb, "<=": ta <= tb, ">=": ta >= tb}
    for op in want:
        if bool(got[op]) != want[op]:
            raise Violation("order-" + op, "%s %s %s is %s" % (gen.fields_of_ms(a), op, gen.fields_of_ms(b), got[op]))
    diff = ta - tb
    if abs(diff - (a - b) / 1000.0) > 1e-6:
        raise Violation("difference-wrong", "%s - %s = %r" % (gen.fields_of_ms(a), gen.fields_of_ms(b), diff))
    fa, fb = gen.fields_of_ms(a), gen.fields_of_ms(b)
    first = next((i for i in range(7) if fa[i] != fb[i]), 7)
    names = ["year", "month", "day", "hour", "min", "sec", "ms", "equal"]
    return {"nt": 1 <= first <= 6, "cls": ["decided-by-" + names[first],
                                           "zone-labels-0" if not (za or zb) else "zone-labels-equal" if za == zb else "zone-labels-differ"]}


# --- (v) offsets --------------------------------------------------------------------------------
UNITS = {"sec": 1, "min": 60, "hour": 3600, "day": 86400}


def strat_offset():
    def mk(t):
        ms, unit, n, z = t
        return {"ms": ms, "unit": unit, "n": n, "zone": z}
    mag = st.one_of(st.integers(0, 400), st.sampled_from([0, 1, 59, 60, 61, 23, 24, 25, 28, 29, 30, 31, 365, 366]),
                    st.integers(0, 100000))
    n = st.tuples(st.sampled_from([-1, 1]), mag).map(lambda t: t[0] * t[1])
    return st.tuples(gen.ts_ms(), st.sampled_from(sorted(UNITS)), n, strat_zone()).map(mk)


def body_offset(case):
    ms, unit, n = case["ms"], case["unit"], case["n"]
    z = case.get("zone", 0)
    target = ms + n * UNITS[unit] * 1000
    if target < 0 or target > gen.MAX_MS or not _zone_ok(z):
        return {"undef": True}
    t = _labelled(ms, z)
    before = (t.year, t.month, t.day, t.hour, t.min, t.sec, t.ms)
    r = {"sec": t.addSec, "min": t.addMin, "hour": t.addHour, "day": t.addDay}[unit](n)
    lab = " [label %+d]" % z if z else ""
    _wellformed(r, "%s%s.add%s(%d)" % (before, lab, unit, n))
    back = gen.ms_of_obstime(r)
    if abs(back - target) > 1:
        raise Violation("add-wrong", "%s%s add %d %s = %s, off by %d ms" % (before, lab, n, unit, _fields(r), back - target))
    if ms % 1000 == 0 and back != target:
        raise Violation("add-wrong", "%s%s add %d %s = %s, off by %d ms" % (before, lab, n, unit, _fields(r), back - target))
    if _fields(t) != before or t.zone != z:
        raise Violation("add-mutates", "add%s changed its receiver" % unit)
    fa, fb = gen.fields_of_ms(ms), gen.fields_of_ms(target)
    crossing = "year" if fa[0] != fb[0] else "month" if fa[1] != fb[1] else "day" if fa[2] != fb[2] else "none"
    return {"nt": crossing != "none", "cls": ["cross-" + crossing, "neg" if n < 0 else "pos", _zcls(z)]}



# --- (vi) object histories: conversions / comparisons / offsets interleaved with in-place field edits ---
# The calendar fields of an ObsTime are plain public attributes and copy() hands out independent objects, so a
# timestamp has a life: it is converted, compared, offset, then some field is assigned a new value (or the object is
# re-used for another instant, or copied and the copy edited) and it is converted / compared / offset again.  Every
# judged call gets the same oracle as in (i)-(v), computed from the fields the object holds AT THAT TIME.
FIELDS = ("year", "month", "day", "hour", "min", "sec", "ms")
_FIELD_MAX = {"hour": 23, "min": 59, "sec": 59, "ms": 999}


def _valid_fields(f):
    if len(f) != 7 or any(isinstance(v, bool) or not isinstance(v, int) for v in f):
        return False
    y, mo, d, h, mi, s, z = f
    return (1970 <= y <= 2099 and 1 <= mo <= 12 and 1 <= d <= calendar.monthrange(y, mo)[1]
            and 0 <= h <= 23 and 0 <= mi <= 59 and 0 <= s <= 59 and 0 <= z <= 999)


@st.composite
def strat_life_(draw):
    a = draw(gen.ts_ms())
    b = draw(st.one_of(gen.ts_ms(), st.just(a),
                       st.sampled_from([-DAY, -3600000, -1000, -1, 1, 1000, 3600000, DAY]).map(
                           lambda d: min(max(a + d, 0), gen.MAX_MS))))
    model = [list(gen.fields_of_ms(a)), list(gen.fields_of_ms(b))]
    # time-zone labels the two objects are created with: none / the same / two different ones
    zl = list(draw(strat_zone2()))
    za, zb = zl
    steps = []
    focus = draw(st.integers(0, 1))                             # most steps work on one of the two objects
    for _ in range(draw(st.integers(3, 10))):
        kind = draw(st.sampled_from(["abs", "abs", "set", "set", "set", "reuse", "copy", "cmp", "cmp", "add", "add", "rt",
                                     "label", "zone"]))
        s = draw(st.sampled_from([focus, focus, focus, 1 - focus]))
        f = model[s]
        if kind in ("label", "zone"):
            z = draw(strat_zone())
            tgt = gen.ms_of_fields(*f) + 3600000 * (z - zl[s])
            if kind == "zone" and 0 <= tgt <= gen.MAX_MS:       # convertToZone: fields shifted by the difference of the labels
                steps.append(["zone", s, z])
                model[s] = list(gen.fields_of_ms(tgt))
            else:                                               # .zone assigned in place (Track.setTimeZone): fields stay
                steps.append(["label", s, z])
            zl[s] = z
            continue
        if kind in ("abs", "rt"):
            steps.append([kind, s])
        elif kind == "cmp":
            steps.append(["cmp", s])
        elif kind == "copy":
            steps.append(["copy", s, 1 - s])
            model[1 - s] = list(f)
            zl[1 - s] = zl[s]
        elif kind == "reuse":                                   # the object is given all fields of another instant
            g = list(gen.fields_of_ms(draw(gen.ts_ms())))
            steps.append(["set", s, [[FIELDS[i], g[i]] for i in range(7)]])
            model[s] = g
        elif kind == "set":
            i = draw(st.integers(0, 6))
            name = FIELDS[i]
            if name == "year":
                lo, hi = 1970, 2099
            elif name == "month":
                lo, hi = 1, 12
            elif name == "day":
                lo, hi = 1, calendar.monthrange(f[0], f[1])[1]
            else:
                lo, hi = 0, _FIELD_MAX[name]
            v = draw(st.one_of(st.sampled_from([f[i] - 1, f[i] + 1, lo, hi]), st.integers(lo, hi)))
            v = min(max(v, lo), hi)
            g = list(f)
            g[i] = v
            assign = [[name, v]]
            last = calendar.monthrange(g[0], g[1])[1]
            if g[2] > last:                                     # 31 Jan -> month 2: the day is edited as well
                g[2] = last
                assign.append(["day", last])
            steps.append(["set", s, assign])
            model[s] = g
        else:
            unit = draw(st.sampled_from(sorted(UNITS)))
            mag = draw(st.one_of(st.integers(0, 400), st.sampled_from([0, 1, 59, 60, 61, 23, 24, 25, 28, 29, 30, 31, 365, 366]),
                                 st.integers(0, 100000)))
            n = draw(st.sampled_from([-1, 1])) * mag
            ms = gen.ms_of_fields(*f)
            if not (0 <= ms + n * UNITS[unit] * 1000 <= gen.MAX_MS):
                n = -n
            if not (0 <= ms + n * UNITS[unit] * 1000 <= gen.MAX_MS):
                n = 0
            adopt = draw(st.booleans())
            steps.append(["add", s, unit, n, adopt])
            if adopt:
                model[s] = list(gen.fields_of_ms(ms + n * UNITS[unit] * 1000))
                zl[s] = 0                                       # (what the unchanged code does; the body reads the label off the object)
    return {"a": a, "b": b, "za": za, "zb": zb, "steps": steps}


def strat_life():
    return strat_life_()


def body_life(case):
    m = [tuple(gen.fields_of_ms(case["a"])), tuple(gen.fields_of_ms(case["b"]))]     # fields each object holds now
    zl = [case.get("za", 0), case.get("zb", 0)]                                       # time-zone label each object carries now
    if not (_zone_ok(zl[0]) and _zone_ok(zl[1])):
        return {"undef": True}
    obj = [ObsTime(*m[0], zone=zl[0]) if zl[0] else ObsTime(*m[0]), ObsTime(*m[1], zone=zl[1]) if zl[1] else ObsTime(*m[1])]
    conv = [False, False]          # a seconds-based call has been made on this object (or on the one it was copied from)
    stale = [False, False]         # ... and a field was assigned afterwards
    copied = [False, False]
    cls = set()
    nt = False
    log = []

    def note(s, what):
        nonlocal nt
        if stale[s]:
            nt = True
            cls.add(what + "-after-edit")
            if copied[s]:
                cls.add(what + "-after-edit-of-copy")
        else:
            cls.add(what + "-unedited")
        if zl[s]:
            cls.add(what + "-on-zone-labelled")
        conv[s] = True

    def hist():
        return " | history: %s" % "; ".join(log[-8:])

    for step in case["steps"]:
        kind, s = step[0], step[1]
        if s not in (0, 1):
            return {"undef": True}
        t, f = obj[s], m[s]
        if kind == "set":
            g = dict(zip(FIELDS, f))
            for name, v in step[2]:
                if name not in g:
                    return {"undef": True}
                g[name] = v
            g = tuple(g[k] for k in FIELDS)
            if not _valid_fields(g):
                return {"undef": True}
            for name, v in step[2]:
                setattr(t, name, v)
            if _fields(t) != g:
                raise Violation("history-field-assignment-lost", "after assigning %s the object shows %s" % (step[2], _fields(t)))
            if g != f:
                if conv[s]:
                    stale[s] = True
                cls.add("set-" + (step[2][0][0] if len(step[2]) < 7 else "all"))
            m[s] = g
            log.append("t%d.%s" % (s, ",".join("%s=%s" % (a, b) for a, b in step[2])))
        elif kind == "copy":
            d = step[2]
            if d not in (0, 1) or d == s:
                return {"undef": True}
            obj[d] = t.copy()
            m[d] = _fields(obj[d])                 # copy() itself is not this property's subject
            zl[d] = getattr(obj[d], "zone", 0)
            if not _valid_fields(m[d]) or not _zone_ok(zl[d]):
                return {"undef": True}
            conv[d], stale[d], copied[d] = conv[s], stale[s], True
            cls.add("copy")
            log.append("t%d=t%d.copy()" % (d, s))
        elif kind == "label":
            z = step[2] if len(step) > 2 else None
            if not _zone_ok(z):
                return {"undef": True}
            t.zone = z
            if _fields(t) != f:
                raise Violation("history-field-assignment-lost", "after assigning zone=%s the object shows %s" % (z, _fields(t)))
            if z != zl[s] and conv[s]:
                stale[s] = True
            zl[s] = z
            cls.add("label-assigned")
            log.append("t%d.zone=%d" % (s, z))
        elif kind == "zone":
            z = step[2] if len(step) > 2 else None
            if not _zone_ok(z):
                return {"undef": True}
            tgt = gen.ms_of_fields(*f) + 3600000 * (z - zl[s])
            if tgt < 0 or tgt > gen.MAX_MS:
                cls.add("convertToZone-skipped-out-of-domain")
                continue
            r = t.convertToZone(z)                  # a history step, not a judged call: the result is taken as it shows itself
            g, lab = _fields(r), getattr(r, "zone", None)
            log.append("t%d=t%d.convertToZone(%d)" % (s, s, z))
            if not _valid_fields(g) or not _zone_ok(lab):
                return {"undef": True}
            if abs(gen.ms_of_fields(*g) - tgt) > 1 or lab != z:
                cls.add("convertToZone-not-as-documented")
            obj[s], m[s], zl[s] = r, g, lab
            conv[s], stale[s], copied[s] = False, False, False
            cls.add("convertToZone" if lab else "convertToZone(0)")
        elif kind == "abs":
            want = gen.ms_of_fields(*f) / 1000.0
            got = t.toAbsTime()
            log.append("t%d.toAbsTime()" % s)
            if abs(got - want) > 1e-6:
                raise Violation("history-toAbsTime-wrong", "object showing %s: toAbsTime() = %r, calendar says %r%s" % (
                    f, got, want, hist()))
            note(s, "toAbsTime")
        elif kind == "rt":
            ms = gen.ms_of_fields(*f)
            r = ObsTime.readUnixTime(t.toAbsTime())
            log.append("readUnixTime(t%d.toAbsTime())" % s)
            _wellformed(r, "round trip of %s" % (f,))
            if abs(gen.ms_of_obstime(r) - ms) > 1 or (ms % 1000 == 0 and (_fields(r) != f or r != t)):
                raise Violation("history-roundtrip-wrong", "object showing %s: readUnixTime(toAbsTime()) = %s%s" % (
                    f, _fields(r), hist()))
            note(s, "roundtrip")
        elif kind == "cmp":
            o = 1 - s
            a, b = gen.ms_of_fields(*f), gen.ms_of_fields(*m[o])
            ta, tb = t, obj[o]
            log.append("t%d <=> t%d" % (s, o))
            want = {"<": a < b, ">": a > b, "==": a == b, "!=": a != b, "<=": a <= b, ">=": a >= b}
            got = {"<": ta < tb, ">": ta > tb, "==": ta == tb, "!=": ta != tb, "<=": ta <= tb, ">=": ta >= tb}
            for op in sorted(want):
                if bool(got[op]) != want[op]:
                    raise Violation("history-order-" + op, "%s %s %s is %s%s" % (f, op, m[o], got[op], hist()))
            diff = ta - tb
            if abs(diff - (a - b) / 1000.0) > 1e-6:
                raise Violation("history-difference-wrong", "%s - %s = %r, seconds differ by %r%s" % (
                    f, m[o], diff, (a - b) / 1000.0, hist()))
            if stale[o] and not stale[s]:
                nt = True
                cls.add("difference-after-edit")
            note(s, "difference")
            conv[o] = True
        elif kind == "add":
            unit, n = step[2], step[3]
            if unit not in UNITS or isinstance(n, bool) or not isinstance(n, int):
                return {"undef": True}
            ms = gen.ms_of_fields(*f)
            target = ms + n * UNITS[unit] * 1000
            if target < 0 or target > gen.MAX_MS:
                cls.add("add-skipped-out-of-domain")
                continue
            r = {"sec": t.addSec, "min": t.addMin, "hour": t.addHour, "day": t.addDay}[unit](n)
            log.append("t%d.add%s(%d)" % (s, unit, n))
            _wellformed(r, "%s add %d %s" % (f, n, unit))
            back = gen.ms_of_obstime(r)
            if abs(back - target) > 1 or (ms % 1000 == 0 and back != target):
                raise Violation("history-add-wrong", "object showing %s (zone label %+d) add %d %s = %s, off by %d ms%s" % (
                    f, zl[s], n, unit, _fields(r), back - target, hist()))
            if _fields(t) != f or t.zone != zl[s]:
                raise Violation("add-mutates", "add%s changed its receiver" % unit)
            note(s, "add")
            if len(step) > 4 and step[4]:                   # go on with the returned object (fresh from readUnixTime)
                lab = getattr(r, "zone", 0)                 # which label the result carries is not documented: taken as shown
                if not _zone_ok(lab):
                    return {"undef": True}
                obj[s], m[s], zl[s] = r, _fields(r), lab
                conv[s], stale[s], copied[s] = False, False, False
                cls.add("adopt-result")
                log.append("t%d=result" % s)
        else:
            return {"undef": True}
    return {"nt": nt, "cls": sorted(cls)}


RULE = ("days: every calendar day 1970-2099 x {00:00:00.000, 12:00, 23:59:59, 23:59:59.999, one fixed pseudo-random ms}; "
        "seconds: the 4 boundary days of every year (1 Jan, 28 Feb, 29 Feb/1 Mar, 31 Dec), every 997th second + first/last 3 (quick) "
        "or every second (thorough); instants/pairs/offsets: Hypothesis, weighted to calendar boundaries. "
        "Non-trivial: instant within 1 s of a day/month/year boundary or on 29 Feb; pair whose order is decided by a field other "
        "than the year; offset that crosses a day/month/year boundary. "
        "Time-zone label: random sub-checks draw it per timestamp from {0} | {1, 2, -5, 12, -11, 14, -1} | -12..14 (a third 0; pairs: both 0 / "
        "equal / two labels); the enumerated ones repeat 3 instants of every day and every 7th boundary second (+ first/last 3) with a "
        "non-zero label that cycles with the day; float_seconds assigns .zone on the result before converting back. "
        "lives: two timestamp objects (created with labels 0,0 / equal / different) and 2-10 steps drawn from assignment of .zone in place / "
        "convertToZone(z) (object replaced by the result, taken as shown) /  toAbsTime / round trip / six comparisons + difference with the other object / "
        "addSec|Min|Hour|Day (optionally going on with the returned object) / copy() into the other slot / in-place assignment of one field "
        "(+-1, its minimum, its maximum, any legal value; the day is clamped with a second assignment when the month shrinks) or of all seven "
        "fields (object re-used for another instant); non-trivial: a seconds-based call on an object that was converted before and had a field "
        "(or its zone label) assigned since. Distinct = hash of the case.")

SUBCHECKS = [
    SubCheck("days", body_day, enum=enum_days, rule="all 47482 days x 5 instants", qshards=8),
    SubCheck("boundary_seconds", body_seconds, enum=enum_seconds, rule="boundary days, per-second", qshards=4),
    SubCheck("instants", body_instant, strategy=strat_instant, quick=4000, thorough=200000),
    SubCheck("float_seconds", body_float, strategy=strat_float, quick=3000, thorough=150000),
    SubCheck("pairs", body_pair, strategy=strat_pair, quick=4000, thorough=200000),
    SubCheck("offsets", body_offset, strategy=strat_offset, quick=4000, thorough=200000),
    SubCheck("lives", body_life, strategy=strat_life, quick=6000, thorough=200000, qshards=6,
             rule="object histories: convert / compare / offset, assign fields in place (also on a copy), convert again"),
]
