"""C03 - timestamps <-> epoch seconds.  Oracle: Python datetime / calendar (proleptic Gregorian)."""
import calendar

from hypothesis import strategies as st

from tracklib.core.obs_time import ObsTime

from vt import gen
from vt.core import SubCheck, Violation

DAY = gen.DAY_MS
TOL_S = 1e-3 + 1e-6      # "same instant to within one millisecond" (+ float slack on ~4e9 s)

ASSUMPTIONS = [
    "reference calendar = Python datetime/calendar (proleptic Gregorian, no leap seconds, as tracklib documents)",
    "domain 1970-01-01 .. 2099-12-31, millisecond resolution, time zone 0",
]


def _wellformed(t, what):
    ok = (isinstance(t.year, int) and isinstance(t.month, int) and isinstance(t.day, int)
          and 1 <= t.month <= 12 and 1 <= t.day <= calendar.monthrange(t.year, t.month)[1]
          and 0 <= t.hour <= 23 and 0 <= t.min <= 59 and 0 <= t.sec <= 59 and 0 <= t.ms <= 999)
    if not ok:
        raise Violation("malformed-date", "%s gives %s-%s-%s %s:%s:%s.%s" % (
            what, t.year, t.month, t.day, t.hour, t.min, t.sec, t.ms))


def _fields(t):
    return (t.year, t.month, t.day, t.hour, t.min, t.sec, t.ms)


def _check_instant(ms):
    """both conversion directions for one instant given in epoch milliseconds"""
    ref = gen.fields_of_ms(ms)
    s = ms / 1000.0
    # calendar -> seconds
    t = ObsTime(*ref)
    got = t.toAbsTime()
    if abs(got - s) > 1e-6:
        raise Violation("toAbsTime-wrong", "ObsTime%s.toAbsTime() = %r, calendar says %r" % (ref, got, s))
    # seconds -> calendar
    r = ObsTime.readUnixTime(s)
    _wellformed(r, "readUnixTime(%r)" % s)
    if ms % 1000 == 0:
        if _fields(r) != ref:
            raise Violation("readUnixTime-wrong", "readUnixTime(%r) = %s, calendar says %s" % (s, _fields(r), ref))
    else:
        back = gen.ms_of_obstime(r)
        if abs(back - ms) > 1:
            raise Violation("readUnixTime-drift", "readUnixTime(%r) = %s is %d ms away" % (s, _fields(r), back - ms))
    # round trip through the library only
    rt = ObsTime.readUnixTime(got)
    if abs(rt.toAbsTime() - s) > TOL_S:
        raise Violation("roundtrip-drift", "readUnixTime(toAbsTime(%s)) = %s" % (ref, _fields(rt)))
    if ms % 1000 == 0 and rt != t:
        raise Violation("roundtrip-not-identical", "readUnixTime(toAbsTime(%s)) = %s" % (ref, _fields(rt)))


def _near_boundary(ms):
    y, mo, d, h, mi, s, _ = gen.fields_of_ms(ms)
    sod = h * 3600 + mi * 60 + s
    return sod <= 1 or sod >= 86398 or (mo == 2 and d == 29)


# --- (i) every day x fixed instants --------------------------------------------------------------
def _mix(n):
    return (n * 2654435761 + 12345) % 86400000      # a fixed pseudo-random millisecond per day


def enum_days(tier):
    for d in range(gen.N_DAYS):
        yield {"day": d}


def body_day(case):
    d = case["day"]
    base = d * DAY
    for off in (0, 43200000, 86399000, 86399999, _mix(d)):
        _check_instant(base + off)
    y, mo, dd = gen.fields_of_ms(base)[:3]
    last = calendar.monthrange(y, mo)[1]
    cls = []
    if dd == last or dd == 1:
        cls.append("month-boundary-day")
    if (mo, dd) in ((12, 31), (1, 1)):
        cls.append("year-boundary-day")
    if mo == 2 and dd == 29:
        cls.append("feb29")
    return {"nt": True, "cls": cls}          # every day carries instants within 1 s of a day boundary


# --- (ii) every second of the boundary days ------------------------------------------------------
def _boundary_days():
    out = []
    for y in range(1970, 2100):
        out.append(gen.ms_of_fields(y, 1, 1) // DAY)
        out.append(gen.ms_of_fields(y, 2, 28) // DAY)
        out.append(gen.ms_of_fields(y, 2, 28) // DAY + 1)      # 29 Feb or 1 Mar
        out.append(gen.ms_of_fields(y, 12, 31) // DAY)
    return out


def enum_seconds(tier):
    for d in _boundary_days():
        if tier == "quick":
            yield {"day": d, "lo": 0, "hi": 86400, "step": 997}
        else:
            for h in range(24):
                yield {"day": d, "lo": h * 3600, "hi": (h + 1) * 3600, "step": 1}


def body_seconds(case):
    base = case["day"] * DAY
    secs = list(range(case["lo"], case["hi"], case["step"]))
    if case["step"] != 1:
        secs += [0, 1, 2, 86397, 86398, 86399]
    for s in secs:
        _check_instant(base + s * 1000)
    return {"nt": True, "cls": ["seconds-%d" % len(secs)]}


# --- (iii) random instants ----------------------------------------------------------------------
def strat_instant():
    return gen.ts_ms().map(lambda v: {"ms": v})


def body_instant(case):
    _check_instant(case["ms"])
    nb = _near_boundary(case["ms"])
    return {"nt": nb, "cls": ["near-boundary"] if nb else ["interior"]}


# --- (iii-b) arbitrary float seconds (ObsTime.random() and GPS epochs feed such values) ----------------
def strat_float():
    us = st.one_of(st.sampled_from([0, 1, 499, 500, 501, 949, 950, 999]), st.integers(0, 999))
    return st.tuples(gen.ts_ms(), us).map(lambda t: {"ms": t[0], "us": t[1]})


def body_float(case):
    s = case["ms"] / 1000.0 + case["us"] / 1e6
    r = ObsTime.readUnixTime(s)
    _wellformed(r, "readUnixTime(%r)" % s)
    back = r.toAbsTime()
    if abs(back - s) > TOL_S:
        raise Violation("readUnixTime-drift", "readUnixTime(%r) = %s denotes %r" % (s, _fields(r), back))
    ref = gen.fields_of_ms(case["ms"])
    nb = _near_boundary(case["ms"]) and case["ms"] % 1000 == 999
    return {"nt": case["us"] > 0, "cls": ["last-ms-of-day" if (nb and ref[3:6] == (23, 59, 59)) else "other"]}


# --- (iv) ordering ------------------------------------------------------------------------------
def _bump(t):
    """second instant one unit away in exactly one field (stays inside the domain)"""
    ms, unit, sign = t
    y, mo, d, h, mi, s, z = gen.fields_of_ms(ms)
    if unit == 0:
        y2 = min(max(y + sign, 1970), 2099)
        d2 = min(d, calendar.monthrange(y2, mo)[1])
        other = gen.ms_of_fields(y2, mo, d2, h, mi, s, z)
    elif unit == 1:
        mo2 = min(max(mo + sign, 1), 12)
        d2 = min(d, calendar.monthrange(y, mo2)[1])
        other = gen.ms_of_fields(y, mo2, d2, h, mi, s, z)
    else:
        step = {2: DAY, 3: 3600000, 4: 60000, 5: 1000, 6: 1}[unit]
        other = ms + sign * step
    other = min(max(other, 0), gen.MAX_MS)
    return {"a": ms, "b": other}


def strat_pair():
    free = st.tuples(gen.ts_ms(), gen.ts_ms()).map(lambda t: {"a": t[0], "b": t[1]})
    same_year = st.tuples(gen.ts_ms(), st.sampled_from([-1, 1]), st.integers(1, 366 * DAY)).map(
        lambda t: {"a": t[0], "b": min(max(t[0] + t[1] * t[2], 0), gen.MAX_MS)})
    near = st.tuples(gen.ts_ms(), st.integers(0, 6), st.sampled_from([-1, 1])).map(_bump)
    eq = gen.ts_ms().map(lambda v: {"a": v, "b": v})
    delta = st.tuples(gen.ts_ms(), st.sampled_from([-1, 1]), st.sampled_from([1, 1000, 60000, 3600000, DAY, 28 * DAY, 31 * DAY, 365 * DAY]),
                      st.integers(1, 3)).map(lambda t: {"a": t[0], "b": min(max(t[0] + t[1] * t[2] * t[3], 0), gen.MAX_MS)})
    return st.one_of(free, free, same_year, same_year, near, near, near, delta, delta, delta, eq)


def body_pair(case):
    a, b = case["a"], case["b"]
    ta, tb = gen.obstime_of_ms(a), gen.obstime_of_ms(b)
    want = {"<": a < b, ">": a > b, "==": a == b, "!=": a != b, "<=": a <= b, ">=": a >= b}
    got = {"<": ta < tb, ">": ta > tb, "==": ta == tb, "!=": ta != tb, "<=": ta <= tb, ">=": ta >= tb}
    for op in want:
        if bool(got[op]) != want[op]:
            raise Violation("order-" + op, "%s %s %s is %s" % (gen.fields_of_ms(a), op, gen.fields_of_ms(b), got[op]))
    diff = ta - tb
    if abs(diff - (a - b) / 1000.0) > 1e-6:
        raise Violation("difference-wrong", "%s - %s = %r" % (gen.fields_of_ms(a), gen.fields_of_ms(b), diff))
    fa, fb = gen.fields_of_ms(a), gen.fields_of_ms(b)
    first = next((i for i in range(7) if fa[i] != fb[i]), 7)
    names = ["year", "month", "day", "hour", "min", "sec", "ms", "equal"]
    return {"nt": 1 <= first <= 6, "cls": ["decided-by-" + names[first]]}


# --- (v) offsets --------------------------------------------------------------------------------
UNITS = {"sec": 1, "min": 60, "hour": 3600, "day": 86400}


def strat_offset():
    def mk(t):
        ms, unit, n = t
        return {"ms": ms, "unit": unit, "n": n}
    mag = st.one_of(st.integers(0, 400), st.sampled_from([0, 1, 59, 60, 61, 23, 24, 25, 28, 29, 30, 31, 365, 366]),
                    st.integers(0, 100000))
    n = st.tuples(st.sampled_from([-1, 1]), mag).map(lambda t: t[0] * t[1])
    return st.tuples(gen.ts_ms(), st.sampled_from(sorted(UNITS)), n).map(mk)


def body_offset(case):
    ms, unit, n = case["ms"], case["unit"], case["n"]
    target = ms + n * UNITS[unit] * 1000
    if target < 0 or target > gen.MAX_MS:
        return {"undef": True}
    t = gen.obstime_of_ms(ms)
    before = (t.year, t.month, t.day, t.hour, t.min, t.sec, t.ms)
    r = {"sec": t.addSec, "min": t.addMin, "hour": t.addHour, "day": t.addDay}[unit](n)
    _wellformed(r, "%s.add%s(%d)" % (before, unit, n))
    back = gen.ms_of_obstime(r)
    if abs(back - target) > 1:
        raise Violation("add-wrong", "%s add %d %s = %s, off by %d ms" % (before, n, unit, _fields(r), back - target))
    if ms % 1000 == 0 and back != target:
        raise Violation("add-wrong", "%s add %d %s = %s, off by %d ms" % (before, n, unit, _fields(r), back - target))
    if _fields(t) != before:
        raise Violation("add-mutates", "add%s changed its receiver" % unit)
    fa, fb = gen.fields_of_ms(ms), gen.fields_of_ms(target)
    crossing = "year" if fa[0] != fb[0] else "month" if fa[1] != fb[1] else "day" if fa[2] != fb[2] else "none"
    return {"nt": crossing != "none", "cls": ["cross-" + crossing, "neg" if n < 0 else "pos"]}


RULE = ("days: every calendar day 1970-2099 x {00:00:00.000, 12:00, 23:59:59, 23:59:59.999, one fixed pseudo-random ms}; "
        "seconds: the 4 boundary days of every year (1 Jan, 28 Feb, 29 Feb/1 Mar, 31 Dec), every 997th second + first/last 3 (quick) "
        "or every second (thorough); instants/pairs/offsets: Hypothesis, weighted to calendar boundaries. "
        "Non-trivial: instant within 1 s of a day/month/year boundary or on 29 Feb; pair whose order is decided by a field other "
        "than the year; offset that crosses a day/month/year boundary. Distinct = hash of the case.")

SUBCHECKS = [
    SubCheck("days", body_day, enum=enum_days, rule="all 47482 days x 5 instants", qshards=8),
    SubCheck("boundary_seconds", body_seconds, enum=enum_seconds, rule="boundary days, per-second", qshards=4),
    SubCheck("instants", body_instant, strategy=strat_instant, quick=4000, thorough=200000),
    SubCheck("float_seconds", body_float, strategy=strat_float, quick=3000, thorough=150000),
    SubCheck("pairs", body_pair, strategy=strat_pair, quick=4000, thorough=200000),
    SubCheck("offsets", body_offset, strategy=strat_offset, quick=4000, thorough=200000),
]
