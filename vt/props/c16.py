"""C16 - Douglas-Peucker / Visvalingam simplification: keeps the two end fixes, only drops fixes
(output = subsequence of the input observations), never fails on duplicates / revisits / closed
loops; Douglas-Peucker additionally keeps every input fix within the tolerance of its output.

Oracle (independent of tracklib): record matcher on (x, y, z, t) + own point-polyline distance."""
import itertools
import math

from hypothesis import strategies as st

from tracklib.algo.simplification import (MODE_SIMPLIFY_DOUGLAS_PEUCKER, MODE_SIMPLIFY_VISVALINGAM,
                                          simplify)

from vt import gen, oracle
from vt.core import SubCheck, Violation, exc_key

MODES = {"dp": MODE_SIMPLIFY_DOUGLAS_PEUCKER, "vv": MODE_SIMPLIFY_VISVALINGAM}

ASSUMPTIONS = [
    "tracks are ENU, 2..12 fixes (enumerated part: 2..4 fixes on {0,1,2}^2), strictly increasing timestamps "
    "1 s apart, so every observation record (x, y, z, t) is unique and the subsequence embedding is unique",
    "float tracks: coordinates = offset + magnitude * k/2^40 (|k| <= 2^40), magnitude in {1, 1e3, 1e6}, so two coordinates are "
    "equal or differ by >= 2^-40 ~ 9e-13 (squares of legs do not underflow - neither in tracklib nor in the reference distance)",
    "tolerance > 0 and finite, from 1e-3 x extent to 1e3 x extent, plus lattice-aligned values and values equal to "
    "the exact distance of a fix from the end-to-end chord (ties with the tolerance)",
    "Douglas-Peucker bound: planar distance of every input fix to the output polyline <= tol + 1e-9*(tol + max|coordinate|) "
    "(reference: clamped-projection point-segment distance in vt/oracle.py; the slack covers tracklib's own rounding "
    "when it compares its computed distance with the tolerance)",
    "for Visvalingam only 'no failure, subsequence, both end fixes kept' is demanded (the statement gives no error bound for it)",
    "the input track not being modified, and the analytical features of the output, are not part of the statement",
]


# ------------------------------------------------------------------------------------------------
# model helpers
def _extent(pts):
    xs = [p[0] for p in pts]
    ys = [p[1] for p in pts]
    e = max(max(xs) - min(xs), max(ys) - min(ys))
    return e if e > 0 else 1.0


def _collinear_triple(pts):
    for i in range(len(pts) - 2):
        (x0, y0), (x1, y1), (x2, y2) = pts[i][:2], pts[i + 1][:2], pts[i + 2][:2]
        if (x1 - x0) * (y2 - y1) - (x2 - x1) * (y1 - y0) == 0:
            return True
    return False


def _features_of(pts):
    xy = [(p[0], p[1]) for p in pts]
    cls = []
    if any(xy[i] == xy[i + 1] for i in range(len(xy) - 1)):
        cls.append("consecutive-duplicate")
    if len(set(xy)) < len(xy) - sum(1 for i in range(len(xy) - 1) if xy[i] == xy[i + 1]):
        cls.append("revisit")
    if xy[0] == xy[-1]:
        cls.append("coincident-ends")
    if len(set(xy)) == 1:
        cls.append("all-identical")
    if _collinear_triple(pts):
        cls.append("collinear-triple")
    return cls


def _check(case):
    mode, pts, tol = case["mode"], case["pts"], float(case["tol"])
    n = len(pts)
    if n < 2 or not (tol > 0) or math.isinf(tol):
        return {"undef": True}
    pts3 = [(float(p[0]), float(p[1]), float(p[2]) if len(p) > 2 else 0.0) for p in pts]
    tr = gen.make_track(pts3)
    want = [r[:4] for r in gen.track_records(tr)]
    try:
        out = simplify(tr, tol, MODES[mode])
    except IndexError as e:
        if mode == "vv" and exc_key(e) == "exc:IndexError:getObsAnalyticalFeature":
            # the elimination loop read '@aire' of fix 0 of a track it has emptied.  Root cause: nothing protects the
            # end fixes and nothing stops the elimination at two fixes
            raise Violation("visvalingam-removes-everything",
                            "visvalingam(%d fixes, eps=%r) raised IndexError: %s" % (n, tol, e))
        raise
    got = [r[:4] for r in gen.track_records(out)]

    # -- subsequence (records are unique, so the embedding is unique) -----------------------------
    idx = []
    k = 0
    for r in got:
        while k < n and want[k] != r:
            k += 1
        if k == n:
            who = "an observation that is not in the input (or out of order)"
            raise Violation(mode + "-not-a-subsequence", "output record %s is %s; input %s, tol %r, output %s" % (
                (r,), who, pts, tol, got))
        idx.append(k)
        k += 1
    # -- end points ----------------------------------------------------------------------------------
    if not idx or idx[0] != 0:
        raise Violation(mode + "-first-fix-dropped", "input %s tol %r -> kept indices %s" % (pts, tol, idx))
    if idx[-1] != n - 1:
        raise Violation(mode + "-last-fix-dropped", "input %s tol %r -> kept indices %s" % (pts, tol, idx))
    # -- tolerance (Douglas-Peucker only) -----------------------------------------------------------
    if mode == "dp":
        kept = [pts3[i] for i in idx]
        scale = max(max(abs(p[0]), abs(p[1])) for p in pts3)
        bound = tol + 1e-9 * (tol + scale)
        for i, p in enumerate(pts3):
            d = oracle.pt_polyline_dist(p[0], p[1], kept)
            if d > bound:
                raise Violation("dp-tolerance-exceeded", "fix %d %s is %r away from the simplified line %s, tol %r" % (
                    i, p, d, kept, tol))
    cls = _features_of(pts)
    special = bool(cls)
    shorter = len(idx) < n
    cls = [mode + ":" + c for c in cls] or [mode + ":plain"]
    cls.append(mode + (":ends-only" if len(idx) == 2 and n > 2 else ":shorter" if shorter else ":unchanged"))
    cls.append("n=%d" % n)
    ext = _extent(pts3)
    cls.append("tol<extent/100" if tol < ext / 100 else "tol>=extent" if tol >= ext else "tol-mid")
    chord = [oracle.pt_seg_dist(p[0], p[1], pts3[0][0], pts3[0][1], pts3[-1][0], pts3[-1][1]) for p in pts3]
    if any(abs(d - tol) <= 1e-12 * tol for d in chord):
        cls.append(mode + ":tol==distance-of-a-fix-from-the-chord")
        if abs(max(chord) - tol) <= 1e-12 * tol:
            cls.append(mode + ":tol==distance-of-the-farthest-fix")
    return {"nt": special and shorter, "cls": cls}


# ------------------------------------------------------------------------------------------------
# (i) exhaustive: every track of 2..nmax fixes on {0,1,2}^2, both algorithms, lattice-aligned tolerances
ENUM_TOLS = [0.25, 0.5, math.sqrt(0.5), 1.0, 1.5, 3.0]       # 0.5, sqrt(1/2), 1 are exact fix-chord distances on the lattice
CELLS = [(x, y) for x in range(3) for y in range(3)]


def enum_small(tier):
    nmax = 4 if tier == "thorough" else 3
    for n in range(2, nmax + 1):
        for combo in itertools.product(range(9), repeat=n):
            yield {"n": n, "cells": list(combo)}


def body_small(case):
    pts = [[CELLS[c][0], CELLS[c][1], i] for i, c in enumerate(case["cells"])]
    cls = set()
    nt = False
    for mode in ("dp", "vv"):
        for tol in ENUM_TOLS:
            r = _check({"mode": mode, "pts": pts, "tol": tol})
            nt = nt or r["nt"]
            cls.update(c for c in r["cls"] if not c.startswith("tol") and not c.startswith("n="))
    cls.add("n=%d" % case["n"])
    return {"nt": nt, "cls": sorted(cls)}


# ------------------------------------------------------------------------------------------------
# (ii) generated tracks
_STEPS = [(0, 0), (1, 0), (1, 0), (0, 1), (0, 1), (-1, 0), (0, -1), (1, 1), (-1, 1), (1, -1), (2, 0), (0, 2), (2, 1), (1, 2)]


_SIZE = st.sampled_from([3, 4, 5, 6, 7, 8, 9, 10, 11, 12, 2, 3, 4, 5, 6, 8, 12])     # 2..12, two-fix tracks kept rare (they are returned as is)


@st.composite
def _lattice_track(draw):
    kind = draw(st.sampled_from(["free", "free", "walk", "walk", "runs", "closed", "revisit", "same", "spike"]))
    if kind == "free":
        n = draw(_SIZE)
        side = draw(st.sampled_from([1, 2, 4, 8]))
        pts = [(draw(st.integers(0, side)), draw(st.integers(0, side))) for _ in range(n)]
    elif kind == "walk":
        n = draw(_SIZE)
        x, y = draw(st.integers(0, 4)), draw(st.integers(0, 4))
        pts = [(x, y)]
        for _ in range(n - 1):
            dx, dy = draw(st.sampled_from(_STEPS))
            x, y = x + dx, y + dy
            pts.append((x, y))
    elif kind == "runs":           # a few straight runs: collinear triples and near-ties along the chord
        nrun = draw(st.integers(1, 3))
        x, y = 0, 0
        pts = [(x, y)]
        for _ in range(nrun):
            dx, dy = draw(st.sampled_from(_STEPS[1:]))
            for _ in range(draw(st.integers(1, 4))):
                if len(pts) < 12:
                    x, y = x + dx, y + dy
                    pts.append((x, y))
    elif kind == "closed":
        n = draw(st.integers(1, 11))
        pts = [(draw(st.integers(0, 4)), draw(st.integers(0, 4))) for _ in range(n)]
        pts.append(pts[0])
    elif kind == "revisit":
        n = draw(st.integers(2, 11))
        pts = [(draw(st.integers(0, 4)), draw(st.integers(0, 4))) for _ in range(n)]
        src = draw(st.integers(0, n - 1))
        dst = draw(st.integers(0, n))
        pts.insert(dst, pts[src])
    elif kind == "same":
        n = draw(_SIZE)
        p = (draw(st.integers(0, 4)), draw(st.integers(0, 4)))
        pts = [p] * n
    else:                          # spike: nearly straight line with one small excursion (Visvalingam removes everything)
        n = draw(st.integers(3, 12))
        k = draw(st.integers(1, n - 2))
        h = draw(st.sampled_from([0.01, 0.5, 1, 3]))
        pts = [(5 * i, h if i == k else 0) for i in range(n)]
    scale = draw(st.sampled_from([1, 1, 1, 0.125, 10, 1000]))
    off = draw(st.sampled_from([0, 0, 0, -3, 1000, 1e6]))
    return [[off + scale * p[0], off + scale * p[1], float(i % 3)] for i, p in enumerate(pts)]


@st.composite
def _float_track(draw):
    n = draw(_SIZE)
    mag = draw(st.sampled_from([1.0, 1e3, 1e6]))
    f = st.integers(-2 ** 40, 2 ** 40).map(lambda k: k / 2.0 ** 40)     # 41-bit fractions: no subnormal legs, squares never underflow
    off = draw(st.sampled_from([0.0, 0.0, 1e6]))
    pts = [[off + mag * draw(f), off + mag * draw(f), draw(st.sampled_from([0.0, 1.5, -2.0]))] for _ in range(n)]
    if draw(st.integers(0, 3)) == 0:       # closed float loop
        pts[-1] = [pts[0][0], pts[0][1], pts[-1][2]]
    if n >= 3 and draw(st.integers(0, 3)) == 0:   # exact duplicate of a float fix
        i = draw(st.integers(0, n - 2))
        pts[i + 1] = [pts[i][0], pts[i][1], pts[i + 1][2]]
    return pts


@st.composite
def strat_track(draw):
    pts = draw(st.one_of(_lattice_track(), _lattice_track(), _float_track()))
    ext = _extent(pts)
    kind = draw(st.sampled_from(["factor", "factor", "aligned", "tie", "tie"]))
    if kind == "factor":
        tol = ext * draw(st.sampled_from([1e-3, 0.01, 0.1, 0.1, 0.3, 0.3, 1.0, 10.0, 1e3]))
    elif kind == "aligned":
        unit = min([abs(pts[i + 1][j] - pts[i][j]) for i in range(len(pts) - 1) for j in (0, 1)
                    if pts[i + 1][j] != pts[i][j]] or [1.0])
        tol = unit * draw(st.sampled_from([0.5, 1.0, 2.0, math.sqrt(2), math.sqrt(0.5), 5.0]))
    else:                           # exactly the distance of one fix from the end-to-end chord
        k = draw(st.integers(0, len(pts) - 1))
        tol = oracle.pt_seg_dist(pts[k][0], pts[k][1], pts[0][0], pts[0][1], pts[-1][0], pts[-1][1])
        if not tol > 0:
            tol = 0.1 * ext
    mode = draw(st.sampled_from(["dp", "dp", "vv"]))
    return {"mode": mode, "pts": pts, "tol": tol}


def body_track(case):
    return _check(case)


RULE = ("small: every track of 2..3 (quick) / 2..4 (thorough) fixes on the lattice {0,1,2}^2, each under both algorithms and "
        "tolerances {0.25, 0.5, sqrt(1/2), 1, 1.5, 3}; tracks: Hypothesis - lattice tracks (free, random walks with zero steps, "
        "straight runs, closed loops, revisits, all-identical, one-spike lines; scaled/offset) and float tracks (with closed "
        "loops and exact duplicates), tolerance = extent x {1e-3..1e3} | lattice-aligned | exact distance of a fix from the chord. "
        "Non-trivial: the track has a consecutive duplicate, a revisited position, coincident ends or a collinear triple AND the "
        "output is strictly shorter than the input. Distinct = hash of the case.")

# coverage-guided stage of the thorough tier (vt/fuzz.py): sub-check -> libFuzzer executions
FUZZ = {'tracks': 15000}

SUBCHECKS = [
    SubCheck("small", body_small, enum=enum_small, rule="all lattice tracks of <= 3/4 fixes x 2 algorithms x 6 tolerances",
             qshards=4, tshards=16),
    SubCheck("tracks", body_track, strategy=strat_track, quick=12000, thorough=200000, qshards=8),
]
