"""C16 - Douglas-Peucker / Visvalingam simplification: keeps the two end fixes, only drops fixes
(output = subsequence of the input observations), never fails on duplicates / revisits / closed
loops; Douglas-Peucker additionally keeps every input fix within the tolerance of its output.

Oracle (independent of tracklib): record matcher on (x, y, z, t) + own point-polyline distance.

A case is one Track object and a HISTORY of calls on it: the first call (case["mode"], case["tol"]) and then
case["more"] = [{"edit": ..., "mode": ..., "tol": ...}, ...]: each further call is preceded by an in-place edit of the
SAME Track object (a fix moved with setX/setY, a fix appended with addObs, a fix removed with removeObs, or no edit).
The model (list of fixes and timestamps) is edited alongside, and EVERY call is judged with the full oracle against
the model as it is at the time of that call.  case["ints"] hands integer-valued coordinates to tracklib as Python
ints (gen.make_track(..., ints=True)); the oracle works on the same numbers as floats."""
import itertools
import math

from hypothesis import strategies as st

from tracklib.algo.simplification import (MODE_SIMPLIFY_DOUGLAS_PEUCKER, MODE_SIMPLIFY_VISVALINGAM,
                                          simplify)

from tracklib.core.obs import Obs
from tracklib.core.obs_coords import ENUCoords

from vt import gen, oracle
from vt.core import HarnessError, SubCheck, Violation, exc_key

MODES = {"dp": MODE_SIMPLIFY_DOUGLAS_PEUCKER, "vv": MODE_SIMPLIFY_VISVALINGAM}

ASSUMPTIONS = [
    "tracks are ENU, 2..12 fixes (enumerated part: 2..4 fixes on {0,1,2}^2), strictly increasing timestamps "
    "1 s apart, so every observation record (x, y, z, t) is unique and the subsequence embedding is unique",
    "coordinate type: floats, or (case['ints']) Python ints wherever the value is integer-valued - same numbers, same oracle",
    "history on one Track object (case['more'], 0..3 further calls): between two calls the object may be edited in place "
    "(position.setX/setY of one fix, addObs of a later-stamped fix, removeObs of any fix while >= 3 remain, or nothing); "
    "either algorithm and any tolerance at every call; each call is judged against the fixes the object holds at that "
    "time (model kept from the case data, never read back from tracklib); timestamps stay strictly increasing",
    "float tracks: coordinates = offset + magnitude * k/2^40 (|k| <= 2^40), magnitude in {1, 1e3, 1e6}, so two coordinates are "
    "equal or differ by >= 2^-40 ~ 9e-13 (squares of legs do not underflow - neither in tracklib nor in the reference distance)",
    "tolerance > 0 and finite, from 1e-3 x extent to 1e3 x extent, plus lattice-aligned values, values equal to "
    "the exact distance of a fix from the end-to-end chord (ties with the tolerance) and values d*(1 +- f), f in 1e-6..0.2, "
    "around the distance d of a fix from the chord of two other fixes (tolerances close to the actual deviations)",
    "Douglas-Peucker bound: planar distance of every input fix to the output polyline <= tol + 1e-9*(tol + max|coordinate|) "
    "(reference: clamped-projection point-segment distance in vt/oracle.py; the slack covers tracklib's own rounding "
    "when it compares its computed distance with the tolerance)",
    "for Visvalingam only 'no failure, subsequence, both end fixes kept' is demanded (the statement gives no error bound for it)",
    "the input track not being modified, and the analytical features of the output, are not part of the statement",
]


# ------------------------------------------------------------------------------------------------
# model helpers
def _extent(pts):
    xs = [p[0] for p in pts]
    ys = [p[1] for p in pts]
    e = max(max(xs) - min(xs), max(ys) - min(ys))
    return e if e > 0 else 1.0


def _collinear_triple(pts):
    for i in range(len(pts) - 2):
        (x0, y0), (x1, y1), (x2, y2) = pts[i][:2], pts[i + 1][:2], pts[i + 2][:2]
        if (x1 - x0) * (y2 - y1) - (x2 - x1) * (y1 - y0) == 0:
            return True
    return False


def _features_of(pts):
    xy = [(p[0], p[1]) for p in pts]
    cls = []
    if any(xy[i] == xy[i + 1] for i in range(len(xy) - 1)):
        cls.append("consecutive-duplicate")
    if len(set(xy)) < len(xy) - sum(1 for i in range(len(xy) - 1) if xy[i] == xy[i + 1]):
        cls.append("revisit")
    if xy[0] == xy[-1]:
        cls.append("coincident-ends")
    if len(set(xy)) == 1:
        cls.append("all-identical")
    if _collinear_triple(pts):
        cls.append("collinear-triple")
    return cls


def _judge(mode, pts3, times, tol, out, what):
    """full oracle for one call: subsequence + both end fixes (+ tolerance for Douglas-Peucker); returns kept indices"""
    n = len(pts3)
    want = [(p[0], p[1], p[2], t) for p, t in zip(pts3, times)]
    got = [r[:4] for r in gen.track_records(out)]
    # -- subsequence (records are unique, so the embedding is unique) -----------------------------
    idx = []
    k = 0
    for r in got:
        while k < n and want[k] != r:
            k += 1
        if k == n:
            who = "an observation that is not in the input (or out of order)"
            raise Violation(mode + "-not-a-subsequence", "%soutput record %s is %s; input %s, tol %r, output %s" % (
                what, (r,), who, pts3, tol, got))
        idx.append(k)
        k += 1
    # -- end points ----------------------------------------------------------------------------------
    if not idx or idx[0] != 0:
        raise Violation(mode + "-first-fix-dropped", "%sinput %s tol %r -> kept indices %s" % (what, pts3, tol, idx))
    if idx[-1] != n - 1:
        raise Violation(mode + "-last-fix-dropped", "%sinput %s tol %r -> kept indices %s" % (what, pts3, tol, idx))
    # -- tolerance (Douglas-Peucker only) -----------------------------------------------------------
    if mode == "dp":
        kept = [pts3[i] for i in idx]
        scale = max(max(abs(p[0]), abs(p[1])) for p in pts3)
        bound = tol + 1e-9 * (tol + scale)
        for i, p in enumerate(pts3):
            d = oracle.pt_polyline_dist(p[0], p[1], kept)
            if d > bound:
                raise Violation("dp-tolerance-exceeded", "%sfix %d %s is %r away from the simplified line %s, tol %r" % (
                    what, i, p, d, kept, tol))
    return idx


def _cls_call(mode, pts3, tol, idx):
    n = len(pts3)
    cls = _features_of(pts3)
    special = bool(cls)
    shorter = len(idx) < n
    cls = [mode + ":" + c for c in cls] or [mode + ":plain"]
    cls.append(mode + (":ends-only" if len(idx) == 2 and n > 2 else ":shorter" if shorter else ":unchanged"))
    cls.append("n=%d" % n)
    ext = _extent(pts3)
    cls.append("tol<extent/100" if tol < ext / 100 else "tol>=extent" if tol >= ext else "tol-mid")
    chord = [oracle.pt_seg_dist(p[0], p[1], pts3[0][0], pts3[0][1], pts3[-1][0], pts3[-1][1]) for p in pts3]
    if any(abs(d - tol) <= 1e-12 * tol for d in chord):
        cls.append(mode + ":tol==distance-of-a-fix-from-the-chord")
        if abs(max(chord) - tol) <= 1e-12 * tol:
            cls.append(mode + ":tol==distance-of-the-farthest-fix")
    elif any(d > 0 and abs(d - tol) <= 0.25 * d for d in chord):
        cls.append(mode + ":tol-within-25%-of-a-fix-chord-distance")
    return special and shorter, cls


def _num(v, ints):
    return gen.as_int_if_integral(float(v)) if ints else float(v)


def _simplify(tr, tol, mode, n):
    try:
        return simplify(tr, tol, MODES[mode])
    except IndexError as e:
        if mode == "vv" and exc_key(e) == "exc:IndexError:getObsAnalyticalFeature":
            # the elimination loop read '@aire' of fix 0 of a track it has emptied.  Root cause: nothing protects the
            # end fixes and nothing stops the elimination at two fixes
            raise Violation("visvalingam-removes-everything",
                            "visvalingam(%d fixes, eps=%r) raised IndexError: %s" % (n, tol, e))
        raise


def _check(case):
    mode, pts, tol = case["mode"], case["pts"], float(case["tol"])
    ints = bool(case.get("ints"))
    more = case.get("more") or []
    n = len(pts)
    if n < 2 or not (tol > 0) or math.isinf(tol):
        return {"undef": True}
    if any(not (float(st_["tol"]) > 0) or math.isinf(float(st_["tol"])) for st_ in more):
        return {"undef": True}
    pts3 = [(float(p[0]), float(p[1]), float(p[2]) if len(p) > 2 else 0.0) for p in pts]
    t0 = gen.ms_of_fields(2020, 1, 1)
    times = [t0 + 1000 * i for i in range(n)]
    tr = gen.make_track(pts3, times, ints=ints)

    out = _simplify(tr, tol, mode, n)
    idx = _judge(mode, pts3, times, tol, out, "")
    nt, cls = _cls_call(mode, pts3, tol, idx)
    integral = all(float(c) == int(c) for p in pts3 for c in p[:2])
    if ints:
        cls.append("ints:all-xy-handed-over-as-int" if integral else "ints:some-xy-not-integer-valued")
    else:
        cls.append("floats:integer-valued-xy" if integral else "floats")
    cls.append("history:%d-further-calls" % len(more))

    # -- further calls on the SAME Track object, each after an in-place edit; each judged in full -------------
    prev_mode = mode
    for step, st_ in enumerate(more):
        edit = st_.get("edit")
        kind = edit[0] if edit else "none"
        if kind == "move":
            i = edit[1] % len(pts3)
            x, y = float(edit[2]), float(edit[3])
            pos = tr.getObs(i).position
            pos.setX(_num(x, ints))
            pos.setY(_num(y, ints))
            pts3[i] = (x, y, pts3[i][2])
        elif kind == "add":
            x, y, z = float(edit[1]), float(edit[2]), float(edit[3])
            t = times[-1] + 1000
            tr.addObs(Obs(ENUCoords(_num(x, ints), _num(y, ints), _num(z, ints)), gen.obstime_of_ms(t)))
            pts3.append((x, y, z))
            times.append(t)
        elif kind == "remove":
            if len(pts3) <= 2:
                kind = "none"                    # fewer than 2 fixes is outside the property
            else:
                i = edit[1] % len(pts3)
                tr.removeObs(i)
                del pts3[i]
                del times[i]
        elif kind != "none":
            raise HarnessError("unknown edit %r" % (edit,))
        if tr.size() != len(pts3):
            raise Violation("edit-size-wrong", "after edit %r the track has %d fixes, model %d" % (edit, tr.size(), len(pts3)))
        m2, tol2 = st_["mode"], float(st_["tol"])
        what = "call %d of a history on one Track object (after edit %r; earlier calls %s): " % (
            step + 2, edit, [(mode, tol)] + [(s["mode"], s["tol"]) for s in more[:step]])
        out = _simplify(tr, tol2, m2, len(pts3))
        idx = _judge(m2, pts3, times, tol2, out, what)
        nt2, cls2 = _cls_call(m2, pts3, tol2, idx)
        nt = nt or nt2
        cls.extend(c for c in cls2 if c not in cls)
        cls.append("history:edit-" + kind)
        cls.append("history:%s-after-%s" % (m2, prev_mode) + ("-edited" if kind != "none" else "-unedited"))
        prev_mode = m2
    return {"nt": nt, "cls": sorted(set(cls))}


# ------------------------------------------------------------------------------------------------
# (i) exhaustive: every track of 2..nmax fixes on {0,1,2}^2, both algorithms, lattice-aligned tolerances
ENUM_TOLS = [0.25, 0.5, math.sqrt(0.5), 1.0, 1.5, 3.0]       # 0.5, sqrt(1/2), 1 are exact fix-chord distances on the lattice
CELLS = [(x, y) for x in range(3) for y in range(3)]


def enum_small(tier):
    nmax = 4 if tier == "thorough" else 3
    for n in range(2, nmax + 1):
        for combo in itertools.product(range(9), repeat=n):
            yield {"n": n, "cells": list(combo)}


def body_small(case):
    pts = [[CELLS[c][0], CELLS[c][1], i] for i, c in enumerate(case["cells"])]
    cls = set()
    nt = False
    for mode in ("dp", "vv"):
        for tol in ENUM_TOLS:
            r = _check({"mode": mode, "pts": pts, "tol": tol})
            nt = nt or r["nt"]
            cls.update(c for c in r["cls"] if not c.startswith("tol") and not c.startswith("n="))
    cls.add("n=%d" % case["n"])
    return {"nt": nt, "cls": sorted(cls)}


# ------------------------------------------------------------------------------------------------
# (ii) generated tracks
_STEPS = [(0, 0), (1, 0), (1, 0), (0, 1), (0, 1), (-1, 0), (0, -1), (1, 1), (-1, 1), (1, -1), (2, 0), (0, 2), (2, 1), (1, 2)]


_SIZE = st.sampled_from([3, 4, 5, 6, 7, 8, 9, 10, 11, 12, 2, 3, 4, 5, 6, 8, 12])     # 2..12, two-fix tracks kept rare (they are returned as is)


@st.composite
def _lattice_track(draw):
    kind = draw(st.sampled_from(["free", "free", "walk", "walk", "runs", "closed", "revisit", "same", "spike"]))
    if kind == "free":
        n = draw(_SIZE)
        side = draw(st.sampled_from([1, 2, 4, 8]))
        pts = [(draw(st.integers(0, side)), draw(st.integers(0, side))) for _ in range(n)]
    elif kind == "walk":
        n = draw(_SIZE)
        x, y = draw(st.integers(0, 4)), draw(st.integers(0, 4))
        pts = [(x, y)]
        for _ in range(n - 1):
            dx, dy = draw(st.sampled_from(_STEPS))
            x, y = x + dx, y + dy
            pts.append((x, y))
    elif kind == "runs":           # a few straight runs: collinear triples and near-ties along the chord
        nrun = draw(st.integers(1, 3))
        x, y = 0, 0
        pts = [(x, y)]
        for _ in range(nrun):
            dx, dy = draw(st.sampled_from(_STEPS[1:]))
            for _ in range(draw(st.integers(1, 4))):
                if len(pts) < 12:
                    x, y = x + dx, y + dy
                    pts.append((x, y))
    elif kind == "closed":
        n = draw(st.integers(1, 11))
        pts = [(draw(st.integers(0, 4)), draw(st.integers(0, 4))) for _ in range(n)]
        pts.append(pts[0])
    elif kind == "revisit":
        n = draw(st.integers(2, 11))
        pts = [(draw(st.integers(0, 4)), draw(st.integers(0, 4))) for _ in range(n)]
        src = draw(st.integers(0, n - 1))
        dst = draw(st.integers(0, n))
        pts.insert(dst, pts[src])
    elif kind == "same":
        n = draw(_SIZE)
        p = (draw(st.integers(0, 4)), draw(st.integers(0, 4)))
        pts = [p] * n
    else:                          # spike: nearly straight line with one small excursion (Visvalingam removes everything)
        n = draw(st.integers(3, 12))
        k = draw(st.integers(1, n - 2))
        h = draw(st.sampled_from([0.01, 0.5, 1, 3]))
        pts = [(5 * i, h if i == k else 0) for i in range(n)]
    scale = draw(st.sampled_from([1, 1, 1, 0.125, 10, 1000]))
    off = draw(st.sampled_from([0, 0, 0, -3, 1000, 1e6]))
    return [[off + scale * p[0], off + scale * p[1], float(i % 3)] for i, p in enumerate(pts)]


@st.composite
def _float_track(draw):
    n = draw(_SIZE)
    mag = draw(st.sampled_from([1.0, 1e3, 1e6]))
    f = st.integers(-2 ** 40, 2 ** 40).map(lambda k: k / 2.0 ** 40)     # 41-bit fractions: no subnormal legs, squares never underflow
    off = draw(st.sampled_from([0.0, 0.0, 1e6]))
    pts = [[off + mag * draw(f), off + mag * draw(f), draw(st.sampled_from([0.0, 1.5, -2.0]))] for _ in range(n)]
    if draw(st.integers(0, 3)) == 0:       # closed float loop
        pts[-1] = [pts[0][0], pts[0][1], pts[-1][2]]
    if n >= 3 and draw(st.integers(0, 3)) == 0:   # exact duplicate of a float fix
        i = draw(st.integers(0, n - 2))
        pts[i + 1] = [pts[i][0], pts[i][1], pts[i + 1][2]]
    return pts


_NEAR = [1e-6, 1e-3, 0.01, 0.03, 0.06, 0.1, 0.2]


@st.composite
def _tolerance(draw, pts):
    ext = _extent(pts)
    n = len(pts)
    kind = draw(st.sampled_from(["factor", "factor", "aligned", "tie", "tie", "near", "near", "near"]))
    if kind == "near" and n < 3:
        kind = "factor"
    if kind == "factor":
        return ext * draw(st.sampled_from([1e-3, 0.01, 0.1, 0.1, 0.3, 0.3, 1.0, 10.0, 1e3]))
    if kind == "aligned":
        unit = min([abs(pts[i + 1][j] - pts[i][j]) for i in range(len(pts) - 1) for j in (0, 1)
                    if pts[i + 1][j] != pts[i][j]] or [1.0])
        return unit * draw(st.sampled_from([0.5, 1.0, 2.0, math.sqrt(2), math.sqrt(0.5), 5.0]))
    if kind == "tie":                 # exactly the distance of one fix from the end-to-end chord
        k = draw(st.integers(0, n - 1))
        tol = oracle.pt_seg_dist(pts[k][0], pts[k][1], pts[0][0], pts[0][1], pts[-1][0], pts[-1][1])
        return tol if tol > 0 else 0.1 * ext
    # near: just below / just above the deviation of fix k from the chord of fixes i < k < j (the end-to-end chord in
    # half of the draws): the decisions "farthest fix within the tolerance?" are then taken close to their threshold
    if draw(st.booleans()):
        i, j = 0, n - 1
    else:
        i = draw(st.integers(0, n - 3))
        j = draw(st.integers(i + 2, n - 1))
    k = draw(st.integers(i + 1, j - 1))
    d = oracle.pt_seg_dist(pts[k][0], pts[k][1], pts[i][0], pts[i][1], pts[j][0], pts[j][1])
    if not d > 0:
        far = max(oracle.pt_seg_dist(p[0], p[1], pts[i][0], pts[i][1], pts[j][0], pts[j][1]) for p in pts)
        d = far if far > 0 else 0.1 * ext
    return d * (1.0 + draw(st.sampled_from([-1.0, -1.0, 1.0])) * draw(st.sampled_from(_NEAR)))


@st.composite
def _edit(draw, pts):
    """an in-place edit of the track; new positions are lattice combinations of existing fixes (stay integer-valued
    on integer tracks) at distances comparable with the extent"""
    n = len(pts)
    kind = draw(st.sampled_from(["move", "move", "move", "add", "add", "remove", "none"]))
    if kind == "none" or (kind == "remove" and n <= 2):
        return None
    if kind == "remove":
        return ["remove", draw(st.sampled_from([0, n - 1, n - 1] + list(range(n))))]
    a, b, c = (draw(st.integers(0, n - 1)) for _ in range(3))
    m = draw(st.sampled_from([-3, -2, -1, 1, 1, 2, 3, 10]))
    vx, vy = pts[b][0] - pts[c][0], pts[b][1] - pts[c][1]
    if vx == 0 and vy == 0:
        ext = _extent(pts)
        vx, vy = draw(st.sampled_from([(ext, 0.0), (0.0, ext), (ext, ext), (-ext, 2 * ext)]))
    if draw(st.booleans()):
        vx, vy = -vy, vx                       # sideways of an existing direction
    x, y = pts[a][0] + m * vx, pts[a][1] + m * vy
    if kind == "move":
        return ["move", draw(st.integers(0, n - 1)), x, y]
    return ["add", x, y, float(n % 3)]


def _apply_edit(pts, edit):
    pts = [list(p) for p in pts]
    if edit is None:
        return pts
    if edit[0] == "move":
        pts[edit[1] % len(pts)][:2] = [edit[2], edit[3]]
    elif edit[0] == "add":
        pts.append([edit[1], edit[2], edit[3]])
    elif edit[0] == "remove" and len(pts) > 2:
        del pts[edit[1] % len(pts)]
    return pts


_MODE = st.sampled_from(["dp", "dp", "vv"])


@st.composite
def strat_track(draw):
    pts = draw(st.one_of(_lattice_track(), _lattice_track(), _float_track()))
    case = {"mode": draw(_MODE), "pts": pts, "tol": draw(_tolerance(pts)), "ints": draw(st.booleans()), "more": []}
    cur = pts
    for _ in range(draw(st.sampled_from([0, 0, 0, 1, 1, 1, 2, 3]))):
        edit = draw(_edit(cur))
        cur = _apply_edit(cur, edit)
        tol = case["tol"] if draw(st.integers(0, 2)) == 0 else draw(_tolerance(cur))
        case["more"].append({"edit": edit, "mode": draw(_MODE), "tol": tol})
    return case


def body_track(case):
    return _check(case)


RULE = ("small: every track of 2..3 (quick) / 2..4 (thorough) fixes on the lattice {0,1,2}^2, each under both algorithms and "
        "tolerances {0.25, 0.5, sqrt(1/2), 1, 1.5, 3}; tracks: Hypothesis - lattice tracks (free, random walks with zero steps, "
        "straight runs, closed loops, revisits, all-identical, one-spike lines; scaled/offset) and float tracks (with closed "
        "loops and exact duplicates), tolerance = extent x {1e-3..1e3} | lattice-aligned | exact distance of a fix from the chord | "
        "deviation of a fix from the chord of two other fixes x (1 +- {1e-6..0.2}); half of the cases hand integer-valued "
        "coordinates over as Python ints; 5/8 of the cases continue with 1..3 further calls on the same Track object (either "
        "algorithm, same or new tolerance), each after an in-place edit (fix moved by a lattice combination of existing legs, "
        "fix appended, fix removed, no edit), every call judged against the fixes at that time. "
        "Non-trivial: the track has a consecutive duplicate, a revisited position, coincident ends or a collinear triple AND the "
        "output is strictly shorter than the input. Distinct = hash of the case.")

# coverage-guided stage of the thorough tier (vt/fuzz.py): sub-check -> libFuzzer executions
FUZZ = {'tracks': 15000}

SUBCHECKS = [
    SubCheck("small", body_small, enum=enum_small, rule="all lattice tracks of <= 3/4 fixes x 2 algorithms x 6 tolerances",
             qshards=4, tshards=16),
    SubCheck("tracks", body_track, strategy=strat_track, quick=12000, thorough=200000, qshards=8),
]
