"""C09 - HMM.estimate (Viterbi) returns a maximum-likelihood state sequence.
Oracle: full enumeration of all S_0 x ... x S_{T-1} sequences (never a dynamic programme)."""
import itertools
import math

import numpy as np
from hypothesis import strategies as st

from tracklib.algo.dynamics import HMM

from vt import gen
from vt.core import SubCheck, Violation

SMOOTH = 1e-300          # documented: Qlog/Plog take log(p + 1e-300)
REL = 1e-9
ABS = 1e-9               # costs can be exactly 0 (all likelihoods 1)
FLOAT_LO = 1e-6          # non-zero likelihoods >= 1e-6: then "minimum smoothed cost" and "maximum product" agree
                         # (a zero costs 690.8, 15 factors of 1e-6 cost 207)

ASSUMPTIONS = [
    "cost of a sequence = sum_k -log(P[k][s_k] + 1e-300) + sum_k -log(Q[k][s_k][s_k+1] + 1e-300) (the smoothing Plog/Qlog document)",
    "Q(s1, s2, k, track): s1 in S(k), s2 in S(k+1) (docstring of HMM); P(s, y, k, track): y = observation of epoch k",
    "likelihoods are 0 or in [1e-6, 4]; T <= 8 epochs, 1..5 candidate states per epoch, labels unique within an epoch",
    "enumeration oracle: every one of the prod(S_k) <= 5^8 sequences is scored; comparisons 1e-9 relative (+1e-9 absolute)",
    "log=True clause on likelihood tables: only on strictly positive tables (log 0 is undefined)",
    "log mode with tables of their own (model fields LP, LQ instead of P, Q; log=True through the constructor or setLog): the "
    "callbacks return the table entries as they are; log mode applies no smoothing (Qlog/Plog return the value unchanged), so the "
    "cost of a sequence is sum(-LP) + sum(-LQ), whatever the magnitude: entries in [-5625, 50] (far below log(1e-300) = -690.78, "
    "around it, positive = unnormalised likelihood > 1, ties) and -inf (likelihood 0).  A -inf entry makes every sequence through it "
    "impossible (cost +inf); the decoding is judged when the enumeration minimum is finite (the decoded sequence and hmm_cost[last] "
    "must attain it, tolerance 1e-9 relative + 1e-9 + 1e-13 x sum of the largest |entry| per table), a model whose every sequence "
    "is impossible is not executed (nothing defined); +inf / NaN entries are outside the domain",
    "history: the statement holds for every call of estimate, so a decoding is judged against the enumeration of the model of THAT call, "
    "whether the track is new, was decoded before (with this or another model, other candidate counts) or already carries "
    "features named hmm_inference / hmm_cost; the epoch count of a track is fixed, the observation features are not touched",
    "hand-over of the candidates: the states callback may return a new list per call, one list object per epoch, or the SAME list object "
    "for consecutive / all epochs with equal candidates (fixed state space); the tables P[k], Q[k] stay epoch-dependent in every case",
]

LABEL_POOL = [0, 1, 2, -1, "a", "b", [0, 1], [1, 0], "s0", 7]
TERN = [0.0, 0.5, 1.0]


def _nl(p):
    return -math.log(p + SMOOTH)


def _label(v):
    return tuple(_label(x) for x in v) if isinstance(v, list) else v


def _le(a, b):
    """a <= b up to the comparison tolerance"""
    return a <= b + ABS + REL * max(abs(a), abs(b))


# --- oracle ---------------------------------------------------------------------------------------
def _neg(v):
    return -v


def seq_cost(P, Q, idx, direct=False):
    """direct: the tables hold log-likelihoods themselves (log mode, no smoothing applies): cost = sum of (-value)"""
    f = _neg if direct else _nl
    c = 0.0
    for k, i in enumerate(idx):
        c += f(P[k][i])
    for k in range(len(idx) - 1):
        c += f(Q[k][idx[k]][idx[k + 1]])
    return c


def _scale(P, Q):
    """upper bound of the sum of |finite term| along any sequence of direct log tables (rounding errors of the two
    summation orders are proportional to it, also where terms of both signs cancel)"""
    fin = lambda vs: max([abs(v) for v in vs if abs(v) != math.inf] + [0.0])
    return sum(fin(r) for r in P) + sum(fin([v for row in m for v in row]) for m in Q)


def seq_prod(P, Q, idx):
    v = 1.0
    for k, i in enumerate(idx):
        v *= P[k][i]
    for k in range(len(idx) - 1):
        v *= Q[k][idx[k]][idx[k + 1]]
    return v


def enumerate_direct(LP, LQ):
    """direct log tables: (min over ALL sequences of sum(-value), None, number of sequences within tolerance of it);
    -inf entries give +inf costs (never NaN: +inf entries are outside the domain)"""
    shape = [len(r) for r in LP]
    T = len(shape)
    C = np.zeros(shape)
    for k in range(T):
        sh = [1] * T
        sh[k] = shape[k]
        C = C + (-np.array(LP[k], dtype=float)).reshape(sh)
    for k in range(T - 1):
        sh = [1] * T
        sh[k], sh[k + 1] = shape[k], shape[k + 1]
        C = C + (-np.array(LQ[k], dtype=float)).reshape(sh)
    cmin = float(C.min())
    if cmin == math.inf:
        return cmin, None, int(C.size)
    tol = ABS + REL * abs(cmin) + 1e-13 * _scale(LP, LQ)
    return cmin, None, int((C <= cmin + tol).sum())


def enumerate_all(P, Q, direct=False):
    """(min cost, max product, number of sequences within tolerance of the min cost) over ALL sequences."""
    if direct:
        return enumerate_direct(P, Q)
    shape = [len(r) for r in P]
    total = 1
    for s in shape:
        total *= s
    if total <= 64:
        costs, prods = [], []
        for idx in itertools.product(*[range(s) for s in shape]):
            costs.append(seq_cost(P, Q, idx))
            prods.append(seq_prod(P, Q, idx))
        cmin = min(costs)
        return cmin, max(prods), sum(1 for c in costs if _le(c, cmin))
    T = len(shape)
    C = np.zeros(shape)
    L = np.ones(shape)
    for k in range(T):
        sh = [1] * T
        sh[k] = shape[k]
        C = C + np.array([_nl(p) for p in P[k]]).reshape(sh)
        L = L * np.array(P[k], dtype=float).reshape(sh)
    for k in range(T - 1):
        sh = [1] * T
        sh[k], sh[k + 1] = shape[k], shape[k + 1]
        C = C + np.array([[_nl(q) for q in row] for row in Q[k]]).reshape(sh)
        L = L * np.array(Q[k], dtype=float).reshape(sh)
    cmin = float(C.min())
    ties = int((C <= cmin + ABS + REL * abs(cmin)).sum())
    return cmin, float(L.max()), ties


# --- running tracklib on a model --------------------------------------------------------------------
SHARE_MODES = ["fresh", "epoch", "run", "content"]


def _new_track(T, obs, prefilled=False):
    nobs = len(obs[0])
    names = ["obs_a", "obs_b"][:nobs]
    feats = {names[j]: [obs[k][j] for k in range(T)] for j in range(nobs)}
    track = gen.make_track([(float(k), 0.0) for k in range(T)], features=feats)
    if prefilled:
        # the output features exist already (left by somebody else), with values that are no candidates / no costs
        track.createAnalyticalFeature("hmm_cost", [-5.0] * T)
        track.createAnalyticalFeature("hmm_inference", ["?"] * T)
    return track


def _handover(states, share):
    """How the states callback hands the candidate lists over.  fresh: a new list at every call; epoch: one list
    object per epoch (equal contents are still distinct objects); run: consecutive epochs with equal candidates get
    the SAME list object; content: all epochs with equal candidates (adjacent or not) get the same object.
    Returns (callback table or None, length of the longest run of consecutive epochs served by one object)."""
    T = len(states)
    if share == "fresh":
        return None, 1
    if share == "epoch":
        return [list(r) for r in states], 1
    objs = []
    if share == "run":
        for k in range(T):
            objs.append(objs[k - 1] if k and states[k] == states[k - 1] else list(states[k]))
    else:
        seen = []
        for k in range(T):
            for o in seen:
                if o == states[k]:
                    objs.append(o)
                    break
            else:
                seen.append(list(states[k]))
                objs.append(seen[-1])
    longest = run = 1
    for k in range(1, T):
        run = run + 1 if objs[k] is objs[k - 1] else 1
        longest = max(longest, run)
    return objs, longest


def _decode(states, P, Q, obs, log, api, verbose, track=None, share="fresh", direct=False):
    """Runs HMM.estimate on `track` (a fresh one if None); returns (list of decoded indices, hmm_cost at the last epoch).
    direct: P, Q are log-likelihood tables handed over as they are (requires log=True)."""
    assert log or not direct
    T = len(states)
    nobs = len(obs[0])
    names = ["obs_a", "obs_b"][:nobs]
    if track is None:
        track = _new_track(T, obs)
    index = [{s: i for i, s in enumerate(row)} for row in states]
    objs, _ = _handover(states, share)

    def tab(v):
        return v if direct or not log else math.log(v)

    def S(t, k):
        return list(states[k]) if objs is None else objs[k]

    def Pf(s, y, k, t):
        if not (isinstance(k, int) and 0 <= k < T) or s not in index[k]:
            raise Violation("callback-contract:P", "P(s=%r, k=%r): s is not a candidate of epoch k" % (s, k))
        want = obs[k][0] if nobs == 1 else list(obs[k])
        if y != want:
            raise Violation("callback-contract:P", "P(k=%r) got observation %r, epoch k carries %r" % (k, y, want))
        return tab(P[k][index[k][s]])

    def Qf(s1, s2, k, t):
        if not (isinstance(k, int) and 0 <= k < T - 1) or s1 not in index[k] or s2 not in index[k + 1]:
            raise Violation("callback-contract:Q", "Q(s1=%r, s2=%r, k=%r): need s1 in S(k), s2 in S(k+1)" % (s1, s2, k))
        return tab(Q[k][index[k][s1]][index[k + 1][s2]])

    if api == 0:
        model = HMM(S, Qf, Pf, log=log)
    else:
        model = HMM()
        model.setStates(S)
        model.setTransitionModel(Qf)
        model.setObservationModel(Pf)
        model.setLog(log)
    model.estimate(track, names[0] if nobs == 1 else names, verbose=verbose)
    if track.size() != T:
        raise Violation("track-resized", "track has %d observations after estimate, had %d" % (track.size(), T))
    out = []
    for k in range(T):
        s = track.getObsAnalyticalFeature("hmm_inference", k)
        try:
            i = index[k].get(s)
        except TypeError:
            i = None
        if i is None:
            raise Violation("decoded-not-candidate", "hmm_inference[%d] = %r is not in %r" % (k, s, states[k]))
        out.append(i)
    return out, track.getObsAnalyticalFeature("hmm_cost", T - 1)


def _positive(P, Q):
    return all(v > 0 for row in P for v in row) and all(v > 0 for m in Q for row in m for v in row)


def _judge(idx, last, P, Q, cmin, pmax, log, what, direct=False):
    """One decoding against the enumeration of ITS model (whatever was decoded on the track before)."""
    pre = "log-mode-" if log else "decoded-"
    c = seq_cost(P, Q, idx, direct)
    slack = 1e-13 * _scale(P, Q) if direct else 0.0

    def le(a, b):
        return _le(a, b + slack)

    if not le(c, cmin):
        raise Violation(pre + "suboptimal", "%sdecoded %r costs %r, enumeration minimum %r; %s"
                        % ("log=True " if log else "", idx, c, cmin, what))
    if not (isinstance(last, (int, float)) and le(last, cmin) and le(cmin, last)):
        raise Violation("log-mode-last-cost-wrong" if log else "last-cost-wrong",
                        "%shmm_cost[last] = %r, enumeration minimum %r; %s" % ("log=True " if log else "", last, cmin, what))
    if not log:
        p = seq_prod(P, Q, idx)
        if p < pmax * (1 - REL):
            raise Violation("product-not-maximal", "decoded %r has likelihood %r, maximum %r; %s" % (idx, p, pmax, what))


def _model_classes(states, P, Q, cmin, pmax, ties, positive, with_log):
    T = len(states)
    sizes = [len(r) for r in states]
    greedy = [max(range(len(r)), key=lambda i: (r[i], -i)) for r in P]
    greedy_opt = _le(seq_cost(P, Q, greedy), cmin)
    nt = T >= 2 and max(sizes) >= 2 and not greedy_opt
    cls = ["T=1" if T == 1 else "T=2-3" if T <= 3 else "T=4-8"]
    if max(sizes) >= 2:
        cls.append("greedy-optimal" if greedy_opt else "greedy-suboptimal")
    else:
        cls.append("single-path")
    if ties >= 2:
        cls.append("tied-optimum")
    if not positive:
        cls.append("has-zero")
        if pmax == 0:
            cls.append("every-path-zero")
    elif with_log:
        cls.append("log-clause")
    if len(set(sizes)) > 1:
        cls.append("sizes-vary")
    return nt, cls


LOG_FLOOR = math.log(1e-300)          # ~ -690.78: what a null likelihood becomes in linear mode; no bound in log mode


def _direct_classes(states, LP, LQ, cmin, ties, idx):
    """labels of a model given by log tables; idx = the accepted (optimal) decoding"""
    T = len(states)
    sizes = [len(r) for r in states]
    greedy = [max(range(len(r)), key=lambda i: (r[i], -i)) for r in LP]
    greedy_opt = seq_cost(LP, LQ, greedy, True) <= cmin + ABS + REL * abs(cmin) + 1e-13 * _scale(LP, LQ)
    nt = T >= 2 and max(sizes) >= 2 and not greedy_opt
    vals = [v for r in LP for v in r] + [v for m in LQ for row in m for v in row]
    used = [LP[k][i] for k, i in enumerate(idx)] + [LQ[k][idx[k]][idx[k + 1]] for k in range(T - 1)]
    cls = ["log-direct", "log-direct:" + ("T=1" if T == 1 else "T=2-3" if T <= 3 else "T=4-8")]
    if max(sizes) >= 2:
        cls.append("log-direct:greedy-optimal" if greedy_opt else "log-direct:greedy-suboptimal")
    if ties >= 2:
        cls.append("log-direct:tied-optimum")
    if any(v == -math.inf for v in vals):
        cls.append("log-direct:has-neg-inf")
    if any(v > 0 for v in vals):
        cls.append("log-direct:has-positive-log")
    if any(-math.inf < v < LOG_FLOOR for v in vals):
        cls.append("log-direct:has-value<log(1e-300)")
    if any(v < LOG_FLOOR for v in used):
        cls.append("log-direct:optimum-runs-through-value<log(1e-300)")
    if cmin < 0:
        cls.append("log-direct:optimal-cost-negative")
    return nt, cls


def check_model(states, P, Q, obs, api=0, verbose=0, with_log=True):
    """One model, every decoding on a fresh track, candidate lists built anew at every call."""
    cmin, pmax, ties = enumerate_all(P, Q)
    what = "states=%r P=%r Q=%r" % (states, P, Q)
    idx, last = _decode(states, P, Q, obs, False, api, verbose)
    _judge(idx, last, P, Q, cmin, pmax, False, what)
    positive = _positive(P, Q)
    if positive and with_log:
        idx2, last2 = _decode(states, P, Q, obs, True, api, verbose)
        _judge(idx2, last2, P, Q, cmin, pmax, True, what)
    nt, cls = _model_classes(states, P, Q, cmin, pmax, ties, positive, with_log)
    return {"nt": nt, "cls": cls}


# --- explicit models (Hypothesis) -----------------------------------------------------------------
def _states_of(m):
    return [[_label(s) for s in row] for row in m["states"]]


def body_model(case):
    """case = first model (+ "share", "track", "prefilled") and "then" = further models decoded afterwards.
    track == "same": ONE track object goes through all decodings (it carries hmm_inference / hmm_cost of the earlier
    ones); track == "fresh": a new track per decoding.  Every decoding gets the full enumeration oracle of its model."""
    obs = [o if isinstance(o, list) else [o] for o in case["obs"]]
    T = len(case["states"])
    same_track = case.get("track", "fresh") == "same"
    prefilled = bool(case.get("prefilled", False))
    models = [case] + list(case.get("then", []))
    track = _new_track(T, obs, prefilled) if same_track else None
    cls, nt, ndec, longest_all = [], False, 0, 1
    seen = []
    for j, m in enumerate(models):
        states = _states_of(m)
        direct = "LP" in m                    # log-likelihood tables of their own (log mode), not derived from likelihoods
        P, Q = (m["LP"], m["LQ"]) if direct else (m["P"], m["Q"])
        api, verbose, share = m.get("api", 0), m.get("verbose", 0), m.get("share", "fresh")
        cmin, pmax, ties = enumerate_all(P, Q, direct)
        positive = _positive(P, Q) if not direct else False
        what = "decoding %d of %d (track=%s share=%s%s) states=%r P=%r Q=%r" % (
            j + 1, len(models), case.get("track", "fresh"), share, " LOG VALUES" if direct else "", states, P, Q)
        if direct and cmin == math.inf:
            # every sequence runs through a -inf: all have likelihood 0, nothing is defined for this call - not executed
            cls.append("log-direct:every-path-impossible(skipped)")
            continue
        # first model: likelihoods, then (positive tables) logarithms, as before; later models: the drawn flag
        logs = [True] if direct else ([False, True] if positive else [False]) if j == 0 else [bool(m.get("log", False)) and positive]
        for log in logs:
            tr = track if same_track else _new_track(T, obs, prefilled)
            try:
                idx, last = _decode(states, P, Q, obs, log, api, verbose, tr, share, direct)
                _judge(idx, last, P, Q, cmin, pmax, log, what, direct)
            except Violation as v:
                # root-cause label: does the same model decode correctly on a new track / with lists built per call?
                used = prefilled or (same_track and ndec > 0)
                for cond, sh, pre in ((used, share, "on-used-track-"), (share != "fresh", "fresh", "shared-list-object-")):
                    if not cond:
                        continue
                    try:
                        i2, l2 = _decode(states, P, Q, obs, log, api, 0, None, sh, direct)
                        _judge(i2, l2, P, Q, cmin, pmax, log, what, direct)
                    except Violation:
                        continue
                    raise Violation(pre + v.key, v.msg)
                raise
            ndec += 1
        if direct:
            nt_j, cls_j = _direct_classes(states, P, Q, cmin, ties, idx)
            cls += cls_j
        else:
            nt_j, cls_j = _model_classes(states, P, Q, cmin, pmax, ties, positive, j == 0)
        nt = nt or nt_j
        if j == 0:
            cls += [] if direct else cls_j
            shared = any(set(states[k]) & set(states[k + 1]) for k in range(T - 1))
            cls.append("labels-shared-between-epochs" if shared else "labels-disjoint")
        else:
            key = (states, P, Q)
            cls.append("redecode:same-model" if key in seen else "redecode:other-model")
            if [len(r) for r in states] != [len(r) for r in _states_of(case)]:
                cls.append("redecode:other-state-counts")
        seen.append((states, P, Q))
        _, longest = _handover(states, share)
        longest_all = max(longest_all, longest)
        cls.append("share=" + share)
        if longest >= 3:
            cls.append("one-list-object-for>=3-epochs")
            if any(Q[k] != Q[k + 1] for k in range(T - 2)):
                cls.append("one-list-object-for>=3-epochs,Q-epoch-dependent")
        elif longest == 2:
            cls.append("one-list-object-for-2-epochs")
    cls.append("track=" + ("same" if same_track else "fresh"))
    if same_track:
        cls.append("decodings-on-one-track=%d" % ndec)
    if prefilled:
        cls.append("outputs-prefilled")
    if any(m.get("verbose", 0) for m in models):
        cls.append("verbose")
    return {"nt": nt, "cls": sorted(set(cls))}


def _draw_states(draw, T, force_states=None):
    """candidate lists of one model over T epochs"""
    lmode = draw(st.sampled_from(["perm", "perm", "same-order", "epoch-tagged", "runs", "runs", "one-list"]))
    if force_states is not None:
        states = force_states
        sizes = [len(r) for r in states]
    elif lmode in ("runs", "one-list"):
        # classic fixed state space: the same candidates for all epochs / for runs of consecutive epochs
        if lmode == "one-list":
            lens = [T]
        else:
            lens, left = [], T
            while left:
                n = draw(st.integers(1, min(left, 4)))
                lens.append(n)
                left -= n
        states = []
        for n in lens:
            row = list(draw(st.permutations(LABEL_POOL))[:draw(st.sampled_from([1, 2, 2, 3, 3, 4, 5]))])
            states += [list(row) for _ in range(n)]
        sizes = [len(r) for r in states]
    else:
        smode = draw(st.sampled_from(["free", "free", "free", "const", "two"]))
        if smode == "const":
            s = draw(st.integers(1, 5))
            sizes = [s] * T
        elif smode == "two":
            sizes = draw(st.lists(st.integers(1, 2), min_size=T, max_size=T))
        else:
            sizes = draw(st.lists(st.integers(1, 5), min_size=T, max_size=T))
        if lmode == "same-order":
            perm = draw(st.permutations(LABEL_POOL))
            states = [list(perm[:n]) for n in sizes]
        elif lmode == "epoch-tagged":
            states = [[[k, i] for i in range(n)] for k, n in enumerate(sizes)]
        else:
            states = [list(draw(st.permutations(LABEL_POOL))[:n]) for n in sizes]
    return states, sizes


NEG_INF = -math.inf


def _log_values(draw):
    """strategy of the entries of a log-likelihood table generated DIRECTLY (no likelihood table behind it): Gaussian
    log-densities -(d^2)/2, values far below log(1e-300) = -690.78, a lattice around that number, small values of both
    signs with ties, positive ones (unnormalised likelihood > 1), and -inf (likelihood 0) sprinkled in"""
    gauss = st.integers(0, 100).map(lambda d: -(d * d) / 2.0)
    gauss20 = st.integers(0, 1500).map(lambda d: -((d / 20.0) ** 2))          # MarkovRegularization style, down to -5625
    deep = st.floats(min_value=-5000.0, max_value=-700.0, allow_nan=False)
    deep_lat = st.sampled_from([-700.0, -800.0, -1000.0, -1012.5, -2500.0, -5000.0])
    around = st.sampled_from([-680.0, -690.0, -690.5, -690.75, -691.0, -692.0, -700.0, -720.5])
    small = st.sampled_from([-2.0, -1.0, -0.5, 0.0, 0.5, 1.0])
    pos = st.floats(min_value=0.0, max_value=50.0, allow_nan=False)
    wide = st.floats(min_value=-5000.0, max_value=50.0, allow_nan=False)
    vmode = draw(st.sampled_from(["gauss", "gauss20", "deep", "deep-lattice", "around-floor", "small", "positive", "wide",
                                  "mixed", "mixed"]))
    val = {"gauss": gauss, "gauss20": gauss20, "deep": deep, "deep-lattice": deep_lat, "around-floor": around, "small": small,
           "positive": st.one_of(pos, small), "wide": wide,
           "mixed": st.one_of(gauss, deep, deep_lat, around, small, wide)}[vmode]
    if draw(st.integers(0, 3)) == 0:
        val = st.one_of(val, val, val, val, val, val, val, val, val, st.just(NEG_INF))
    return val


@st.composite
def _tables(draw, T, force_states=None, direct=False):
    """states + P + Q of one model over T epochs; direct: states + LP + LQ (log-likelihood tables of their own)"""
    states, sizes = _draw_states(draw, T, force_states)
    if direct:
        val = _log_values(draw)
        LP = [draw(st.lists(val, min_size=n, max_size=n)) for n in sizes]
        LQ = [[draw(st.lists(val, min_size=sizes[k + 1], max_size=sizes[k + 1])) for _ in range(sizes[k])]
              for k in range(T - 1)]
        return {"states": states, "LP": LP, "LQ": LQ}
    vmode = draw(st.sampled_from(["lattice", "lattice", "tern", "float", "mixed", "positive-lattice"]))
    lat = st.sampled_from([0.0, 0.25, 0.5, 1.0, 2.0])
    flo = st.floats(min_value=FLOAT_LO, max_value=4.0, allow_nan=False, allow_infinity=False)
    val = {"lattice": lat, "tern": st.sampled_from(TERN), "float": flo, "mixed": st.one_of(lat, flo),
           "positive-lattice": st.sampled_from([0.25, 0.5, 1.0, 2.0])}[vmode]
    P = [draw(st.lists(val, min_size=n, max_size=n)) for n in sizes]
    Q = [[draw(st.lists(val, min_size=sizes[k + 1], max_size=sizes[k + 1])) for _ in range(sizes[k])]
         for k in range(T - 1)]
    return {"states": states, "P": P, "Q": Q}


_HOW = {"api": st.integers(0, 1), "verbose": st.sampled_from([0, 0, 0, 0, 1, 2, 3]),
        "share": st.sampled_from(["fresh", "fresh", "epoch", "run", "run", "content"])}


@st.composite
def _model(draw):
    T = draw(st.one_of(st.integers(1, 8), st.integers(2, 5)))
    case = draw(_tables(T, direct=draw(st.integers(0, 3)) == 0))
    nobs = draw(st.sampled_from([1, 1, 2]))
    oval = st.one_of(st.integers(-3, 3), st.sampled_from(["u", "v"]), st.just(0.5))
    if nobs == 1:
        case["obs"] = draw(st.lists(oval, min_size=T, max_size=T))
    else:
        case["obs"] = [draw(st.lists(oval, min_size=2, max_size=2)) for _ in range(T)]
    for f in ("api", "verbose", "share"):
        case[f] = draw(_HOW[f])
    # history: up to two further decodings; one track object for all of them, or a fresh track each time
    nthen = draw(st.sampled_from([0, 0, 1, 1, 2]))
    case["track"] = draw(st.sampled_from(["fresh", "same", "same"]))
    case["prefilled"] = draw(st.sampled_from([False, False, False, True]))
    then = []
    for _ in range(nthen):
        kind = draw(st.sampled_from(["other", "other", "other-tables", "same"]))
        direct = draw(st.integers(0, 2)) == 0
        if kind == "same":
            src = draw(st.sampled_from([case] + then))
            m = {f: src[f] for f in ("states", "P", "Q", "LP", "LQ") if f in src}
        elif kind == "other-tables":
            m = draw(_tables(T, force_states=case["states"], direct=direct))
        else:
            m = draw(_tables(T, direct=direct))
        for f in ("api", "verbose", "share"):
            m[f] = draw(_HOW[f])
        m["log"] = draw(st.booleans())
        then.append(m)
    case["then"] = then
    return case


def strat_model():
    return _model()


# --- exhaustive: T <= 3, <= 2 states per epoch, likelihoods {0, 1/2, 1} ---------------------------------
def _shapes(tier):
    out = []
    for T in (1, 2, 3):
        for sh in itertools.product((1, 2), repeat=T):
            if sh == (2, 2, 2) and tier != "thorough":
                continue
            out.append(list(sh))
    return out


def _nentries(shape):
    return sum(shape) + sum(shape[k] * shape[k + 1] for k in range(len(shape) - 1))


def enum_small(tier):
    for sh in _shapes(tier):
        for i in range(3 ** _nentries(sh)):
            yield {"shape": sh, "i": i}


def _decode_small(shape, i):
    digs = []
    for _ in range(_nentries(shape)):
        digs.append(TERN[i % 3])
        i //= 3
    it = iter(digs)
    P = [[next(it) for _ in range(n)] for n in shape]
    Q = [[[next(it) for _ in range(shape[k + 1])] for _ in range(shape[k])] for k in range(len(shape) - 1)]
    return P, Q


def body_small(case):
    shape = case["shape"]
    P, Q = _decode_small(shape, case["i"])
    # labels (epoch, position): disjoint between epochs, so a callback reached with the wrong epoch is visible
    states = [[(k, l) for l in range(n)] for k, n in enumerate(shape)]
    obs = [[k + 10] for k in range(len(shape))]
    info = check_model(states, P, Q, obs, 0, 0, with_log=True)
    info["cls"].append("shape=" + "x".join(str(s) for s in shape))
    return info


RULE = ("small: EVERY model with T <= 3 epochs, 1..2 states per epoch and all likelihood tables over {0, 1/2, 1} "
        "(quick: all shapes except 2x2x2 = 460 404 models; thorough: also 2x2x2 = 3^14 more), one case per model; "
        "models: Hypothesis, T 1..8, 1..5 states per epoch (free / constant / <=2 / one candidate list for all epochs / for runs of 1..4 "
        "consecutive epochs), labels from a 10-element pool "
        "(ints, strings, tuples; shared or disjoint between epochs), tables from {0,1/4,1/2,1,2}, {0,1/2,1}, floats in [1e-6,4] or mixed, "
        "1- or 2-dimensional observations, both ways of building the HMM, all verbose modes; each model is compared with the "
        "enumeration of all its sequences, and again with log=True when every table entry is positive. "
        "1 in 4 first models and 1 in 3 later models are LOG models generated directly (fields LP, LQ; no likelihood table behind them): "
        "entries from Gaussian log-densities -(d^2)/2 (d <= 100) / -(d/20)^2 (d <= 1500), floats in [-5000,-700], a lattice "
        "{-700..-5000}, a lattice around log(1e-300) = -690.78, {-2..1} with ties, floats in [0,50], floats in [-5000,50] or a mix, "
        "-inf sprinkled into 1 model of 4 (1 entry in 10); decoded once with log=True and compared with the enumeration of "
        "sum(-entry) (labels log-direct:*). "
        "Generated history: 0..2 further models (independent / same candidates with other tables / a copy of an earlier one, likelihoods or "
        "logarithms) decoded afterwards either on ONE track object (track=same; up to 4 decodings on it, optionally with hmm_inference / "
        "hmm_cost present before the first) or on a fresh track each (the previous behaviour); every decoding is judged by the enumeration "
        "of its own model.  Generated hand-over of the candidate lists per decoding: share = fresh (new list per call) / epoch (one object per "
        "epoch) / run (consecutive epochs with equal candidates get the same object) / content (all epochs with equal candidates do). "
        "Non-trivial: T >= 2, some epoch with >= 2 states and the per-epoch greedy argmax of P (LP) is not optimal (for some model of the case). "
        "Distinct = hash of the case.")

# --- wide epochs: hundreds of candidate states in one epoch (size is a dimension of "1..S candidate states") -------------
def _hv(a, b, c, mod=9973):
    """tie-free pseudo-random likelihood in (0, 1]: a fixed integer hash, so the case stays a few numbers"""
    return ((a * 7919 + b * 104729 + c * 1299709 + 12345) % mod + 1) / float(mod)


def enum_wide(tier):
    wide = [255, 256, 257, 300, 600] if tier == "quick" else [127, 128, 129, 255, 256, 257, 300, 511, 512, 513, 600, 1000, 1025]
    for S in wide:
        for k in range(3 if tier == "quick" else 8):
            for rest in ([1], [2], [3], [2, 2]):
                for pos in range(len(rest) + 1):            # the wide epoch first, in the middle, last
                    shape = rest[:pos] + [S] + rest[pos:]
                    for best in ("any", "high-index"):
                        yield {"shape": shape, "k": k, "best": best}


def body_wide(case):
    shape, k = case["shape"], case["k"]
    if len(shape) < 2 or max(shape) * min(shape) > 10 ** 6:
        return {"undef": True}
    wide = shape.index(max(shape))
    P = [[_hv(e, l, k) for l in range(n)] for e, n in enumerate(shape)]
    if case.get("best") == "high-index":
        # the likeliest candidates of the wide epoch sit at the END of its list (a list sorted by distance, worst first)
        P[wide] = sorted(P[wide])
    Q = [[[_hv(e * 1000 + l, m, k + 17) for m in range(shape[e + 1])] for l in range(shape[e])] for e in range(len(shape) - 1)]
    states = [[(e, l) for l in range(n)] for e, n in enumerate(shape)]
    obs = [[e + 10] for e in range(len(shape))]
    info = check_model(states, P, Q, obs, 0, 0, with_log=True)
    info["cls"] = [c for c in info["cls"] if not c.startswith("S=")] + ["wide=%d" % max(shape), "wide-epoch-%s" % (
        "first" if wide == 0 else "last" if wide == len(shape) - 1 else "middle"), "best-" + case.get("best", "any")]
    info["nt"] = True
    return info


SUBCHECKS = [
    SubCheck("wide", body_wide, enum=enum_wide, qshards=6, tshards=16,
             rule="models with one epoch of 255..600 (thorough 127..1025) candidate states next to epochs of 1..3, tie-free hashed "
                  "likelihoods, the likeliest candidates anywhere / at the end of the list; enumeration of all sequences"),
    SubCheck("small", body_small, enum=enum_small, qshards=10, tshards=16,
             rule="all models T<=3, <=2 states/epoch, likelihoods {0,1/2,1}"),
    SubCheck("models", body_model, strategy=strat_model, quick=6000, thorough=240000, qshards=6, tshards=16,
             rule="random models T<=8, S<=5, with a history of decodings on one track and shared candidate-list objects, vs. enumeration of all sequences"),
]
