"""C13 - tracks and networks written to file are read back unchanged.

Oracle: the case itself.  Every track / network is built from plain numbers held in the case, written
with the tracklib writer, read with the tracklib reader configured from the same choices (the pairing
is the one the test-suite's callers use: the caller sets ObsTime's print format before writing and the
read format before building the TrackFormat), and the objects returned by the reader are compared with
the numbers of the case to the precision the writer prints.

Files live in a fresh tempfile.mkdtemp() directory under /tmp per case, removed in a finally clause."""
import calendar
import itertools
import math
import os
import shutil
import tempfile

from hypothesis import strategies as st

from tracklib.core.obs import Obs
from tracklib.core.obs_coords import ENUCoords, GeoCoords, ECEFCoords
from tracklib.core.obs_time import ObsTime
from tracklib.core.track import Track
from tracklib.core.track_collection import TrackCollection
from tracklib.core.network import Network, Node, Edge
from tracklib.io.track_writer import TrackWriter
from tracklib.io.track_reader import TrackReader
from tracklib.io.track_format import TrackFormat
from tracklib.io.network_writer import NetworkWriter
from tracklib.io.network_reader import NetworkReader
from tracklib.io.network_format import NetworkFormat

from vt import gen
from vt.core import SubCheck, Violation

HANG_IS_VIOLATION = False      # cost depends on generated grid / file sizes: a CPU budget hit is inconclusive here
ASSUMPTIONS = [
    "writer and reader are paired as the test-suite's callers do: ObsTime.setPrintFormat(F) before writeToFile, "
    "ObsTime.setReadFormat(F) before the TrackFormat is built, the same column ids / separator / header flag / srid on both sides; "
    "GPX is read with read-format '4Y-2M-2DT2h:2m:2sZ'",
    "CSV column ids are a permutation of 0..k-1 (k = 2 + U + T); the separator does not occur in the time format when T is written",
    "coordinates finite; no E/N value whose integer part is the reader's no-data sentinel -999999; time zone 0; 1970..2099",
    "tolerance = half a unit of the last printed decimal (1e-3 m ENU/ECEF CSV, 1e-10 deg Geo CSV, 1e-8 GPX) + 2 ulp of the value; "
    "WKT / network geometry exact (str(float) round-trips)",
    "ids of tracks, nodes and edges are non-empty strings over [A-Za-z0-9_.-]",
    "WKT export is defined for ENU and geographic tracks only (Track.toWKT has no ECEF branch; 'planimetric' coordinates)",
    "the number of observations of a track is part of the domain: up to 65537 (quick: ~4100); large tracks are held in the case as "
    "a short description (size, integer seed, family, first stamp, step) and expanded by a fixed integer hash, every point through "
    "the same decoders as the small tracks; the comparison is still against these numbers, observation by observation",
    "a track / network object may be exported / written several times and edited in place in between (position.setX/setY, "
    "Track.setObs, obs.position replaced, Track.addObs, Track.translate / scale on ENU data, moving a node = both geometry ends "
    "and the Node); every export is judged against the coordinates the object holds at that time, recomputed from the case "
    "(set... values exactly; after translate / scale x + t / x * h to 4 ulp)",
]

SRID_CLASS = {"ENU": ENUCoords, "GEO": GeoCoords, "ECEF": ECEFCoords}
SRID_NAMES = {"ENU": ["ENU", "ENUCoords", "enu"], "GEO": ["GEO", "Geo", "GeoCoords"], "ECEF": ["ECEF", "ECEFCoords", "ecef"]}
DEC = {"ENU": 3, "ECEF": 3, "GEO": 10}            # decimals printed by the CSV writer
T_DEFAULT = "2D/2M/4Y 2h:2m:2s"
TIME_FMTS = [T_DEFAULT, "4Y-2M-2D 2h:2m:2s", "4Y-2M-2DT2h:2m:2s", "4Y-2M-2D 2h:2m:2s.3z"]
SEPS = [",", ";", "\t", "|", " ", "; "]
GPX_READ_FMT = "4Y-2M-2DT2h:2m:2sZ"


# =================================================================================================
# helpers
class _TmpDir:
    """fresh directory under /tmp for one case; always removed"""

    def __enter__(self):
        self.path = tempfile.mkdtemp(prefix="vt-c13-", dir="/tmp")
        return self.path

    def __exit__(self, *exc):
        shutil.rmtree(self.path, ignore_errors=True)
        return False


def _obstime(ms):
    return ObsTime(*gen.fields_of_ms(ms))


def _coords(srid, p):
    z = p[2] if len(p) > 2 else 0.0
    return SRID_CLASS[srid](p[0], p[1], z)


def _build_track(srid, pts, times_ms, tid="0", afs=0):
    tr = Track([], track_id=tid)
    for p, t in zip(pts, times_ms):
        tr.addObs(Obs(_coords(srid, p), _obstime(t)))
    names = []
    for k in range(afs):
        name = "af%d" % k
        tr.createAnalyticalFeature(name, [float(i + k) / 4.0 for i in range(len(pts))])
        names.append(name)
    return tr, names


def _tol(dec, v):
    return 0.5 * 10.0 ** (-dec) + 2.0 * math.ulp(float(v))


def _near_month_end(ms):
    y, mo, d, h, mi, s, _ = gen.fields_of_ms(ms)
    sod = h * 3600 + mi * 60 + s
    last = calendar.monthrange(y, mo)[1]
    return (d == last and sod >= 86398) or (d == 1 and sod <= 1)


def _sec_fields(t):
    return (t.year, t.month, t.day, t.hour, t.min, t.sec)


def _compare_track(tag, got, srid, pts, times_ms, dec, with_z, with_t):
    """got: tracklib Track returned by a reader; the rest: the written data"""
    if got is None or not hasattr(got, "size"):
        raise Violation(tag + "-count", "reader returned %r" % (got,))
    if got.size() != len(pts):
        raise Violation(tag + "-count", "wrote %d observations, read %d" % (len(pts), got.size()))
    for i, p in enumerate(pts):
        o = got.getObs(i)
        pos = o.position
        if not isinstance(pos, SRID_CLASS[srid]):
            raise Violation(tag + "-srid", "obs %d read as %s, written as %s" % (i, type(pos).__name__, srid))
        for name, want, val in (("X", p[0], pos.getX()), ("Y", p[1], pos.getY())):
            if not abs(val - want) <= _tol(dec, want):
                raise Violation(tag + "-coord", "obs %d %s: wrote %r, read %r" % (i, name, want, val))
        if with_z:
            want = p[2]
            val = pos.getZ()
            if not abs(val - want) <= _tol(dec, want):
                raise Violation(tag + "-height", "obs %d Z: wrote %r, read %r" % (i, want, val))
        if with_t:
            want = gen.fields_of_ms(times_ms[i])[:6]
            if _sec_fields(o.timestamp) != want:
                raise Violation(tag + "-time", "obs %d: wrote %s, read %s" % (i, want, _sec_fields(o.timestamp)))


# =================================================================================================
# numbers.  Hypothesis spends ~50 us per primitive draw, so a coordinate is ONE float u in [-1, 1] plus a
# per-point integer that selects, per coordinate, how u is decoded (lattice, millimetre decimals, raw double,
# >= 1e7, rounding ties, awkward constants).  u = 0 / selector 0 decode to the simplest value, so cases shrink.
def _nosent(v):
    """keep E/N away from the CSV reader's no-data sentinel (int(v) == -999999, also after rounding)"""
    if -1000000.01 < v < -999998.99:
        return v - 10.0
    return v


_SP_METRIC = [0.0005, 0.0015, -0.0005, -0.0004, 123456.789, 1e-7, 0.1, 0.3, 9999999.9995, -12345678.9012345,
              999999.0, -999998.0, -1000001.5, 0.0]
_SP_ANGLE = {180: [180.0, -180.0, 2.3488, -0.0000000001, 179.99999999995, 1e-11, -1e-11, 0.00000000005, 0.0],
             90: [90.0, -90.0, 48.858222, -0.0000000001, 89.99999999995, 1e-11, -1e-11, 0.00000000005, 0.0]}
_SP_HEIGHT = [35.0, -0.0004, 8848.86, 0.0005, -999.9995, 0.0]
_SP_WIDE = [1e-5, -2.5e-7, 1e16, -1.5e100, 5e-324, 0.1 + 0.2, 1e22, 123456789012345680.0]


def _pick(lst, u):
    return lst[int(abs(u) * 1e6) % len(lst)]


def _dec_metric(m, u):
    m %= 8
    if m == 0:
        v = round(u * 16000) / 8.0                      # lattice 1/8 inside +-2000
    elif m == 1:
        v = round(u * 1e10) / 1000.0                    # millimetre decimals up to 1e7
    elif m == 2:
        v = u * 1e6                                     # raw double, many decimals
    elif m == 3:
        v = math.copysign(1e7 + abs(u) * (1e9 - 1e7), u)
    elif m == 4:
        v = round(u * 1e9) / 10000.0 + 0.00005          # a 5 in the 5th decimal
    elif m == 5:
        v = _pick(_SP_METRIC, u)
    elif m == 6:
        v = float(round(u * 1000))
    else:
        v = u * 1e3
    return _nosent(v)


def _dec_ecef(m, u):
    m %= 4
    if m == 0:
        v = math.copysign(6.0e6 + abs(u) * 4.0e5, u)
    elif m == 1:
        v = u * 7e6
    elif m == 2:
        v = round(u * 7e9) / 1000.0
    else:
        v = _dec_metric(m // 4, u)
    return _nosent(v)


def _dec_angle(m, u, lim):
    m %= 4
    if m == 0:
        v = round(u * lim * 1e5) / 1e5
    elif m == 1:
        v = u * lim
    elif m == 2:
        v = round(u * lim * 1e10) / 1e10
    else:
        v = _pick(_SP_ANGLE[lim], u)
    return min(max(v, -float(lim)), float(lim))


def _dec_height(m, u):
    m %= 4
    if m == 0:
        return round((u + 1) * 44000) / 8.0 - 1000.0 if u != 0 else 0.0
    if m == 1:
        return -1000.0 + (u + 1.0) * 5500.0
    if m == 2:
        return _pick(_SP_HEIGHT, u)
    return round(u * 1e7) / 1000.0


def _dec_wide(m, u):
    m %= 4
    if m == 0:
        return u * 1e12
    if m == 1:
        return int(round(u * 1e7))                      # Python int coordinate
    if m == 2:
        return _pick(_SP_WIDE, u)
    return u * 1e-3


def _dec_point(srid, sel, a, b, c):
    """sel: integer selector, digits base 8 choose the decoding of each coordinate"""
    m0, m1, m2 = sel % 8, (sel // 8) % 8, (sel // 64) % 8
    if srid == "ENU":
        z = _dec_height(m2, c) if m2 < 4 else _dec_metric(m2, c)
        return [_dec_metric(m0, a), _dec_metric(m1, b), z]
    if srid == "ECEF":
        return [_dec_ecef(m0, a), _dec_ecef(m1, b), _dec_ecef(m2, c)]
    return [_dec_angle(m0, a, 180), _dec_angle(m1, b, 90), _dec_height(m2, c)]


def _dec_xy(srid, sel, a, b):
    """network / WKT vertices: exact round trip is demanded, so a wider range of doubles (and ints) is used"""
    m0, m1 = sel % 8, (sel // 8) % 8
    if srid == "GEO":
        return [_dec_angle(m0, a, 180), _dec_angle(m1, b, 90)]
    x = _dec_wide(m0, a) if m0 >= 4 else _dec_metric(m0, a)
    y = _dec_wide(m1, b) if m1 >= 4 else _dec_metric(m1, b)
    return [x, y]


_U = st.floats(-1.0, 1.0, allow_nan=False)
_SEL = st.sampled_from(range(512))
# Every case starts with one "salt" draw.  Hypothesis runs about every second example as a trial in which only the
# first draws are random and all later draws take their simplest value; the salt (drawn first) is mixed into every
# discrete choice, so those trials still spread over the configuration space.  salt = 0 (what shrinking reaches)
# leaves every choice as drawn.
_SALT = st.integers(0, 2 ** 32 - 1)


def _mix(salt, i, n):
    if not salt:
        return 0
    return ((salt * 2654435761 + (i + 1) * 2246822519) >> 11) % n


def _ch(salt, i, v, n):
    return (v + _mix(salt, i, n)) % n


_T_SPECIAL = [0, 999, 1000, 86399000, 86399999, 86398000, 43200000, 86398999]


def _dec_day(y, mo, kind):
    last = calendar.monthrange(y, mo)[1]
    if kind == 0:
        return gen.ms_of_fields(y, mo, 15)
    if kind == 1:
        return gen.ms_of_fields(y, mo, last)
    if kind == 2:
        return gen.ms_of_fields(y, mo, 1)
    if kind == 3:
        return gen.ms_of_fields(y, 12, 31)
    if kind == 4:
        return gen.ms_of_fields(y, 1, 1)
    return gen.ms_of_fields(y, 2, 28)


def _dec_time(day_ms, k):
    """k = 0 -> midnight of the base day; otherwise a special instant or an arbitrary millisecond of that day +-1"""
    sel, rest = k % 4, k // 4
    if sel == 0:
        off = _T_SPECIAL[rest % len(_T_SPECIAL)]
    elif sel == 1:
        off = _T_SPECIAL[rest % len(_T_SPECIAL)] + ((rest // 8) % 3 - 1) * gen.DAY_MS
    else:
        off = rest % (3 * gen.DAY_MS) - gen.DAY_MS
    return min(max(day_ms + off, 0), gen.MAX_MS)


_DAY = st.tuples(st.sampled_from(range(130)), st.sampled_from(range(12)), st.sampled_from(range(6)))
_TK = st.integers(0, 2 ** 32)
_FIX = st.tuples(_SEL, _U, _U, _U, _TK)               # one fix = 5 draws


def _dec_track(srid, salt, pos, day, fixes):
    """(pts, times) from the drawn base day and fixes; pos separates the salt streams of several tracks"""
    y = 1970 + _ch(salt, pos + 1, day[0], 130)
    mo = 1 + _ch(salt, pos + 2, day[1], 12)
    kind = _ch(salt, pos + 3, day[2], 6)
    base = _dec_day(y, mo, kind)
    pts, times = [], []
    for j, f in enumerate(fixes):
        sel = _ch(salt, pos + 10 + 2 * j, f[0], 512)
        tk = f[4] + _mix(salt, pos + 11 + 2 * j, 2 ** 32)
        pts.append(_dec_point(srid, sel, f[1], f[2], f[3]))
        times.append(_dec_time(base, tk))
    return pts, times


_VERTEX = st.tuples(st.sampled_from(range(64)), _U, _U)


def _dec_vertex(srid, salt, pos, v):
    return _dec_xy(srid, _ch(salt, pos, v[0], 64), v[1], v[2])


_IDENTS = ["0", "1", "2", "12", "007", "a", "b", "n1", "e-1", "X_2", "a.b", "troncon.T0001", "-", "3.5", "1e3", "Z"]


_IDENT = st.sampled_from(range(len(_IDENTS)))

# network CSV separators: the three NetworkFormat has a code for (c, s, b); no identifier above contains any of them
_NET_SEPS = [",", ";", " "]


_PERMS = [list(p) for p in itertools.permutations([0, 1, 2, 3])]


# =================================================================================================
# (i) CSV
def _layout(has_u, has_t, perm4):
    """column ids for E, N, U, T: the ranks of perm4 restricted to the columns that exist"""
    present = [0, 1] + ([2] if has_u else []) + ([3] if has_t else [])
    order = sorted(present, key=lambda c: perm4[c])
    rank = {c: i for i, c in enumerate(order)}
    return [rank.get(0), rank.get(1), rank.get(2, -1), rank.get(3, -1)]


def _allowed_seps(has_t, tfmt):
    return [s for s in SEPS if not (has_t and s in tfmt)]


_SRIDS3 = ["ENU", "GEO", "ECEF"]
_APIS = ["file", "csv", "file", "csv", "file", "csv", "default"]
_AFS = [0, 0, 0, 1, 2]


def _mk_csv(t):
    salt, srid_i, name_i, day, fixes, has_u, has_t, perm_i, sep_i, h, tf_i, api_i, afs_i = t
    srid = _SRIDS3[_ch(salt, 50, srid_i, 3)]
    pts, times = _dec_track(srid, salt, 100, day, fixes)
    tfmt = TIME_FMTS[_ch(salt, 51, tf_i, len(TIME_FMTS))]
    api = _APIS[_ch(salt, 52, api_i, len(_APIS))]
    name = SRID_NAMES[srid][_ch(salt, 53, name_i, 3)]
    if api == "default":
        return {"srid": srid, "srid_name": name, "pts": pts, "t": times,
                "ids": [0, 1, -1, -1], "sep": ",", "h": 0, "tfmt": tfmt, "api": api, "afs": 0}
    has_u = bool(_ch(salt, 54, has_u, 2))
    has_t = bool(_ch(salt, 55, has_t, 2))
    seps = _allowed_seps(has_t, tfmt)
    return {"srid": srid, "srid_name": name, "pts": pts, "t": times,
            "ids": _layout(has_u, has_t, _PERMS[_ch(salt, 56, perm_i, 24)]),
            "sep": seps[_ch(salt, 57, sep_i, len(SEPS)) % len(seps)], "h": _ch(salt, 58, h, 2), "tfmt": tfmt,
            "api": api, "afs": _AFS[_ch(salt, 59, afs_i, len(_AFS))]}


def strat_csv():
    r = lambda n: st.sampled_from(range(n))
    return st.tuples(_SALT, r(3), r(3), _DAY, st.lists(_FIX, min_size=1, max_size=8),
                     r(2), r(2), r(24), r(len(SEPS)), r(2), r(len(TIME_FMTS)), r(len(_APIS)), r(len(_AFS))).map(_mk_csv)


def _csv_roundtrip(case, d, set_print=True, set_read=True):
    """one CSV round trip; set_print / set_read: the caller sets ObsTime's print / read format to case["tfmt"] right
    before writing / before building the TrackFormat (what the test-suite's callers do); in a sequence of operations a
    caller may have set them earlier instead"""
    srid, pts, times = case["srid"], case["pts"], case["t"]
    id_e, id_n, id_u, id_t = case["ids"]
    sep, h, tfmt = case["sep"], case["h"], case["tfmt"]
    track, af_names = _build_track(srid, pts, times, afs=case.get("afs", 0))
    path = os.path.join(d, "track.csv")

    if set_print:
        ObsTime.setPrintFormat(tfmt)                  # what a caller does before writing ...
    if case["api"] == "default":
        TrackWriter.writeToFile(track, path)
    elif af_names:
        TrackWriter.writeToFile(track, path, id_E=id_e, id_N=id_n, id_U=id_u, id_T=id_t, separator=sep, h=h,
                                af_names=af_names)
    else:
        TrackWriter.writeToFile(track, path, id_E=id_e, id_N=id_n, id_U=id_u, id_T=id_t, separator=sep, h=h)

    if set_read:
        ObsTime.setReadFormat(tfmt)                   # ... and before building the format for reading
    if case["api"] == "csv":
        got = TrackReader.readFromCsv(path, id_E=id_e, id_N=id_n, id_U=id_u, id_T=id_t, separator=sep, h=h,
                                      srid=case["srid_name"])
    else:
        fmt = TrackFormat({"ext": "CSV", "id_E": id_e, "id_N": id_n, "id_U": id_u, "id_T": id_t,
                           "separator": sep, "header": h, "srid": case["srid_name"]})
        got = TrackReader.readFromFile(path, fmt)

    try:
        _compare_track("csv", got, srid, pts, times, DEC[srid], id_u >= 0, id_t >= 0)
    except Violation as v:
        if h == 1:
            with open(path) as f:
                first = f.readline()
            if not first.startswith("#"):
                raise Violation("csv-h1-header-not-written",
                                "writeToFile(h=1) wrote no header line (first line %r); read with header=1: %s" % (
                                    first.strip(), v.msg))
        raise


def body_csv(case):
    with _TmpDir() as d:
        _csv_roundtrip(case, d)
    id_e, id_n, id_u, id_t = case["ids"]
    k = 2 + (id_u >= 0) + (id_t >= 0)
    ident = [id_e, id_n, id_u, id_t] == _layout(id_u >= 0, id_t >= 0, [0, 1, 2, 3])
    boundary = id_t >= 0 and any(_near_month_end(t) for t in case["t"])
    cls = ["srid-" + case["srid"], "cols-%d" % k, "perm-identity" if ident else "perm-other",
           "sep-" + repr(case["sep"]), "h-%d" % case["h"], "api-" + case["api"]]
    if id_t >= 0:
        cls.append("tfmt-%d" % TIME_FMTS.index(case["tfmt"]) if case["tfmt"] in TIME_FMTS else "tfmt-other")
    if boundary:
        cls.append("month-end-second")
    if any(abs(c) >= 1e7 for p in case["pts"] for c in p[:2]):
        cls.append("coord>=1e7")
    if any(c < 0 for p in case["pts"] for c in p[:2]):
        cls.append("coord-negative")
    if case.get("afs"):
        cls.append("with-af-columns")
    return {"nt": (not ident) or case["sep"] != "," or boundary, "cls": cls}


# fixed tracks for the complete enumeration of the configuration space
_T_ENUM = [gen.ms_of_fields(2019, 12, 31, 23, 59, 59, 999), gen.ms_of_fields(2020, 1, 1, 0, 0, 0, 0),
           gen.ms_of_fields(2020, 2, 29, 23, 59, 59, 500), gen.ms_of_fields(2021, 7, 4, 12, 34, 56, 7)]
_PTS_ENUM = {
    "ENU": [[-12345678.9015, 0.0005, 12.25], [1.0, -2.5, -0.0004], [10000000.125, 123456.789, 8848.86], [0.1, 0.3, 0.0]],
    "GEO": [[-179.99999999995, 89.1234567891, 35.0], [2.3488, 48.858222, -0.5], [180.0, -90.0, 8848.86],
            [0.00000000005, -0.0000000001, 0.0]],
    "ECEF": [[4201575.762, 189856.033, 4779064.567], [-6378137.0, 0.0005, -6356752.3142], [1.5, -2.25, 3.125],
             [6399999.9995, -0.0004, 0.0]],
}


def enum_csv(tier):
    perms = {}
    for has_u, has_t in itertools.product([False, True], repeat=2):
        seen = []
        for p in itertools.permutations([0, 1, 2, 3]):
            lay = _layout(has_u, has_t, list(p))
            if lay not in seen:
                seen.append(lay)
        perms[(has_u, has_t)] = seen
    for srid in ("ENU", "GEO", "ECEF"):
        for (has_u, has_t), lays in sorted(perms.items()):
            for lay in lays:
                for tfmt in (TIME_FMTS if has_t else TIME_FMTS[:1]):
                    for sep in _allowed_seps(has_t, tfmt):
                        for h in (0, 1):
                            yield {"srid": srid, "srid_name": srid, "pts": _PTS_ENUM[srid], "t": _T_ENUM,
                                   "ids": lay, "sep": sep, "h": h, "tfmt": tfmt, "api": "file", "afs": 0}


# =================================================================================================
# (ii) GPX
def _mk_gpx(t):
    salt, srid_i, trks, one_file, api, af, single = t
    srid = ["GEO", "ENU"][_ch(salt, 50, srid_i, 2)]
    seen, tracks = set(), []
    for j, (tid_i, day, fixes) in enumerate(trks):
        tid = _IDENTS[_ch(salt, 60 + j, tid_i, len(_IDENTS))]
        while tid in seen:
            tid += "x"
        seen.add(tid)
        pts, times = _dec_track(srid, salt, 100 * (j + 1), day, fixes)
        tracks.append({"tid": tid, "pts": pts, "t": times})
    return {"srid": srid, "tracks": tracks, "one_file": bool(_ch(salt, 51, one_file, 2)),
            "api": ["file", "gpx"][_ch(salt, 52, api, 2)], "af": bool(_ch(salt, 53, af, 2)),
            "single": bool(_ch(salt, 54, single, 2)) and len(tracks) == 1}


def strat_gpx():
    r = lambda n: st.sampled_from(range(n))
    trk = st.tuples(_IDENT, _DAY, st.lists(_FIX, min_size=1, max_size=6))
    return st.tuples(_SALT, r(2), st.lists(trk, min_size=1, max_size=3), r(2), r(2), r(2), r(2)).map(_mk_gpx)


def _gpx_read(path, case):
    ObsTime.setReadFormat(GPX_READ_FMT)               # every caller of the GPX reader does this first
    if case["api"] == "gpx":
        return TrackReader.readFromGpx(path, srid=case["srid"], type="trk")
    return TrackReader.readFromFile(path, TrackFormat({"ext": "GPX", "srid": case["srid"], "type": "trk"}))


def _gpx_compare(got, tdata, srid):
    """returns a message when the only thing wrong is that every height of an ENU track came back 0
    (recorded root cause, raised by the caller after everything else has been compared)"""
    pts, times = tdata["pts"], tdata["t"]
    try:
        _compare_track("gpx", got, srid, pts, times, 8, True, True)
    except Violation as v:
        if v.key == "gpx-height" and srid == "ENU" and got.size() == len(pts) and all(
                got.getObs(i).position.getZ() == 0 for i in range(len(pts))):
            _compare_track("gpx", got, srid, pts, times, 8, False, True)      # anything else wrong is reported first
            return v.msg
        raise
    return None


def _gpx_roundtrip(case):
    """write / read / compare; returns the 'heights lost' message (recorded ENU root cause) or None"""
    srid = case["srid"]
    lost = None
    with _TmpDir() as d:
        built = []
        for td in case["tracks"]:
            tr, _ = _build_track(srid, td["pts"], td["t"], tid=td["tid"], afs=1 if case["af"] else 0)
            built.append(tr)
        if case.get("single") and len(built) == 1:
            arg = built[0]
        else:
            arg = TrackCollection()
            for tr in built:
                arg.addTrack(tr)
        if case["one_file"]:
            path = os.path.join(d, "out.gpx")
            TrackWriter.writeToGpx(arg, path=path, af=case["af"], oneFile=True)
            got = _gpx_read(path, case)
            if got is None or got.size() != len(built):
                raise Violation("gpx-track-count", "wrote %d tracks to one file, read %r" % (
                    len(built), None if got is None else got.size()))
            for i, td in enumerate(case["tracks"]):
                lost = _gpx_compare(got[i], td, srid) or lost
        else:
            TrackWriter.writeToGpx(arg, path=d, af=case["af"], oneFile=False)
            for td in case["tracks"]:
                path = os.path.join(d, td["tid"] + ".gpx")
                if not os.path.isfile(path):
                    raise Violation("gpx-file-missing", "no file %s.gpx written" % td["tid"])
                got = _gpx_read(path, case)
                if got is None or got.size() != 1:
                    raise Violation("gpx-track-count", "file of one track read as %r tracks" % (
                        None if got is None else got.size()))
                lost = _gpx_compare(got[0], td, srid) or lost
    return lost


def body_gpx(case):
    srid = case["srid"]
    lost = _gpx_roundtrip(case)
    if lost:
        raise Violation("gpx-enu-height-lost", "GPX read with srid ENU: every height comes back 0 (%s)" % lost)
    boundary = any(_near_month_end(t) for td in case["tracks"] for t in td["t"])
    cls = ["srid-" + srid, "one-file" if case["one_file"] else "file-per-track", "tracks-%d" % len(case["tracks"]),
           "api-" + case["api"]]
    if boundary:
        cls.append("month-end-second")
    if any(p[2] != 0 for td in case["tracks"] for p in td["pts"]):
        cls.append("height-nonzero")
    return {"nt": boundary or len(case["tracks"]) > 1, "cls": cls}


# =================================================================================================
# (iii) network CSV
# one slot of the edit history: (kind, two selectors, new vertex); kind 0 = slot unused
_NET_EDIT = st.tuples(st.sampled_from(range(8)), st.sampled_from(range(8)), st.sampled_from(range(8)), _VERTEX)


def _mk_net(t):
    salt, srid_i, node_list, edge_list, sep_i, h, verbose, raw_edits, same_file = t
    srid = ["ENU", "GEO"][_ch(salt, 50, srid_i, 2)]
    seen, nodes = set(), []
    for j, (nid_i, v) in enumerate(node_list):
        nid = _IDENTS[_ch(salt, 60 + j, nid_i, len(_IDENTS))]
        while nid in seen:
            nid += "n"
        seen.add(nid)
        nodes.append([nid] + _dec_vertex(srid, salt, 70 + j, v))
    seen, out = set(), []
    for j, (eid_i, k, mid) in enumerate(edge_list):
        eid = _IDENTS[_ch(salt, 80 + j, eid_i, len(_IDENTS))]
        while eid in seen:
            eid += "e"
        seen.add(eid)
        k = _ch(salt, 90 + j, k, 108)
        n = len(nodes)
        src, hop = (k // 3) % 6 % n, (k // 18) % 6
        tgt = src if (hop == 5 or n == 1) else (src + 1 + hop % (n - 1)) % n          # loop edge in about 1 of 6
        out.append({"id": eid, "s": src, "t": tgt, "o": [0, 1, -1][k % 3],
                    "mid": [_dec_vertex(srid, salt, 100 + 10 * j + i, v) for i, v in enumerate(mid)]})
    return {"srid": srid, "nodes": nodes, "edges": out, "sep": _NET_SEPS[_ch(salt, 51, sep_i, len(_NET_SEPS))],
            "h": _ch(salt, 52, h, 2), "verbose": _ch(salt, 53, verbose, 4) == 3,
            "edits": _mk_net_edits(srid, salt, 300, raw_edits, nodes, out), "same_file": bool(_ch(salt, 54, same_file, 2))}


def strat_net():
    r = lambda n: st.sampled_from(range(n))
    edge = st.tuples(_IDENT, r(108), st.lists(_VERTEX, min_size=0, max_size=4))
    return st.tuples(_SALT, r(2), st.lists(st.tuples(_IDENT, _VERTEX), min_size=1, max_size=5),
                     st.lists(edge, min_size=1, max_size=6), r(2), r(2), r(4),
                     st.tuples(_NET_EDIT, _NET_EDIT), r(2)).map(_mk_net)


def _differs(val, want, ulps):
    """exact comparison (ulps = 0: values written by a set... call or never touched) or to a few ulp (values produced
    by an in-place translate / scale, recomputed here as x + t / x * h)"""
    if ulps == 0:
        return val != want
    return not abs(val - want) <= ulps * math.ulp(max(abs(float(val)), abs(float(want))))


_NET_EDITS = ["absent", "none", "mid-set", "mid-obs", "node", "translate", "absent", "node"]


def _mk_net_edits(srid, salt, pos, raw, nodes, edges):
    """in-place edits of the live network between two writes (each followed by a write + read + compare)"""
    out = []
    for j, (kind_i, a, b, v) in enumerate(raw):
        kind = _NET_EDITS[_ch(salt, pos + 10 * j, kind_i, len(_NET_EDITS))]
        if kind == "absent":
            continue
        xy = _dec_vertex(srid, salt, pos + 10 * j + 1, v)
        a = _ch(salt, pos + 10 * j + 2, a, 8)
        b = _ch(salt, pos + 10 * j + 3, b, 8)
        if kind == "translate" and srid != "ENU":          # Track.translate is defined for ENU tracks only
            kind = "node"
        if kind.startswith("mid"):
            with_mid = [k for k, e in enumerate(edges) if e["mid"]]
            if not with_mid:
                kind = "node"
            else:
                e = with_mid[a % len(with_mid)]
                out.append({"op": "mid", "how": kind[4:], "e": e, "k": b % len(edges[e]["mid"]), "xy": xy})
                continue
        if kind == "node":
            used = sorted(set([e["s"] for e in edges] + [e["t"] for e in edges]))
            out.append({"op": "node", "n": used[a % len(used)], "xy": xy})
        elif kind == "translate":
            out.append({"op": "translate", "d": xy})
        else:
            out.append({"op": "none"})
    return out


def _net_geoms(case):
    nodes = case["nodes"]
    out = []
    for e in case["edges"]:
        s, t = nodes[e["s"]], nodes[e["t"]]
        out.append([[s[1], s[2]]] + [list(m) for m in e["mid"]] + [[t[1], t[2]]])
    return out


def _net_build(case):
    srid, nodes = case["srid"], case["nodes"]
    net = Network()
    for e, g in zip(case["edges"], _net_geoms(case)):
        tr = Track([Obs(_coords(srid, p), ObsTime()) for p in g])
        edge = Edge(e["id"], tr)
        edge.orientation = e["o"]
        s, t = nodes[e["s"]], nodes[e["t"]]
        net.addEdge(edge, Node(s[0], _coords(srid, s[1:])), Node(t[0], _coords(srid, t[1:])))
    return net


def _net_edit_data(case, ed):
    """the case data after the edit (pure; the oracle's side)"""
    new = dict(case)
    new["nodes"] = [list(n) for n in case["nodes"]]
    new["edges"] = [dict(e, mid=[list(m) for m in e["mid"]]) for e in case["edges"]]
    if ed["op"] == "mid":
        new["edges"][ed["e"]]["mid"][ed["k"]] = list(ed["xy"])
    elif ed["op"] == "node":
        new["nodes"][ed["n"]][1:] = list(ed["xy"])
    elif ed["op"] == "translate":
        tx, ty = ed["d"]
        for n in new["nodes"]:
            n[1], n[2] = n[1] + tx, n[2] + ty
        for e in new["edges"]:
            e["mid"] = [[m[0] + tx, m[1] + ty] for m in e["mid"]]
    return new


def _net_edit_live(net, case, ed):
    """the same edit done in place on the tracklib objects that were already written once"""
    srid = case["srid"]
    if ed["op"] == "mid":
        geom = net.EDGES[case["edges"][ed["e"]]["id"]].geom
        if ed["how"] == "obs":
            geom.setObs(ed["k"] + 1, Obs(_coords(srid, ed["xy"]), ObsTime()))
        else:
            pos = geom.getObs(ed["k"] + 1).position
            pos.setX(ed["xy"][0])
            pos.setY(ed["xy"][1])
    elif ed["op"] == "node":
        for e in case["edges"]:
            edge = net.EDGES[e["id"]]
            ends = ([(0, edge.source)] if e["s"] == ed["n"] else []) + (
                [(edge.geom.size() - 1, edge.target)] if e["t"] == ed["n"] else [])
            for k, node in ends:
                pos = edge.geom.getObs(k).position
                pos.setX(ed["xy"][0])
                pos.setY(ed["xy"][1])
                node.coord.setX(ed["xy"][0])
                node.coord.setY(ed["xy"][1])
    elif ed["op"] == "translate":
        tx, ty = ed["d"]
        for e in case["edges"]:
            net.EDGES[e["id"]].geom.translate(tx, ty)
        for nid in list(net.NODES.keys()):
            net.NODES[nid].coord.translate(tx, ty)


def _net_write_read(net, case, path):
    NetworkWriter.writeToCsv(net, path, separator=case["sep"], h=case["h"])
    fmt = NetworkFormat({"pos_edge_id": 0, "pos_source": 1, "pos_target": 2, "pos_direction": 3, "pos_wkt": 4,
                         "separator": case["sep"], "header": case["h"], "srid": case["srid"]})
    return NetworkReader.readFromFile(path, fmt, verbose=case.get("verbose", False))


def _net_compare(got, case, ulps=0):
    """got: the Network returned by the reader; case: the data that the written network held at the time of writing"""
    srid = case["srid"]
    nodes = case["nodes"]
    geoms = _net_geoms(case)
    want_ids = [e["id"] for e in case["edges"]]
    got_ids = [str(k) for k in got.EDGES.keys()]
    if got_ids != want_ids:
        if case["h"] == 0 and got_ids == want_ids[1:]:
            raise Violation("network-header0-first-row-skipped",
                            "written without header, read with header=0: first edge %r lost (read %s)" % (want_ids[0], got_ids))
        raise Violation("network-edges", "wrote edges %s, read %s" % (want_ids, got_ids))
    used = []
    for e in case["edges"]:
        for k in (e["s"], e["t"]):
            if nodes[k][0] not in used:
                used.append(nodes[k][0])
    got_nodes = [str(k) for k in got.NODES.keys()]
    if sorted(got_nodes) != sorted(used):
        raise Violation("network-nodes", "wrote nodes %s, read %s" % (sorted(used), sorted(got_nodes)))
    for e, g in zip(case["edges"], geoms):
        ge = got.EDGES[e["id"]]
        ws, wt = nodes[e["s"]][0], nodes[e["t"]][0]
        if ge.source.id != ws or ge.target.id != wt:
            raise Violation("network-end-nodes", "edge %s: wrote %s->%s, read %s->%s" % (
                e["id"], ws, wt, ge.source.id, ge.target.id))
        if ge.orientation != e["o"]:
            raise Violation("network-orientation", "edge %s: wrote %r, read %r" % (e["id"], e["o"], ge.orientation))
        gg = ge.geom
        if gg.size() != len(g):
            raise Violation("network-geometry", "edge %s: wrote %d vertices, read %d" % (e["id"], len(g), gg.size()))
        for i, p in enumerate(g):
            pos = gg.getObs(i).position
            if not isinstance(pos, SRID_CLASS[srid]):
                raise Violation("network-srid", "edge %s vertex %d read as %s" % (e["id"], i, type(pos).__name__))
            if _differs(pos.getX(), p[0], ulps) or _differs(pos.getY(), p[1], ulps):
                raise Violation("network-geometry", "edge %s vertex %d: wrote %r, read (%r, %r)" % (
                    e["id"], i, p, pos.getX(), pos.getY()))
        for what, node, p in (("source", ge.source, g[0]), ("target", ge.target, g[-1])):
            if _differs(node.coord.getX(), p[0], ulps) or _differs(node.coord.getY(), p[1], ulps):
                raise Violation("network-node-position", "edge %s %s node %s at (%r, %r), geometry end %r" % (
                    e["id"], what, node.id, node.coord.getX(), node.coord.getY(), p))


def body_net(case):
    srid = case["srid"]
    edits = case.get("edits") or []
    net = _net_build(case)
    cur, ulps, changed = case, 0, 0
    with _TmpDir() as d:
        _net_compare(_net_write_read(net, case, os.path.join(d, "net.csv")), case)
        # the SAME network object, edited in place and written again: the file must hold the edited data
        for n, ed in enumerate(edits):
            new = _net_edit_data(cur, ed)
            _net_edit_live(net, cur, ed)
            if ed["op"] == "translate":
                ulps = 4
            if _net_geoms(new) != _net_geoms(cur):
                changed += 1
            cur = new
            fname = "net.csv" if case.get("same_file", True) else "net%d.csv" % (n + 1)
            try:
                _net_compare(_net_write_read(net, case, os.path.join(d, fname)), cur, ulps)
            except Violation as v:
                raise Violation(v.key + "-rewrite", "write no. %d of the same network object, after in-place edit %r: %s" % (
                    n + 2, ed, v.msg))

    geoms = _net_geoms(case)
    rev_multi = any(e["o"] == -1 and len(e["mid"]) >= 1 for e in case["edges"])
    cls = ["srid-" + srid, "sep-" + repr(case["sep"]), "h-%d" % case["h"], "edges-%d" % min(len(case["edges"]), 4)]
    for o in sorted(set(e["o"] for e in case["edges"])):
        cls.append("orient%+d" % o)
    if rev_multi:
        cls.append("reverse-multivertex")
    if any(e["s"] == e["t"] for e in case["edges"]):
        cls.append("loop-edge")
    if len(set((min(e["s"], e["t"]), max(e["s"], e["t"])) for e in case["edges"])) < len(case["edges"]):
        cls.append("parallel-edges")
    if any("e" in repr(float(c)) for g in geoms for p in g for c in p):
        cls.append("exponent-notation")
    cls.append("writes-%d" % (1 + len(edits)))
    for op in sorted(set(_edit_name(ed) for ed in edits)):
        cls.append("edit-" + op)
    if changed:
        cls.append("rewrite-after-geometry-change")
    return {"nt": rev_multi or changed > 0, "cls": cls}


def _edit_name(ed):
    return ed["op"] + ("-" + ed["how"] if ed.get("how") else "")


# =================================================================================================
# (iv) WKT text
_WKT_EDITS = ["absent", "none", "setxy", "setobs", "setpos", "translate", "scale", "add", "absent", "setxy"]
_SCALES = [2.0, 0.5, -1.0, 3.0, 0.1, 1e-3, 7, 1.0]
_WKT_EDIT = st.tuples(st.sampled_from(range(len(_WKT_EDITS))), st.sampled_from(range(8)), _VERTEX)


def _mk_wkt_edits(srid, salt, pos, raw, npts):
    """in-place edits of the live track between two exports (each followed by toWKT + parseWkt + compare)"""
    out = []
    for j, (kind_i, a, v) in enumerate(raw):
        kind = _WKT_EDITS[_ch(salt, pos + 10 * j, kind_i, len(_WKT_EDITS))]
        if kind == "absent":
            continue
        if kind in ("translate", "scale") and srid != "ENU":     # Track.translate / scale: ENU tracks only
            kind = "setxy"
        xy = _dec_vertex(srid, salt, pos + 10 * j + 1, v)
        a = _ch(salt, pos + 10 * j + 2, a, 8)
        if kind in ("setxy", "setobs", "setpos"):
            out.append({"op": kind, "i": a % npts, "xy": xy})
        elif kind == "translate":
            out.append({"op": kind, "d": xy})
        elif kind == "scale":
            out.append({"op": kind, "h": _SCALES[a]})
        elif kind == "add":
            out.append({"op": kind, "xy": xy})
            npts += 1
        else:
            out.append({"op": "none"})
    return out


def _mk_wkt(t):
    salt, srid_i, vs, raw_edits = t
    srid = ["ENU", "GEO"][_ch(salt, 50, srid_i, 2)]
    pts = []
    for j, (v, c) in enumerate(vs):
        sel = _ch(salt, 60 + j, v[0], 64)
        pts.append(_dec_xy(srid, sel, v[1], v[2]) + [_dec_height(sel, c)])
    return {"srid": srid, "pts": pts, "edits": _mk_wkt_edits(srid, salt, 300, raw_edits, len(pts))}


def strat_wkt():
    return st.tuples(_SALT, st.sampled_from(range(2)),
                     st.lists(st.tuples(_VERTEX, _U), min_size=1, max_size=8),
                     st.tuples(_WKT_EDIT, _WKT_EDIT, _WKT_EDIT)).map(_mk_wkt)


def _wkt_edit_data(pts, ed):
    """the planimetric coordinates after the edit (pure; the oracle's side)"""
    pts = [list(p[:2]) for p in pts]
    op = ed["op"]
    if op in ("setxy", "setobs", "setpos"):
        pts[ed["i"]] = list(ed["xy"])
    elif op == "translate":
        pts = [[p[0] + ed["d"][0], p[1] + ed["d"][1]] for p in pts]
    elif op == "scale":
        pts = [[p[0] * ed["h"], p[1] * ed["h"]] for p in pts]
    elif op == "add":
        pts.append(list(ed["xy"]))
    return pts


def _wkt_edit_live(tr, srid, ed):
    op = ed["op"]
    if op == "setxy":
        pos = tr.getObs(ed["i"]).position
        pos.setX(ed["xy"][0])
        pos.setY(ed["xy"][1])
    elif op == "setobs":
        tr.setObs(ed["i"], Obs(_coords(srid, ed["xy"]), ObsTime()))
    elif op == "setpos":
        tr.getObs(ed["i"]).position = _coords(srid, ed["xy"])
    elif op == "translate":
        tr.translate(ed["d"][0], ed["d"][1])
    elif op == "scale":
        tr.scale(ed["h"])
    elif op == "add":
        tr.addObs(Obs(_coords(srid, ed["xy"]), ObsTime()))


def _wkt_check(tr, pts, ulps, tag):
    text = tr.toWKT()
    got = TrackReader.parseWkt(text)
    if got.size() != len(pts):
        raise Violation(tag + "-count", "%d points exported as %r, parsed %d" % (len(pts), text[:200], got.size()))
    for i, p in enumerate(pts):
        pos = got.getObs(i).position
        if _differs(pos.getX(), p[0], ulps) or _differs(pos.getY(), p[1], ulps):
            raise Violation(tag + "-coord", "point %d: exported %r, parsed (%r, %r) from %r" % (
                i, p[:2], pos.getX(), pos.getY(), text[:200]))
    return text


def body_wkt(case):
    srid, pts = case["srid"], case["pts"]
    edits = case.get("edits") or []
    tr = Track([Obs(_coords(srid, p), ObsTime()) for p in pts])
    _wkt_check(tr, pts, 0, "wkt")
    # the SAME track object, edited in place and exported again: the text must hold the edited coordinates
    cur, ulps, changed = [list(p[:2]) for p in pts], 0, 0
    for n, ed in enumerate(edits):
        new = _wkt_edit_data(cur, ed)
        _wkt_edit_live(tr, srid, ed)
        if ed["op"] in ("translate", "scale"):
            ulps = 4
        if new != cur:
            changed += 1
        cur = new
        try:
            _wkt_check(tr, cur, ulps, "wkt-reexport")
        except Violation as v:
            raise Violation(v.key, "export no. %d of the same track object, after in-place edit %r: %s" % (n + 2, ed, v.msg))
    frac = any(float(c) != int(c) for p in pts for c in p[:2] if abs(c) < 1e15)
    expo = any("e" in repr(float(c)) for p in pts for c in p[:2])
    cls = ["srid-" + srid, "points-%d" % min(len(pts), 4)]
    if expo:
        cls.append("exponent-notation")
    if any(isinstance(c, int) for p in pts for c in p[:2]):
        cls.append("int-coordinate")
    cls.append("exports-%d" % (1 + len(edits)))
    for op in sorted(set(ed["op"] for ed in edits)):
        cls.append("edit-" + op)
    if changed:
        cls.append("reexport-after-coordinate-change")
    if any(ed["op"] != "add" and a != b for ed, a, b in _wkt_steps(pts, edits)):
        cls.append("reexport-after-same-size-change")
    return {"nt": (len(pts) >= 2 and (frac or expo)) or changed > 0, "cls": cls}


def _wkt_steps(pts, edits):
    cur = [list(p[:2]) for p in pts]
    for ed in edits:
        new = _wkt_edit_data(cur, ed)
        yield ed, cur, new
        cur = new


# =================================================================================================
# (v) sequences of I/O operations in one process: the class-level ObsTime formats are NOT reset between steps.
#
# What a caller may rely on (read off the unmodified code):
#   * TrackWriter.writeToFile prints timestamps with the current print format and changes no format;
#   * TrackWriter.writeToGpx saves the print format, switches to ISO and puts the saved one back before returning
#     (one file and one file per track alike);
#   * TrackFormat(...) / TrackReader.readFromCsv capture the read format current at that moment; the CSV reader
#     switches to it while reading and restores the previous read format before returning;
#   * the GPX reader parses <time> with the current read format and sets nothing: the caller sets
#     '4Y-2M-2DT2h:2m:2sZ' before (all callers do) and it stays until the caller sets something else;
#   * network CSV and WKT text involve no timestamp format.
# The model keeps the print / read format the caller BELIEVES to be current (changed only by the caller's own
# set...Format calls); a CSV step with a time column is in the domain only if both equal the step's format.
_SEQ_KINDS = ["csv", "csv", "csv", "gpxN", "gpxN", "gpx1", "network", "wkt"]


def _mk_seq(t):
    salt, init_i, raw_steps = t
    init_i = _ch(salt, 1, init_i, 5)
    init = None if init_i == 0 else TIME_FMTS[init_i - 1]
    p_fmt = r_fmt = init or T_DEFAULT
    steps = []
    for n, raw in enumerate(raw_steps):
        kind_i, srid_i, day, fixes, fixes2, has_u, has_t, perm_i, sep_i, h, api_i, mode, tf_i, f1, f2 = raw
        base = 1000 * (n + 1)
        c = lambda i, v, m: _ch(salt, base + i, v, m)
        kind = _SEQ_KINDS[c(0, kind_i, len(_SEQ_KINDS))]
        if kind == "csv":
            srid = _SRIDS3[c(1, srid_i, 3)]
            pts, times = _dec_track(srid, salt, base + 100, day, fixes)
            mode = c(2, mode, 3)
            if mode == 2:                               # the caller sets both formats for this step
                tfmt, set_print, set_read = TIME_FMTS[c(3, tf_i, len(TIME_FMTS))], True, True
                p_fmt = tfmt
            elif mode == 1:                             # print format set earlier, read format set per step
                tfmt, set_print, set_read = p_fmt, False, True
            else:                                       # relies on what was set earlier
                tfmt, set_print, set_read = p_fmt, False, r_fmt != p_fmt
            if set_read:
                r_fmt = tfmt
            with_t = c(4, has_t, 4) != 0
            seps = _allowed_seps(with_t, tfmt)
            steps.append({"op": "csv", "srid": srid, "srid_name": srid, "pts": pts, "t": times,
                          "ids": _layout(bool(c(5, has_u, 2)), with_t, _PERMS[c(6, perm_i, 24)]),
                          "sep": seps[c(7, sep_i, len(SEPS)) % len(seps)], "h": c(8, h, 2), "tfmt": tfmt,
                          "api": ["file", "csv"][c(9, api_i, 2)], "afs": 0, "set_print": set_print, "set_read": set_read})
        elif kind in ("gpxN", "gpx1"):
            srid = ["GEO", "ENU"][c(1, srid_i, 2)]
            tracks = []
            for j, fx in enumerate([fixes, fixes2]):
                if fx:
                    pts, times = _dec_track(srid, salt, base + 100 * (j + 1), day, fx)
                    if srid == "ENU":                   # the recorded ENU height defect has its own sub-check
                        pts = [[q[0], q[1], 0.0] for q in pts]
                    tracks.append({"tid": "t%d" % j, "pts": pts, "t": times})
            restore = bool(c(2, f1, 2))
            steps.append({"op": "gpx", "srid": srid, "tracks": tracks, "one_file": kind == "gpx1",
                          "api": ["file", "gpx"][c(3, f2, 2)], "af": bool(c(4, has_u, 2)),
                          "single": bool(c(5, h, 2)) and len(tracks) == 1, "restore_read": restore})
            if not restore:
                r_fmt = GPX_READ_FMT
        elif kind == "network":
            srid = ["ENU", "GEO"][c(1, srid_i, 2)]
            nodes = [["n%d" % j] + _dec_xy(srid, c(10 + j, f[0], 64), f[1], f[2]) for j, f in enumerate(fixes)]
            mids = [_dec_xy(srid, c(20 + j, f[0], 64), f[1], f[2]) for j, f in enumerate(fixes2)]
            edges = []
            for j in range(max(1, len(nodes) - 1)):
                edges.append({"id": "e%d" % j, "s": j, "t": (j + 1) % len(nodes), "o": [0, 1, -1][(f1 + j + perm_i) % 3],
                              "mid": mids if j == 0 else []})
            fl = fixes[-1]
            raw = [(tf_i * 2 + f1, perm_i % 8, mode, (fl[0] % 64, fl[3], fl[2])),
                   (perm_i % 8, tf_i, f2, (fl[0] // 8, fl[2], fl[3]))]
            steps.append({"op": "network", "srid": srid, "nodes": nodes, "edges": edges,
                          "sep": [",", ";"][c(2, sep_i, 2)], "h": c(3, h, 2), "verbose": False,
                          "edits": _mk_net_edits(srid, salt, base + 300, raw, nodes, edges), "same_file": bool(c(4, f2, 2))})
        else:
            srid = ["ENU", "GEO"][c(1, srid_i, 2)]
            raw = [(f[0] % len(_WKT_EDITS), f[4] % 8, ((f[0] // 8) % 64, f[1], f[2])) for f in fixes2]
            steps.append({"op": "wkt", "srid": srid,
                          "pts": [_dec_xy(srid, c(10 + j, f[0], 64), f[1], f[2]) + [0.0] for j, f in enumerate(fixes)],
                          "edits": _mk_wkt_edits(srid, salt, base + 300, raw, len(fixes))})
    return {"init": init, "steps": steps}


def strat_seq():
    r = lambda n: st.sampled_from(range(n))
    step = st.tuples(r(len(_SEQ_KINDS)), r(3), _DAY, st.lists(_FIX, min_size=1, max_size=4),
                     st.lists(_FIX, min_size=0, max_size=3), r(2), r(4), r(24), r(len(SEPS)), r(2), r(2), r(3),
                     r(len(TIME_FMTS)), r(2), r(2))
    return st.tuples(_SALT, r(5), st.lists(step, min_size=2, max_size=5)).map(_mk_seq)


def _seq_opname(stp):
    if stp["op"] == "gpx":
        return "gpx-one-file" if stp["one_file"] else "gpx-file-per-track"
    return stp["op"]


def body_seq(case):
    p_fmt = r_fmt = T_DEFAULT                            # what reset_globals / a fresh interpreter gives
    if case.get("init"):                                 # the user sets both formats once at the start
        ObsTime.setReadFormat(case["init"])
        ObsTime.setPrintFormat(case["init"])
        p_fmt = r_fmt = case["init"]
    leak = None                                          # first step after which the formats differ from the caller's belief
    lost = None
    cls = set()
    nt = False
    seen_ops = []
    for i, stp in enumerate(case["steps"]):
        op = stp["op"]
        try:
            if op == "csv":
                if stp["set_print"]:
                    p_fmt = stp["tfmt"]
                if stp["set_read"]:
                    r_fmt = stp["tfmt"]
                with_t = stp["ids"][3] >= 0
                if with_t and not (p_fmt == r_fmt == stp["tfmt"] and stp["sep"] not in stp["tfmt"]):
                    return {"undef": True}               # caller error (hand-written case): formats not paired
                with _TmpDir() as d:
                    _csv_roundtrip(stp, d, stp["set_print"], stp["set_read"])
                if with_t:
                    if not stp["set_print"]:
                        for prev in set(seen_ops):
                            cls.add("csvT-relies-on-print-format-after-" + prev)
                        nt = nt or any(o.startswith("gpx") for o in seen_ops)
                    if not stp["set_read"] and seen_ops:
                        cls.add("csvT-relies-on-read-format")
                        nt = True
            elif op == "gpx":
                lost = _gpx_roundtrip(stp) or lost
                if stp["restore_read"]:
                    ObsTime.setReadFormat(r_fmt)         # the caller puts its own read format back
                else:
                    r_fmt = GPX_READ_FMT
            elif op == "network":
                if "rewrite-after-geometry-change" in body_net(stp)["cls"]:
                    cls.add("network-rewritten-after-in-place-edit")
            elif op == "wkt":
                if "reexport-after-coordinate-change" in body_wkt(stp)["cls"]:
                    cls.add("wkt-reexported-after-in-place-edit")
            else:
                return {"undef": True}
        except Violation as v:
            if leak is not None:
                raise Violation("seq-%s-format-left-by-%s" % (leak[2], leak[1]),
                                "step %d (%s) left the %s format at %r, the caller had %r; step %d (%s) then fails: %s: %s" % (
                                    leak[0], leak[1], leak[2], leak[3], leak[4], i, _seq_opname(stp), v.key, v.msg))
            raise Violation(v.key, "step %d (%s): %s" % (i, _seq_opname(stp), v.msg))
        seen_ops.append(_seq_opname(stp))
        if leak is None:
            if ObsTime.getPrintFormat() != p_fmt:
                leak = (i, _seq_opname(stp), "print", ObsTime.getPrintFormat(), p_fmt)
            elif ObsTime.getReadFormat() != r_fmt:
                leak = (i, _seq_opname(stp), "read", ObsTime.getReadFormat(), r_fmt)
    if lost:
        raise Violation("gpx-enu-height-lost", "GPX read with srid ENU: every height comes back 0 (%s)" % lost)
    cls.add("steps-%d" % len(case["steps"]))
    for o in set(seen_ops):
        cls.add("has-" + o)
    cls.add("init-set" if case.get("init") else "init-default")
    return {"nt": nt, "cls": sorted(cls)}


# =================================================================================================
# (vi) large tracks: the number of observations is a generated dimension (sizes around powers of ten / two and
# typical buffer sizes).  The case holds a short description of the track (plain numbers); points and stamps
# are a pure function of it, so the case is still the witness and the oracle still compares with the case data.
SIZES_QUICK = [999, 1000, 1001, 1024, 2000, 2001, 2500, 4097]
SIZES_THOROUGH = [99, 100, 101, 255, 256, 257, 511, 512, 513, 999, 1000, 1001, 1023, 1024, 1025, 2000, 2001, 2047, 2048, 2049,
                  2500, 3000, 3001, 4095, 4096, 4097, 5000, 8191, 8192, 8193, 9999, 10000, 10001, 16384, 16385, 20001, 65537]
_BIG_T0 = [gen.ms_of_fields(2021, 12, 31, 23, 30, 0, 0), gen.ms_of_fields(2020, 2, 29, 23, 50, 0, 500), 0,
           gen.ms_of_fields(2019, 6, 30, 22, 0, 0, 999), gen.ms_of_fields(2099, 12, 31, 22, 0, 0, 0),
           gen.ms_of_fields(2000, 1, 1, 0, 0, 0, 0)]
_BIG_DT = [1000, 1, 250, 60000, 999, gen.DAY_MS]


def _hh(seed, i):
    return ((seed * 2654435761 + (i + 1) * 2246822519) & 0xFFFFFFFFFFFF) >> 11


def _uu(h):
    return ((h % 2000001) - 1000000) / 1e6


def _expand_track(srid, d):
    """(pts, times) of the described track.  mode 0: a regular trajectory (constant steps, heights cycling); mode 1: every
    point decoded like the generated fixes of the small tracks (lattice / millimetre / raw / >= 1e7 / ties / constants)."""
    n, seed, mode = int(d["n"]), int(d.get("seed", 0)), d.get("mode", 0)
    t0, dt = int(d.get("t0", 0)), int(d.get("dt", 1000))
    times = [min(max(t0 + i * dt, 0), gen.MAX_MS) for i in range(n)]
    pts = []
    if mode == 0:
        k = seed % 7
        if srid == "GEO":
            x0, y0, dx, dy = [2.3488, -179.5, 0.0, 120.25][seed % 4], [48.858222, -33.5, 0.0, 60.125][(seed // 4) % 4], 1e-5 * (k + 1), -7e-6 * (k + 1)
            for i in range(n):
                pts.append([min(max(x0 + i * dx, -180.0), 180.0), min(max(y0 + i * dy, -90.0), 90.0), 35.0 + (i % 97) * 0.125])
        elif srid == "ECEF":
            for i in range(n):
                pts.append([4201575.762 + i * 0.25 * (k + 1), 189856.033 - i * 0.125, 4779064.567 + (i % 97) * 0.001])
        else:
            x0, y0 = [0.0, -12345678.5, 651234.25, 1e7][seed % 4], [0.0, 6861234.75, -0.5, -1e8][(seed // 4) % 4]
            for i in range(n):
                pts.append([x0 + i * 0.25 * (k + 1), y0 - i * 0.125, 10.0 + (i % 97) * 0.001])
    else:
        for i in range(n):
            h = _hh(seed, 4 * i)
            pts.append(_dec_point(srid, h % 512, _uu(_hh(seed, 4 * i + 1)), _uu(_hh(seed, 4 * i + 2)), _uu(_hh(seed, 4 * i + 3))))
    if d.get("flat"):                                   # ENU through GPX: the recorded height defect has its own sub-check
        pts = [[q[0], q[1], 0.0] for q in pts]
    return pts, times


def _size_cls(n):
    out = []
    for lim in (100, 1000, 2000, 5000, 10000):
        if n < lim:
            out.append("size<%d" % lim)
            break
    else:
        out.append("size>=10000")
    if n > 1000:
        out.append("size>1000")
    for b in (1000, 1024, 2000, 2048, 4096, 8192, 10000, 16384, 65536):
        if n == b:
            out.append("size==round-number")
        elif n == b + 1:
            out.append("size==round-number+1")
        elif n == b - 1:
            out.append("size==round-number-1")
    return out


def body_large(case):
    kind, d = case["kind"], case["track"]
    n = int(d["n"])
    if n < 1:
        return {"undef": True}
    if kind == "csv":
        cfg = case["cfg"]
        pts, times = _expand_track(cfg["srid"], d)
        r = body_csv(dict(cfg, pts=pts, t=times))
        keep = [c for c in r["cls"] if c.startswith(("srid-", "cols-", "perm-", "api-", "h-", "with-af"))]
        id_t = cfg["ids"][3]
        k = 2 + (cfg["ids"][2] >= 0) + (id_t >= 0)
        keep.append("time-column-absent" if id_t < 0 else ("time-column-last" if id_t == k - 1 else (
            "time-column-first" if id_t == 0 else "time-column-inside")))
    elif kind == "gpx":
        cfg = case["cfg"]
        srid = cfg["srid"]
        pts, times = _expand_track(srid, dict(d, flat=(srid == "ENU")))
        tracks = [{"tid": "big", "pts": pts, "t": times}]
        if cfg.get("second"):                           # a second, small track in the same collection / file
            p2, t2 = _expand_track(srid, dict(d, n=int(cfg["second"]), seed=int(d.get("seed", 0)) + 1, flat=(srid == "ENU")))
            tracks.insert(int(cfg.get("second_first", 0)) and 0 or 1, {"tid": "small", "pts": p2, "t": t2})
        inner = {"srid": srid, "tracks": tracks, "one_file": bool(cfg["one_file"]), "api": cfg["api"], "af": bool(cfg.get("af")),
                 "single": bool(cfg.get("single")) and len(tracks) == 1}
        r = body_gpx(inner)
        keep = [c for c in r["cls"] if c.startswith(("srid-", "one-file", "file-per", "tracks-", "api-"))]
    elif kind == "wkt":
        cfg = case["cfg"]
        pts, _ = _expand_track(cfg["srid"], d)
        r = body_wkt({"srid": cfg["srid"], "pts": pts, "edits": cfg.get("edits") or []})
        keep = [c for c in r["cls"] if c.startswith(("srid-", "exports-", "edit-"))]
    else:
        return {"undef": True}
    return {"nt": n >= 1000, "cls": ["large-" + kind] + _size_cls(n) + keep + ["track-" + ("regular" if not d.get("mode") else "awkward-values")]}


_BIG_LAYOUTS = [[0, 1, 2, 3], [1, 2, 3, 0], [0, 1, 2, -1], [1, 0, -1, 2], [0, 2, 3, 1], [0, 1, -1, -1]]   # E, N, U, T column ids


def enum_large(tier):
    sizes = SIZES_QUICK if tier == "quick" else SIZES_THOROUGH
    k = 0
    for n in sizes:
        for lay in _BIG_LAYOUTS:
            for srid in _SRIDS3:
                k += 1
                with_t = lay[3] >= 0
                tfmt = TIME_FMTS[k % len(TIME_FMTS)]
                seps = _allowed_seps(with_t, tfmt)
                cfg = {"srid": srid, "srid_name": srid, "ids": lay, "sep": seps[k % len(seps)], "h": (k // 2) % 2, "tfmt": tfmt,
                       "api": ["file", "csv"][k % 2], "afs": 1 if k % 5 == 0 else 0}
                yield {"kind": "csv", "cfg": cfg, "track": {"n": n, "seed": k, "mode": 1 if k % 3 == 0 else 0,
                                                             "t0": _BIG_T0[k % len(_BIG_T0)], "dt": _BIG_DT[k % len(_BIG_DT)]}}
        k += 1
        yield {"kind": "csv", "cfg": {"srid": "ENU", "srid_name": "ENU", "ids": [0, 1, -1, -1], "sep": ",", "h": 0, "tfmt": T_DEFAULT,
                                      "api": "default", "afs": 0},
               "track": {"n": n, "seed": k, "mode": 0, "t0": _BIG_T0[0], "dt": 1000}}
        for cfg in ({"srid": "GEO", "one_file": True, "api": "gpx", "single": True},
                    {"srid": "GEO", "one_file": False, "api": "file", "second": 3, "second_first": k % 2},
                    {"srid": "ENU", "one_file": True, "api": "file", "second": 2, "second_first": (k + 1) % 2, "af": True}):
            k += 1
            yield {"kind": "gpx", "cfg": cfg, "track": {"n": n, "seed": k, "mode": k % 2, "t0": _BIG_T0[k % len(_BIG_T0)],
                                                         "dt": _BIG_DT[k % 5]}}
        for srid in ("ENU", "GEO"):
            k += 1
            edits = [] if k % 2 else [{"op": "add", "xy": [1.5, -2.25]}, {"op": "add", "xy": [3.0, 4.0]}]
            yield {"kind": "wkt", "cfg": {"srid": srid, "edits": edits}, "track": {"n": n, "seed": k, "mode": k % 3 == 0 and 1 or 0}}


def strat_large():
    r = lambda m: st.sampled_from(range(m))
    size = st.tuples(st.sampled_from(SIZES_THOROUGH[9:27]), st.sampled_from([0, 0, 1, -1, 2, 7, 100])).map(lambda t: t[0] + t[1])
    track = st.tuples(size, st.integers(0, 2 ** 31), r(2), r(len(_BIG_T0)), r(len(_BIG_DT))).map(
        lambda t: {"n": t[0], "seed": t[1], "mode": t[2], "t0": _BIG_T0[t[3]], "dt": _BIG_DT[t[4]]})

    def csv_cfg(t):
        c = _mk_csv(t)
        del c["pts"], c["t"]
        return c
    csv = st.tuples(_SALT, r(3), r(3), _DAY, st.just(()), r(2), r(2), r(24), r(len(SEPS)), r(2), r(len(TIME_FMTS)),
                    r(len(_APIS)), r(len(_AFS))).map(csv_cfg).map(lambda c: ("csv", c))
    gpx = st.tuples(r(2), r(2), r(2), st.sampled_from([0, 0, 1, 5]), r(2), r(2), r(2)).map(
        lambda t: ("gpx", {"srid": ["GEO", "ENU"][t[0]], "one_file": bool(t[1]), "api": ["file", "gpx"][t[2]], "second": t[3],
                           "second_first": t[4], "single": bool(t[5]), "af": bool(t[6])}))
    wkt = st.tuples(r(2), st.lists(st.tuples(st.sampled_from(["add", "add", "setxy", "none"]), _VERTEX), min_size=0, max_size=2)).map(
        lambda t: ("wkt", {"srid": ["ENU", "GEO"][t[0]],
                           "edits": [({"op": "none"} if op == "none" else dict({"op": op, "xy": _dec_vertex(["ENU", "GEO"][t[0]], 0, 0, v)},
                                                                                **({"i": 0} if op == "setxy" else {})))
                                     for op, v in t[1]]}))
    return st.tuples(st.one_of(csv, csv, csv, csv, gpx, wkt), track).map(lambda t: {"kind": t[0][0], "cfg": t[0][1], "track": t[1]})


RULE = ("csv: Hypothesis over (srid ENU/GEO/ECEF, 1..8 fixes, with/without U and T, every permutation of the column ids, 6 separators "
        "incl. a two-character one, h 0/1, 4 time formats, reader entry point readFromFile/readFromCsv, writer called with ids or with "
        "its defaults, 0..2 extra feature columns); csv_configs: the complete product srid x column layout (38 layouts) x separator x h "
        "x time format on a fixed 4-fix track with month/year-end stamps; gpx: 1..3 tracks of 1..6 fixes, one file / one file per track, "
        "Track or TrackCollection argument, srid GEO/ENU, readFromFile/readFromGpx; network: 1..5 nodes, 1..6 edges, 3 orientations, "
        "0..4 interior vertices, loops and parallel edges, separators ',' ';', h 0/1, ENU/GEO, then 0..2 in-place edits of the SAME network "
        "object (interior vertex moved by setX/setY or setObs, node moved, whole network translated, nothing) each followed by another "
        "write (same or new file) + read judged against the edited data; wkt: toWKT -> parseWkt, then 0..3 in-place edits of the SAME "
        "track (setX/setY, setObs, position replaced, translate, scale, addObs, nothing) each followed by another export + parse judged "
        "against the edited coordinates; the network / wkt steps of a sequence carry such edit histories too. "
        "large_tracks: tracks of 999 / 1000 / 1001 / 1024 / 2000 / 2001 / 2500 / 4097 observations (thorough: 37 sizes 99..65537 around "
        "powers of ten and two) x CSV in 6 column layouts (time last / first / inside / absent, with and without U) x 3 srids with "
        "separator, header flag, time format, entry point and feature column rotating, the writer's defaults, GPX (one file / file per "
        "track next to a small second track, GEO / ENU with heights 0) and WKT (also re-exported after addObs), enumerated; plus random "
        "sizes (18 anchors 999..4097 + -1..100) with a random CSV / GPX / WKT configuration; regular trajectories and awkward values, "
        "stamps stepping by 1 ms .. 1 day across month / year ends; non-trivial when the track has >= 1000 observations. "
        "Coordinates: one float in [-1,1] per coordinate decoded per point as 1/8 lattice, millimetre decimals, raw double, |v| >= 1e7, "
        "rounding tie in the first dropped decimal, or an awkward constant; stamps: month/year-end days, first/last second and ms. "
        "Non-trivial: CSV with a non-identity column permutation or separator != ',' or a stamp within 1 s of a month/year end; GPX with "
        "several tracks or such a stamp; network with a reverse-oriented multi-vertex edge; WKT with >= 2 points and a fractional or "
        "exponent-notation coordinate, or a re-export / re-write after an edit that changed a coordinate; sequence (2..5 csv / gpx one-file / gpx file-per-track / network / wkt round trips in one "
        "process, formats set by the user once, per step for reading only, or per step for both, never reset in between) in which a "
        "CSV step with a time column relies on a print format set before an earlier GPX step or on a read format set before an "
        "earlier step. Distinct = hash of the case.")

# coverage-guided stage of the thorough tier (vt/fuzz.py): sub-check -> libFuzzer executions
FUZZ = {'csv': 8000, 'wkt': 6000}

SUBCHECKS = [
    SubCheck("csv", body_csv, strategy=strat_csv, quick=4000, thorough=120000, qshards=8),
    SubCheck("csv_configs", body_csv, enum=enum_csv, rule="complete srid x layout x separator x header x time-format product",
             qshards=4),
    SubCheck("gpx", body_gpx, strategy=strat_gpx, quick=2400, thorough=48000),
    SubCheck("network", body_net, strategy=strat_net, quick=1800, thorough=48000, qshards=6),
    SubCheck("wkt", body_wkt, strategy=strat_wkt, quick=2400, thorough=48000),
    SubCheck("large_tracks", body_large, enum=enum_large, strategy=strat_large, quick=120, thorough=2400, qshards=6,
             rule="tracks of 999..4097 (thorough 99..65537) observations through CSV (6 column layouts x 3 srids), GPX and WKT"),
    SubCheck("sequences", body_seq, strategy=strat_seq, quick=1600, thorough=48000, qshards=8,
             rule="2..5 round trips in one process without resetting ObsTime's class-level formats"),
]
