"""C10 - map-matched positions lie on a real edge within the search radius.

Code under test: tracklib.algo.mapping.mapOnNetwork (candidate search through the spatial index,
projection on the edge geometry, HMM decoding).  Oracle: own point-on-polyline / radius / abscissa
tests on the *case data* (the network model the body builds the tracklib objects from)."""
import math

from hypothesis import strategies as st

from tracklib import (ENUCoords, Obs, ObsTime, Track, TrackCollection, Network, Node, Edge,
                      SpatialIndex, computeAbsCurv, mapOnNetwork)

from vt import gen, oracle
from vt.core import SubCheck, Violation, exc_key

HANG_IS_VIOLATION = False      # cost depends on generated grid / file sizes: a CPU budget hit is inconclusive here
ASSUMPTIONS = [
    "network prepared as NetworkReader / test_mapping.py do: edge geometry source->target with abs_curv, "
    "weight = Track.length(), node coordinates = position of the first/last vertex, SpatialIndex attached, prepare() called",
    "heights: the network vertices carry z = 0 everywhere / one constant / heights varying along the edges (case fields nz = "
    "one height per node, shared by all edges ending there, and midz per edge); fixes carry z = 0 or not.  The matching is "
    "planimetric (projection, radius, abs_curv are 2D), so the oracle stays 2D: point on the 2D geometry, 2D distance to the "
    "fix, distances to the end nodes = 2D abscissa and its complement to the 2D edge length",
    "several matching calls on the SAME prepared network (case field calls = [{t: track numbers, radius, noise, how: single | "
    "collection, fresh}]): each call has its own search_radius / gps_noise and is judged with its own radius right after it "
    "returns; a track is matched again as the same Track object or as a fresh copy, and tracks share exact fix positions",
    "parameters of mapOnNetwork(tracks, network, gps_noise=50, transition_cost=10, search_radius=50): search_radius >= 0 incl. "
    "0 / 0.0 (the code keeps candidates with distance < radius, so nothing may be matched; the oracle tolerates only a match at "
    "distance <= 1e-7*scale), tiny radii 1e-9 / 1e-3 (exact hits only), the ordinary values, or omitted (then the signature's "
    "default 50 is the radius in force); gps_noise > 0 from 1e-3 to 1e9 or omitted (0 divides by zero - outside); handed over by "
    "keyword or positionally (transition_cost = 10), integer-valued numbers as floats or as Python ints (case / call field args)",
    "every edge has positive length; index extent non-degenerate and resolution <= extent in each dimension "
    "(otherwise the index constructor divides by a zero cell count - not this property); margin >= 0.05",
    "network coordinates dyadic (step 1/4, collinear mid-vertices 1/8, 1/16) in [-512, 512]: exactly vertical / horizontal "
    "segments, or 3-decimal coordinates (|dx| >= 1e-3 unless exactly 0: no ill-conditioned near-vertical segment); fixes within ~2.5e3 (+ a rare 'very far' fix up to 2e4 away); tolerances with "
    "scale = max |x|,|y| of the case: on-geometry 1e-6*scale, radius +1e-7*scale, abscissa 2e-6*scale, d0+d1 vs length 1e-6 relative",
    "candidate completeness is not demanded (an observation may be unmatched although an edge is within the radius)",
]

KF_VERTICAL = "zerodiv-proj_segment-obs-aligned-with-vertical-segment"
K_OVERFLOW = "overflow-tst_log-consecutive-fixes-over-7km-apart"

RADII = [1.0, 5.0, 25.0, 100.0]
NOISES = [1.0, 10.0, 50.0]


# ------------------------------------------------------------------------------------------------
# model helpers (no tracklib)
def _edge_pts(case, e):
    n = case["nodes"]
    return [tuple(n[e["src"]])] + [tuple(p) for p in e["mid"]] + [tuple(n[e["tgt"]])]


def _vertical_xs(case):
    """x of every exactly vertical, non-degenerate segment of an edge"""
    out = set()
    for e in case["edges"]:
        p = _edge_pts(case, e)
        for i in range(len(p) - 1):
            if p[i][0] == p[i + 1][0] and p[i][1] != p[i + 1][1]:
                out.add(p[i][0])
    return out


def _extent(case):
    """(xmin, xmax, ymin, ymax) of the index as Bbox.addMargin computes it, and the cell counts"""
    xs = [p[0] for e in case["edges"] for p in _edge_pts(case, e)]
    ys = [p[1] for e in case["edges"] for p in _edge_pts(case, e)]
    x0, x1, y0, y1 = min(xs), max(xs), min(ys), max(ys)
    m = case["margin"]
    dx, dy = x1 - x0, y1 - y0
    x0, x1, y0, y1 = x0 - m * dx, x1 + m * dx, y0 - m * dy, y1 + m * dy
    ax, ay = x1 - x0, y1 - y0
    if ax <= 0 or ay <= 0:
        return (x0, x1, y0, y1), (0, 0)
    if case["res"] is None:
        r = max(ax, ay) / 100
        cells = (int(ax / r), int(ay / r))
    else:
        cells = (int(ax / case["res"][0]), int(ay / case["res"][1]))
    return (x0, x1, y0, y1), cells


def _abscissas(p, pts, tol):
    """admissible curvilinear abscissas of p on the polyline: one per segment that p lies on"""
    cum = oracle.cum_lengths(pts)
    out = []
    for i in range(len(pts) - 1):
        if oracle.pt_seg_dist(p[0], p[1], pts[i][0], pts[i][1], pts[i + 1][0], pts[i + 1][1]) <= tol:
            out.append(cum[i] + math.hypot(p[0] - pts[i][0], p[1] - pts[i][1]))
    return out, cum[-1]


# ------------------------------------------------------------------------------------------------
# building the tracklib objects from a case
def _edge_z(case, e):
    """heights of the vertices of an edge: case["nz"][node] for the end vertices (one height per node, shared by every
    edge that ends there), e["midz"] for the interior vertices; absent = 0"""
    nz = case.get("nz") or [0] * len(case["nodes"])
    mz = e.get("midz") or [0] * len(e["mid"])
    return [nz[e["src"]]] + list(mz) + [nz[e["tgt"]]]


def _build_network(case):
    net = Network()
    for e in case["edges"]:
        pts = _edge_pts(case, e)
        tr = Track([], 1)
        for (x, y), z in zip(pts, _edge_z(case, e)):
            tr.addObs(Obs(ENUCoords(x, y, z), ObsTime()))
        computeAbsCurv(tr)
        ed = Edge(e["id"], tr)
        ed.orientation = e["ori"]
        ed.weight = tr.length()
        a = Node(case["node_ids"][e["src"]], tr.getFirstObs().position)
        b = Node(case["node_ids"][e["tgt"]], tr.getLastObs().position)
        net.addEdge(ed, a, b)
    return net


def _calls(case, ntracks):
    """the matching calls of a case, in order: [{"t": track numbers, "radius", "noise", "how": "single"|"collection",
    "fresh": build new Track objects for this call}].  Without case["calls"]: one collection call, or one single-track
    call per track, with the case-wide radius and noise"""
    if case.get("calls"):
        return case["calls"]
    r, n = case["radius"], case["noise"]
    if case.get("coll") or ntracks > 1 and case.get("call") != "one-by-one":
        return [{"t": list(range(ntracks)), "radius": r, "noise": n, "how": "collection"}]
    return [{"t": [i], "radius": r, "noise": n, "how": "single"} for i in range(ntracks)]


DEFAULT_RADIUS = 50.0        # mapOnNetwork(tracks, network, gps_noise=50, transition_cost=10, search_radius=50, ...)
ARG_STYLES = ["kw", "pos", "kw-int", "pos-int"]


def _invoke(tracks, net, radius, noise, style):
    """mapOnNetwork with the parameters handed over in one of the legal ways.  style "kw*": by keyword; "pos*": positionally
    (gps_noise, transition_cost = its default 10, search_radius); "*-int": integer-valued numbers as Python ints (0 instead
    of 0.0).  radius / noise None: the argument is omitted (the signature's default 50 applies)."""
    conv = gen.as_int_if_integral if style.endswith("-int") else (lambda v: v)
    args, kw = [], {}
    if style.startswith("pos") and noise is not None:
        args.append(conv(noise))
        if radius is not None:
            args += [10, conv(radius)]
    else:
        if noise is not None:
            kw["gps_noise"] = conv(noise)
        if radius is not None:
            kw["search_radius"] = conv(radius)
    mapOnNetwork(tracks, net, *args, **kw)


def _snapshot(tr):
    out = []
    for i in range(tr.size()):
        o = tr.getObs(i)
        pos, ts = o.position, o.timestamp
        if not isinstance(pos, ENUCoords):
            raise Violation("track-position-changed", "observation %d: position is now %r" % (i, pos))
        if not isinstance(ts, ObsTime):
            raise Violation("track-timestamp-changed", "observation %d: timestamp is now %r" % (i, ts))
        out.append((id(o), pos.getX(), pos.getY(), pos.getZ(), gen.ms_of_obstime(ts)))
    return out


def body(case):
    edges = case["edges"]
    if not edges:
        return {"undef": True, "cls": ["undef-no-edge"]}
    geoms = [_edge_pts(case, e) for e in edges]
    if any(oracle.polyline_length(g) <= 0 for g in geoms):
        return {"undef": True, "cls": ["undef-zero-length-edge"]}
    (x0, x1, y0, y1), cells = _extent(case)
    if cells[0] < 1 or cells[1] < 1:
        return {"undef": True, "cls": ["undef-index-precondition"]}
    if cells[0] * cells[1] > 40000:
        # a grid of that many cells (tiny square cells on a very elongated extent) takes minutes to build and to
        # scan; the property does not depend on it, and a slow case must never be mistaken for a failure
        return {"undef": True, "cls": ["undef-grid-too-large"]}
    tracks_obs = [[tuple(p) for p in case["obs"]]] + [[tuple(p) for p in t] for t in case.get("more", [])]
    allobs = [p for t in tracks_obs for p in t]
    scale = max([1.0] + [abs(c) for g in geoms for p in g for c in p] + [abs(c) for p in allobs for c in p[:2]])
    tol_on = 1e-6 * scale
    tol_r = 1e-7 * scale

    net = _build_network(case)
    res = None if case["res"] is None else [case["res"][0], case["res"][1]]
    net.spatial_index = SpatialIndex(net, resolution=res, margin=case["margin"], verbose=False)
    net.prepare(verbose=False)
    vx = _vertical_xs(case)
    aligned_all = [p for p in allobs if p[0] in vx]
    calls = _calls(case, len(tracks_obs))
    tracks = [None] * len(tracks_obs)          # Track objects, created at first use, kept for later calls
    matched_edges, n_un, cls = set(), 0, set()
    seen = {}                                  # (x, y) -> largest radius of an earlier call that had a fix there
    for ci, call in enumerate(calls):
        noise, style = call["noise"], call.get("args", case.get("args", "kw"))
        given = call["radius"]
        radius = DEFAULT_RADIUS if given is None else given      # what the oracle demands: the radius in force
        cls.add("args=" + style)
        cls.add("radius:" + ("omitted(default)" if given is None else "zero" if given == 0 else "tiny(<1e-2)" if given < 1e-2
                             else "ordinary"))
        cls.add("noise:" + ("omitted(default)" if noise is None else "tiny(<=1e-2)" if noise <= 1e-2 else "huge(>=1e6)"
                            if noise >= 1e6 else "ordinary"))
        idx = list(call["t"])
        for i in idx:
            if tracks[i] is None or call.get("fresh"):
                tracks[i] = gen.make_track(tracks_obs[i])
        objs = [tracks[i] for i in idx]
        befores = [_snapshot(t) for t in objs]
        aligned = [p for i in idx for p in tracks_obs[i] if p[0] in vx]
        try:
            if call["how"] == "collection":
                _invoke(TrackCollection(list(objs)), net, given, noise, style)
            else:
                for t in objs:
                    _invoke(t, net, given, noise, style)
        except ZeroDivisionError as e:
            if exc_key(e) == "exc:ZeroDivisionError:proj_segment" and aligned:
                raise Violation(KF_VERTICAL, "ZeroDivisionError in proj_segment; observation(s) %s have the x of an "
                                "exactly vertical edge segment (x in %s)" % (aligned[:4], sorted(vx)))
            raise
        except OverflowError as e:
            # exp((dgeom - dtopo) / 10) in the transition model: dtopo >= -1, dgeom <= gap + 2 * radius
            gap = max([0.0] + [math.hypot(t[k + 1][0] - t[k][0], t[k + 1][1] - t[k][1])
                               for t in (tracks_obs[i] for i in idx) for k in range(len(t) - 1)])
            if exc_key(e) == "exc:OverflowError:tst_log" and gap + 2 * radius > 7000:
                raise Violation(K_OVERFLOW, "OverflowError in the transition model; consecutive fixes %.0f apart" % gap)
            raise
        for i, track, before in zip(idx, objs, befores):
            try:
                me, un = _judge_track(case, track, tracks_obs[i], before, geoms, (x0, x1, y0, y1), radius, scale,
                                      tol_on, tol_r, vx, cls)
            except Violation as v:
                if len(calls) == 1 and len(idx) == 1:
                    raise
                hist = ""
                if ci:
                    hist = "; earlier calls on this network: %s" % ", ".join(
                        "tracks %s radius %r noise %r" % (c["t"], c["radius"], c["noise"]) for c in calls[:ci])
                raise Violation(v.key, "call %d of %d (%s, tracks %s, radius %r, noise %r), track %d: %s%s" % (
                    ci, len(calls), call["how"], idx, radius, noise, i, v.msg, hist))
            matched_edges |= me
            n_un += un
        # measurement: a fix at a position that an earlier call already matched with another radius
        for i in idx:
            for p in tracks_obs[i]:
                r0 = seen.get((p[0], p[1]))
                if r0 is not None:
                    cls.add("fix-position-seen-in-earlier-call:" + ("smaller-radius-now" if radius < r0 else
                                                                    "same-radius" if radius == r0 else "larger-radius-now"))
        for i in idx:
            for p in tracks_obs[i]:
                seen[(p[0], p[1])] = max(radius, seen.get((p[0], p[1]), radius))
    if case.get("calls"):
        cls.add("calls=%d" % len(calls))
        if any(c.get("fresh") for c in calls[1:]):
            cls.add("rematch-fresh-track-object")
        done = set()
        for c in calls:
            if not c.get("fresh") and any(i in done for i in c["t"]):
                cls.add("rematch-same-track-object")
            done.update(c["t"])
    zs = [z for e in edges for z in _edge_z(case, e)]
    cls.add("net-z=zero" if not any(zs) else "net-z=constant" if len(set(zs)) == 1 else "net-z=varying")
    if len(tracks) > 1 and not case.get("calls"):
        cls.add("tracks=%d-%s" % (len(tracks), "collection" if case.get("call") != "one-by-one" else "one-by-one"))
    if any(c != round(c * 16) / 16 for p in case["nodes"] for c in p):
        cls.add("net-decimal-coordinates")
    cls.add("res-none" if case["res"] is None else
            "res-square" if case["res"][0] == case["res"][1] else "res-rect")
    if vx:
        cls.add("net-has-vertical-segment")
    if aligned_all:
        cls.add("some-obs-aligned-with-vertical(no-crash)")
    if any(len(g) > 2 for g in geoms):
        cls.add("net-multi-vertex-edge")
    if len(matched_edges) >= 2:
        cls.add("matched->=2-edges")
    if not matched_edges:
        cls.add("nothing-matched")
    nt = len(matched_edges) >= 2 and n_un >= 1
    return {"nt": nt, "cls": sorted(cls)}


def _judge_track(case, track, obs, before, geoms, extent, radius, scale, tol_on, tol_r, vx, cls):
    edges = case["edges"]
    x0, x1, y0, y1 = extent
    aligned = [k for k, p in enumerate(obs) if p[0] in vx]
    # -- the track keeps its observations ---------------------------------------------------------
    after = _snapshot(track)
    if len(after) != len(before):
        raise Violation("track-size-changed", "%d observations before, %d after" % (len(before), len(after)))
    for k, (b, a) in enumerate(zip(before, after)):
        if b[0] != a[0]:
            raise Violation("track-order-changed", "observation %d is another object after matching" % k)
        if b[1:4] != a[1:4]:
            raise Violation("track-position-changed", "observation %d: %s -> %s" % (k, b[1:4], a[1:4]))
        if b[4] != a[4]:
            raise Violation("track-timestamp-changed", "observation %d: %s -> %s ms" % (k, b[4], a[4]))

    # -- every observation: unmatched, or a point of an edge within the radius ----------------------
    matched_edges, n_un = set(), 0
    for k, o in enumerate(obs):
        ox, oy = o[0], o[1]
        s = track["hmm_inference", k]
        if not isinstance(s, tuple) or len(s) != 4:
            raise Violation("state-malformed", "hmm_inference[%d] = %r" % (k, s))
        p, e, d0, d1 = s
        if isinstance(e, (int, float)) and e == -1:
            if not (d0 == -1 and d1 == -1):
                raise Violation("unmatched-flag-inconsistent", "hmm_inference[%d] = (.., %r, %r, %r)" % (k, e, d0, d1))
            if (p.getX(), p.getY()) != (ox, oy):
                raise Violation("unmatched-position", "unmatched observation %d carries %s, observed (%r, %r)" % (k, p, ox, oy))
            n_un += 1
            inside = x0 <= ox <= x1 and y0 <= oy <= y1
            cls.add("obs-unmatched-inside-index" if inside else "obs-unmatched-outside-index")
            continue
        if not (isinstance(e, int) and 0 <= e < len(edges)):
            raise Violation("edge-number-invalid", "hmm_inference[%d] names edge %r of %d" % (k, e, len(edges)))
        px, py = float(p.getX()), float(p.getY())
        g = geoms[e]
        if not (px == px and py == py):
            raise Violation("matched-point-nan", "hmm_inference[%d] point (%r, %r)" % (k, px, py))
        dg = oracle.pt_polyline_dist(px, py, g)
        if dg > tol_on:
            on_other = [j for j, h in enumerate(geoms) if oracle.pt_polyline_dist(px, py, h) <= tol_on]
            raise Violation("point-not-on-edge", "observation %d -> point (%r, %r) is %.3g away from edge #%d %s "
                            "(edges it does lie on: %s)" % (k, px, py, dg, e, g, on_other))
        do = math.hypot(ox - px, oy - py)
        if not do < radius + tol_r:
            raise Violation("beyond-search-radius", "observation %d (%r, %r) -> point (%r, %r) at distance %r, radius %r"
                            % (k, ox, oy, px, py, do, radius))
        absc, L = _abscissas((px, py), g, tol_on)
        if not (isinstance(d0, (int, float)) and isinstance(d1, (int, float)) and d0 == d0 and d1 == d1):
            raise Violation("node-distance-malformed", "hmm_inference[%d] distances %r, %r" % (k, d0, d1))
        if abs(d0 + d1 - L) > 1e-6 * max(L, scale):
            raise Violation("node-distances-sum", "observation %d on edge #%d: %r + %r = %r, edge length %r"
                            % (k, e, d0, d1, d0 + d1, L))
        if not any(abs(d0 - a) <= 2 * tol_on + 1e-9 * L for a in absc):
            raise Violation("source-distance-not-abscissa", "observation %d on edge #%d at (%r, %r): distance to source %r, "
                            "abscissa(s) of the point %s" % (k, e, px, py, d0, absc))
        if d0 < -tol_on or d1 < -tol_on:
            raise Violation("node-distance-negative", "observation %d: %r, %r" % (k, d0, d1))
        matched_edges.add(e)
        cls.add("obs-matched")
        # where on the edge, and how close to the radius
        seg = [i for i in range(len(g) - 1)
               if oracle.pt_seg_dist(px, py, g[i][0], g[i][1], g[i + 1][0], g[i + 1][1]) <= tol_on]
        if any(g[i][0] == g[i + 1][0] for i in seg):
            cls.add("matched-on-vertical-segment")
        if any(g[i][1] == g[i + 1][1] for i in seg):
            cls.add("matched-on-horizontal-segment")
        if any(g[i][0] != g[i + 1][0] and g[i][1] != g[i + 1][1] for i in seg):
            cls.add("matched-on-oblique-segment")
        if any(math.hypot(px - v[0], py - v[1]) <= tol_on for v in g):
            cls.add("matched-at-vertex")
        else:
            cls.add("matched-inside-segment")
        if do > 0.9 * radius:
            cls.add("matched-at-0.9..1-radius")
        if do == 0:
            cls.add("matched-obs-exactly-on-edge")
        if k in aligned:
            cls.add("matched-obs-aligned-with-vertical")
    return matched_edges, n_un


# ------------------------------------------------------------------------------------------------
# generator
Q = 0.125


def _lat(lo, hi, step=0.25):
    return gen.lattice(step, lo, hi)


_S_Z = st.one_of(st.sampled_from([0.0, 2.5, -7.0, 30.0, 120.0, 1000.0]), gen.lattice(0.25, -64, 64))


@st.composite
def _network(draw):
    W = draw(st.sampled_from([8, 32, 32, 128, 128, 512]))
    kind = draw(st.sampled_from(["grid", "grid", "shared", "free", "decimal"]))
    if kind == "grid":
        S = draw(st.sampled_from([W / 4, W / 8, W / 2]))
        ox, oy = draw(_lat(-W, W)), draw(_lat(-W, W))
        nx, ny = draw(st.integers(2, 4)), draw(st.integers(2, 3))
        cells = draw(st.lists(st.tuples(st.integers(0, nx - 1), st.integers(0, ny - 1)),
                              min_size=3, max_size=min(10, nx * ny), unique=True))
        nodes = [[ox + i * S, oy + j * S] for i, j in cells]
    elif kind == "shared":
        xs = draw(st.lists(_lat(-W, W), min_size=2, max_size=4, unique=True))
        ys = draw(st.lists(_lat(-W, W), min_size=2, max_size=4, unique=True))
        cells = draw(st.lists(st.tuples(st.integers(0, len(xs) - 1), st.integers(0, len(ys) - 1)),
                              min_size=3, max_size=min(10, len(xs) * len(ys)), unique=True))
        nodes = [[xs[i], ys[j]] for i, j in cells]
    elif kind == "decimal":                                # 3-decimal coordinates: inexact arithmetic in the projections
        dec = st.integers(-W * 1000, W * 1000).map(lambda k: k / 1000.0)
        nodes = draw(st.lists(st.tuples(dec, dec).map(list), min_size=3, max_size=10,
                              unique_by=lambda p: (p[0], p[1])))
    else:
        nodes = draw(st.lists(st.tuples(_lat(-W, W), _lat(-W, W)).map(list), min_size=3, max_size=10,
                              unique_by=lambda p: (p[0], p[1])))
    if draw(st.integers(0, 9)) == 0:                      # a second node at an existing position
        nodes.append(list(nodes[draw(st.integers(0, len(nodes) - 1))]))
    nn = len(nodes)
    ne = draw(st.integers(2, 12))
    raw = draw(st.lists(st.tuples(st.integers(0, nn - 1), st.integers(0, nn - 1), st.sampled_from([0, 0, 1, -1]),
                                  st.lists(st.tuples(st.integers(0, 5), _lat(-W, W), _lat(-W, W)), max_size=2)),
                        min_size=ne, max_size=ne))
    ids = draw(st.lists(st.integers(0, 60), min_size=ne, max_size=ne, unique=True))
    edges = []
    for k, (a, b, ori, mids) in enumerate(raw):
        if a == b and not mids:
            b = (a + 1) % nn
        pa, pb = nodes[a], nodes[b]
        mid = []
        for (how, fx, fy) in mids:
            prev = mid[-1] if mid else pa
            if how == 0:
                v = [pa[0], pb[1]]                        # dogleg corner: vertical then horizontal
            elif how == 1:
                v = [pb[0], pa[1]]                        # horizontal then vertical
            elif how == 2:
                v = [(prev[0] + pb[0]) / 2, (prev[1] + pb[1]) / 2]     # collinear (exact on the 1/8.. lattice)
            elif how == 3:
                v = [prev[0], fy]                         # vertical leg from the previous vertex
            elif how == 4:
                v = [fx, fy]
            else:
                v = list(prev)                            # repeated vertex (zero-length leg)
            mid.append(v)
        pts = [pa] + mid + [pb]
        if oracle.polyline_length(pts) <= 0:
            continue
        edges.append({"id": ids[k], "src": a, "tgt": b, "ori": ori, "mid": mid})
    if edges:                                             # non-degenerate extent (index precondition) by construction
        allp = [p for e in edges for p in [nodes[e["src"]], nodes[e["tgt"]]] + e["mid"]]
        if len(set(p[0] for p in allp)) == 1 or len(set(p[1] for p in allp)) == 1:
            a = nodes[edges[0]["src"]]
            edges[0]["mid"] = [[a[0] + W / 8, a[1] + W / 8]] + edges[0]["mid"]
    out = {"nodes": nodes, "node_ids": [3 * i + 1 for i in range(nn)], "edges": edges, "W": W}
    # heights of the network vertices: none (z = 0 everywhere), one constant, or varying along the edges
    zmode = draw(st.sampled_from(["zero", "zero", "zero", "constant", "varying", "varying"]))
    if zmode == "constant":
        z0 = draw(_S_Z.filter(lambda z: z != 0))
        out["nz"] = [z0] * nn
        for e in edges:
            e["midz"] = [z0] * len(e["mid"])
    elif zmode == "varying":
        out["nz"] = draw(st.lists(_S_Z, min_size=nn, max_size=nn))
        if len(set(out["nz"])) == 1 and not any(e["mid"] for e in edges):
            out["nz"][0] = out["nz"][0] + W / 4
        for e in edges:
            e["midz"] = draw(st.lists(_S_Z, min_size=len(e["mid"]), max_size=len(e["mid"])))
    return out


_RADII_EDGE = [0.0, 0.0, 0.0, 1e-9, 1e-3, None]          # None: argument omitted
_NOISES_EDGE = [1e-3, 0.01, 1e6, 1e9, None]
_FACT = [0.0, 0.0, 0.01, 0.5, 0.9, 0.999, 1.0, 1.001, 1.1, 1.5, 1.9, 1.999, 2.0, 2.5, 5.0, 20.0]


@st.composite
def _case(draw):
    net = draw(_network())
    W = net.pop("W")
    case = dict(net)
    case["margin"] = draw(st.sampled_from([0.05, 0.05, 0.1, 0.15, 0.5]))
    # parameters incl. their boundary values: radius 0 (nothing may be matched: the code demands d < radius), tiny radii
    # (exact hits only), omitted (default 50); noise tiny / huge / omitted; handed over by keyword or positionally, as
    # floats or as Python ints
    case["radius"] = draw(st.sampled_from(2 * (RADII + [0.5, 5.5]) + _RADII_EDGE))
    case["noise"] = draw(st.sampled_from(3 * NOISES + _NOISES_EDGE))
    case["args"] = draw(st.sampled_from(ARG_STYLES))
    case["coll"] = draw(st.integers(0, 7)) == 0
    case["res"] = None
    edges = case["edges"]
    r = case["radius"]
    if r is None:
        r = DEFAULT_RADIUS
    elif r < 0.5:
        r = draw(st.sampled_from([1.0, 5.0, 25.0]))        # reference length of the offsets of the fixes when the radius is ~0
    if not edges:
        case["obs"] = [[0.0, 0.0]]
        return case
    (x0, x1, y0, y1), _ = _extent(case)
    ax, ay = x1 - x0, y1 - y0
    # ---- index resolution: constructed from a cell count so that the precondition holds -------------
    how = draw(st.sampled_from(["none", "square", "square", "rect", "rect", "rect"]))
    if how != "none" and ax > 0 and ay > 0:
        n1 = draw(st.one_of(st.integers(1, 6), st.integers(1, 40)))
        n2 = draw(st.one_of(st.integers(1, 6), st.integers(1, 40)))
        f1 = draw(st.sampled_from([0.05, 0.25, 0.5, 0.9]))
        f2 = draw(st.sampled_from([0.05, 0.25, 0.5, 0.9]))
        if how == "square" and max(ax, ay) / (min(ax, ay) / (n1 + f1)) <= 400:
            s = min(ax, ay) / (n1 + f1)
            case["res"] = [s, s]
        else:
            case["res"] = [ax / (n1 + f1), ay / (n2 + f2)]
    # ---- observations -------------------------------------------------------------------------------
    vx = _vertical_xs(case)

    pool = []                       # fixes of the tracks generated so far (exact positions can be shared)

    def one_track(nobs):
        obs = []
        for _ in range(nobs):
            if pool and draw(st.integers(0, 3)) == 0:
                obs.append(list(pool[draw(st.integers(0, len(pool) - 1))]))
                continue
            e = edges[draw(st.integers(0, len(edges) - 1))]
            pts = _edge_pts(case, e)
            j = draw(st.integers(0, len(pts) - 2))
            (ax_, ay_), (bx, by) = pts[j], pts[j + 1]
            t = draw(st.sampled_from([0.0, 1.0, 0.5, 0.25, 0.125, 0.75, 0.3, 0.9]))
            bxp, byp = ax_ + t * (bx - ax_), ay_ + t * (by - ay_)
            L = math.hypot(bx - ax_, by - ay_)
            ux, uy = ((bx - ax_) / L, (by - ay_) / L) if L > 0 else (1.0, 0.0)
            kind = draw(st.sampled_from(["on", "perp", "perp", "perp", "along", "axis", "axis", "outside", "free", "veryfar"]))
            f = draw(st.sampled_from(_FACT))
            sg = draw(st.sampled_from([-1.0, 1.0]))
            if kind == "on":
                p = [bxp, byp]
            elif kind == "perp":
                p = [bxp - sg * uy * f * r, byp + sg * ux * f * r]
            elif kind == "along":
                base = (bx, by) if sg > 0 else (ax_, ay_)
                p = [base[0] + sg * ux * f * r, base[1] + sg * uy * f * r]
            elif kind == "axis":
                if draw(st.booleans()):
                    p = [bxp + sg * f * r, byp]
                else:
                    p = [bxp, byp + sg * f * r]
            elif kind == "outside":
                g = draw(st.sampled_from([0.0, 0.01, 0.5, 3.0]))
                cx = draw(st.sampled_from([x0 - g * r - Q, x1 + g * r + Q, x0, x1, bxp]))
                cy = draw(st.sampled_from([y0 - g * r - Q, y1 + g * r + Q, y0, y1, byp]))
                p = [cx, cy]
            elif kind == "veryfar":
                if draw(st.integers(0, 3)) == 0:
                    p = [bxp + sg * draw(st.sampled_from([3000.0, 8000.0, 20000.0])), byp]
                else:
                    p = [bxp + sg * 40.0 * r, byp - sg * 40.0 * r]
            else:
                p = [draw(_lat(x0 - W / 4, x1 + W / 4)), draw(_lat(y0 - W / 4, y1 + W / 4))]
            # exact alignment with a vertical segment (the recorded proj_segment crash) only sometimes
            if p[0] in vx and draw(st.integers(0, 3)) != 0:
                d = draw(st.sampled_from([2.0 ** -7, -2.0 ** -7, 2.0 ** -20]))
                for _try in range(4):
                    if p[0] + d not in vx and p[0] + d != p[0]:
                        break
                    d *= 3
                p[0] = p[0] + d
            z = draw(st.sampled_from([0.0, 0.0, 0.0, 0.0, 50.0, -300.0]))
            obs.append([float(p[0]), float(p[1])] + ([z] if z else []))
        pool.extend(obs)
        return obs

    case["obs"] = one_track(draw(st.one_of(st.integers(1, 8), st.integers(4, 8))))
    # several tracks matched on the same prepared network: in one call (TrackCollection) or one call per track
    if draw(st.integers(0, 3)) == 0:
        case["more"] = [one_track(draw(st.integers(1, 6))) for _ in range(draw(st.integers(1, 2)))]
        case["call"] = draw(st.sampled_from(["collection", "collection", "one-by-one"]))
    # several matching calls on the same prepared network, each with its own radius / noise; tracks are matched again
    # (the same Track object or a fresh copy) or share exact fix positions with tracks of earlier calls
    if draw(st.integers(0, 3)) == 0:
        nt = 1 + len(case.get("more", []))
        s_rad = st.sampled_from([r, r, 0.2 * r, 0.5 * r, 2.0 * r] + RADII + [0.5, 5.5] + _RADII_EDGE)
        calls = []
        for ci in range(draw(st.sampled_from([2, 2, 2, 3]))):
            if nt == 1 or draw(st.integers(0, 2)) == 0:
                t = [draw(st.integers(0, nt - 1))] if ci else [0]
                how = draw(st.sampled_from(["single", "single", "collection"]))
            else:
                t = draw(st.lists(st.integers(0, nt - 1), min_size=1, max_size=nt, unique=True))
                how = "collection" if len(t) > 1 else "single"
            calls.append({"t": t, "radius": case["radius"] if ci == 0 else draw(s_rad),
                          "noise": draw(st.sampled_from(3 * NOISES + _NOISES_EDGE)),
                          "how": how, "fresh": draw(st.integers(0, 2)) == 0, "args": draw(st.sampled_from(ARG_STYLES))})
        case["calls"] = calls
    return case


def strat_case():
    return _case()


# ------------------------------------------------------------------------------------------------
# enumerated family: the network of test_mapping.py, single-column tracks swept over a lattice
def _suite_network():
    nodes = [[0, 0], [10, 0], [20, 0], [10, 5], [20, 5], [30, 0]]
    E = [(0, 1), (1, 3), (3, 4), (1, 2), (4, 2), (2, 5)]
    return {"nodes": [[float(a), float(b)] for a, b in nodes], "node_ids": [1, 2, 3, 4, 5, 6],
            "edges": [{"id": k + 1, "src": a, "tgt": b, "ori": 0, "mid": []} for k, (a, b) in enumerate(E)]}


def enum_sweep(tier):
    step = 1.0 if tier == "quick" else 0.25
    nx = int(round(38 / step))
    for r in ([1.0, 5.5, 0.0] if tier == "quick" else [0.5, 1.0, 2.5, 5.5, 25.0, 0.0, 1e-6]):
        for res in ([5.0, 1.0], None, [2.0, 2.0]):
            if tier == "quick" and res is None:
                continue
            for i in range(nx + 1):
                x = -4.0 + i * step
                for sh in (0.0, 2.0 ** -10):
                    if sh and x not in (10.0, 20.0):
                        continue
                    case = _suite_network()
                    case.update({"margin": 0.15, "radius": r, "noise": 10.0, "coll": False, "res": res,
                                 "args": "kw" if r else ARG_STYLES[i % 4],
                                 "obs": [[x + sh, y] for y in (-3.0, -1.0, 0.0, 0.5, 2.5, 4.0, 5.0, 6.0)]})
                    yield case
            if r != 1.0:
                continue
            # the same columns on the network with heights, matched three times on the same prepared network: wide
            # radius, narrow radius (same Track object), wide radius again (fresh Track object)
            for i in range(nx + 1):
                case = _suite_network()
                case["nz"] = [0.0, 3.0, -2.0, 10.0, 4.0, 1.0]
                case.update({"margin": 0.15, "radius": 5.5, "noise": 10.0, "coll": False, "res": res,
                             "obs": [[-4.0 + i * step + 2.0 ** -10, y] for y in (-3.0, -1.0, 0.0, 0.5, 2.5, 4.0, 5.0, 6.0)],
                             "calls": [{"t": [0], "radius": 5.5, "noise": 10.0, "how": "single", "fresh": False},
                                       {"t": [0], "radius": 1.0, "noise": 50.0, "how": "single", "fresh": False},
                                       {"t": [0], "radius": 5.5, "noise": 1.0, "how": "collection", "fresh": True}]})
                yield case


RULE = ("random: Hypothesis - networks of 2..12 edges on 3..11 nodes (grid / shared-coordinate / free lattice / 3-decimal positions, "
        "0..2 interior vertices incl. doglegs, collinear and repeated vertices, orientations 0/+1/-1, edge ids != edge numbers), "
        "index resolution None / square / rectangular built from a cell count 1..40, margin 0.05..0.5, radius in "
        "{0.5,1,5,5.5,25,100} (2/3) or a boundary value {0 (x3), 1e-9, 1e-3, omitted} (1/3), noise in {1,10,50} (9/14) or "
        "{1e-3, 0.01, 1e6, 1e9, omitted}, parameters by keyword / positionally x float / int (labels args=*, radius:*, noise:*), "
        "1..8 fixes = point of an edge + offset (in units of the radius; of 1 / 5 / 25 when the radius is < 0.5) (on / perpendicular / along / axis "
        "offsets of 0..20 radii, outside the index, free, very far); exact x-alignment with a vertical segment kept in 1 of 4. "
        "1..3 tracks per case (a quarter of the fixes of a later track repeat an exact earlier position); in about 1/3 of the cases 2..3 matching "
        "calls on the same prepared network, each with its own radius (the first one, or x0.2 / x0.5 / x2, or any of the list) and noise, "
        "on the same Track object or a fresh copy (labels calls=*, rematch-*, fix-position-seen-in-earlier-call:*, net-z=*). "
        "sweep: the 6-edge network of test_mapping.py, 8-fix vertical tracks at every x of a lattice over [-4,34], radii {1, 5.5, 0} "
        "(thorough: {0.5, 1, 2.5, 5.5, 25, 0, 1e-6}; radius 0 handed over in all four ways), "
        "plus the same columns on that network with node heights matched three times (radius 5.5, 1.0, 5.5). "
        "Non-trivial: >= 2 fixes matched to different edges and >= 1 fix unmatched. Distinct = hash of the case.")

SUBCHECKS = [
    SubCheck("random", body, strategy=strat_case, quick=8000, thorough=120000, qshards=16, tshards=16),
    SubCheck("sweep", body, enum=enum_sweep, rule="test-suite network x lattice of track columns", qshards=4),
]
