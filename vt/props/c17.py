"""C17 - curvilinear abscissa and speed features match their geometric definitions.

Oracle: cumulative sum of math.hypot over consecutive planimetric positions; neighbour chord divided
by the elapsed time computed from the generated integer milliseconds.  Nothing of tracklib is used
to compute an expected value."""
import itertools
import math
import numbers

import numpy as np
from hypothesis import strategies as st

from tracklib.core.obs import Obs
from tracklib.core.obs_coords import ENUCoords
from tracklib.core.obs_time import ObsTime
from tracklib.core.track import Track

from tracklib.algo.analytics import ds as af_ds, speed as af_speed
from tracklib.algo.cinematics import computeAbsCurv

from vt import gen
from vt.core import HarnessError, SubCheck, Violation, same

REL = 1e-9                      # stated tolerance, relative to the quantity compared
REL_F32 = 1e-6                  # ... when the coordinates are numpy float32 scalars: the library's differences and squares
                                # are then numpy float32 operations (2^-24 = 6e-8 each)
INT32_MAX_MS = (2 ** 31 - 86400) * 1000
EPS = 2.0 ** -52
DT_ERR = 1e-6                   # tracklib forms dt as a difference of float epoch seconds (~4e9 s, ulp 4.8e-7 s):
                                # only when every timestamp is a multiple of 125 ms are those floats exact
MAX_SPAN = 400 * gen.DAY_MS

ASSUMPTIONS = [
    "ENU tracks, 2..12 fixes, finite coordinates up to ~1e9 in magnitude, timestamps 1970..2099 non-decreasing, ms resolution",
    "reference distance = math.hypot of the float coordinate differences; reference dt = integer ms difference / 1000",
    "speed tolerance 1e-9 relative when all timestamps are multiples of 125 ms (epoch seconds exact in binary); otherwise "
    "widened by 2e-6 s / dt because the library subtracts float epoch seconds whose rounding error is up to 4.8e-7 s",
    "'ds already present' means a ds feature produced by the library itself: Track.addAnalyticalFeature(ds) on the track, "
    "or inherited through Track.extract() from a longer track on which it was computed (then ds[0] is the leg to the fix "
    "before the extract and is not 0); a hand-written ds with arbitrary numbers is outside the property",
    "abs_curv is not present before the first computeAbsCurv call (a stale abs_curv is returned as is, by design of the API)",
    "features other than abs_curv / speed / ds are carried along but nothing is demanded of them",
    "number types (case['cnum'], case['tnum']): the coordinates are handed to ENUCoords as Python floats, as Python ints where "
    "integer-valued, as numpy float64 scalars, or as numpy float32 scalars (the case's numbers are first rounded to float32 - "
    "those values are the track; tolerance 1e-6 relative instead of 1e-9 because the library then computes differences and "
    "squares in float32); the timestamp fields are handed to ObsTime as Python ints, or the seconds field / all seven fields "
    "as numpy int64 or int32 scalars (a column of a numpy array or a pandas frame).  int32 fields only for tracks that end "
    "before 2038-01-18 (epoch seconds must fit the field's own type: numpy raises OverflowError on int32 arithmetic beyond, "
    "such a case is answered undef).  The oracle always works on the plain numbers of the case; a numpy scalar as feature "
    "value is accepted as a number; NaN is demanded for a zero elapsed time whatever the types",
    "two-object histories (case['part']): a second Track object is derived from the track by extract / slice / > / < / % "
    "(it shares the Obs objects, and tracklib stores feature values positionally in the Obs) and the operations of the "
    "script are applied to the part ('@p') or to the whole in any order; each track is judged against its own fixes. "
    "A call is judged in full when it computes its feature afresh on that track (the feature is not yet in that track's "
    "table, or it was computed on that very track and nothing was computed through the other track since); "
    "addAnalyticalFeature(speed) always recomputes and is always judged.  Not judged (counted as 'not-judged:*'): a call that "
    "returns a feature the part inherited at derivation (it belongs to the parent's geometry, same rule as a stale "
    "abs_curv) or a stored feature after the other track wrote into the shared Obs; the stored features are re-read at "
    "the end only on the track that computed last",
    "the part is derived while the whole carries no ds feature: a ds listed in both tables and then removed through one "
    "track shifts the positional feature slots of the other (storage design of Obs.features, outside the statement)",
]


# ---------------------------------------------------------------------------------------------
def _model(pts, times):
    n = len(pts)
    legs = [math.hypot(pts[i + 1][0] - pts[i][0], pts[i + 1][1] - pts[i][1]) for i in range(n - 1)]
    cum = [0.0]
    for d in legs:
        cum.append(cum[-1] + d)
    spd = []
    for i in range(n):
        a, b = (0, 1) if i == 0 else (n - 2, n - 1) if i == n - 1 else (i - 1, i + 1)
        dms = times[b] - times[a]
        d = math.hypot(pts[b][0] - pts[a][0], pts[b][1] - pts[a][1])
        spd.append((d, dms))
    return legs, cum, spd


def _num(v):
    return isinstance(v, numbers.Real) and not isinstance(v, (bool, np.bool_))


# --- number types -----------------------------------------------------------------------------------
CNUMS = ("float", "int", "np64", "np32")
TNUMS = ("py", "int64:sec", "int64:all", "int32:sec", "int32:all")


def _coord_of(v, cnum):
    if cnum == "int":
        return gen.as_int_if_integral(v)
    if cnum == "np64":
        return np.float64(v)
    if cnum == "np32":
        return np.float32(v)
    return v


def _obstime(ms, tnum):
    f = gen.fields_of_ms(ms)
    if tnum == "py":
        return ObsTime(*f)
    typ = np.int64 if tnum.startswith("int64") else np.int32
    if tnum.endswith(":sec"):
        return ObsTime(f[0], f[1], f[2], f[3], f[4], typ(f[5]), f[6])
    return ObsTime(*[typ(v) for v in f])


def _make_track(pts, times, feats, cnum, tnum):
    """like gen.make_track, with the number types of the case"""
    tr = Track([], 1)
    for p, t in zip(pts, times):
        tr.addObs(Obs(ENUCoords(_coord_of(p[0], cnum), _coord_of(p[1], cnum), _coord_of(p[2], cnum)), _obstime(t, tnum)))
    for name, vals in (feats or {}).items():
        tr.createAnalyticalFeature(name, list(vals))
    return tr


def _ms_of(t):
    return gen.ms_of_fields(int(t.year), int(t.month), int(t.day), int(t.hour), int(t.min), int(t.sec), int(t.ms))


def _check_abscurv(S, legs, cum, what, REL=REL):
    n = len(cum)
    if len(S) != n:
        raise Violation("abscurv-length", "%s: %d values for %d fixes" % (what, len(S), n))
    if not all(_num(v) for v in S):
        raise Violation("abscurv-not-a-number", "%s: %r" % (what, S))
    if S[0] != 0:
        raise Violation("abscurv-start-not-0", "%s: abs_curv[0] = %r" % (what, S[0]))
    for i in range(n - 1):
        if not S[i + 1] >= S[i]:
            raise Violation("abscurv-decreases", "%s: abs_curv[%d]=%r > abs_curv[%d]=%r" % (what, i, S[i], i + 1, S[i + 1]))
        inc = S[i + 1] - S[i]
        # the increment is read back from two cumulated floats: resolution of the cumulated value is the floor
        if abs(inc - legs[i]) > REL * legs[i] + 8 * EPS * abs(S[i + 1]):
            raise Violation("abscurv-increment-wrong", "%s: abs_curv[%d]-abs_curv[%d] = %r, leg is %r" % (
                what, i + 1, i, inc, legs[i]))
        if abs(S[i + 1] - cum[i + 1]) > REL * cum[i + 1]:
            raise Violation("abscurv-cumul-wrong", "%s: abs_curv[%d] = %r, cumulated length is %r" % (
                what, i + 1, S[i + 1], cum[i + 1]))
    if abs(S[-1] - cum[-1]) > REL * cum[-1]:
        raise Violation("abscurv-total-wrong", "%s: last = %r, planimetric length = %r" % (what, S[-1], cum[-1]))


def _check_speed(V, spd, exact, what, REL=REL):
    n = len(spd)
    if len(V) != n:
        raise Violation("speed-length", "%s: %d values for %d fixes" % (what, len(V), n))
    for i, (d, dms) in enumerate(spd):
        g = V[i]
        where = "end" if i in (0, n - 1) else "interior"
        if not _num(g):
            raise Violation("speed-not-a-number", "%s: speed[%d] = %r" % (what, i, g))
        if dms == 0:
            if g == g:
                raise Violation("speed-%s-zero-dt-not-nan" % where, "%s: speed[%d] = %r with dt = 0" % (what, i, g))
            continue
        if g != g:
            raise Violation("speed-%s-nan-with-dt" % where, "%s: speed[%d] is NaN, dt = %d ms" % (what, i, dms))
        dt = dms / 1000.0
        want = d / dt
        tol = REL * want
        if not exact:
            tol += want * 2 * DT_ERR / dt
        if abs(g - want) > tol:
            raise Violation("speed-%s-wrong" % where, "%s: speed[%d] = %r, expected %r (chord %r over %r s)" % (
                what, i, g, want, d, dt))


def _part_indices(part, n):
    """indices (in the whole track) of the fixes of the derived part; parameters are normalised so that any two
    integers give a part of >= 2 fixes"""
    how, a, b = part["how"], part.get("a", 0), part.get("b", 0)
    if how in ("extract", "slice"):
        a = a % (n - 1)
        b = a + 1 + b % (n - 1 - a)
        return list(range(a, b + 1)), (a, b)
    if how == "gt":
        a = a % (n - 1)
        return list(range(a, n)), (a,)
    if how == "lt":
        a = a % (n - 1)
        return list(range(0, n - a)), (a,)
    if how == "mod":
        k = 1 + a % (n - 1)
        return list(range(0, n, k)), (k,)
    raise HarnessError("unknown derivation %r" % (how,))


def _derive(tr, part, n):
    idxs, prm = _part_indices(part, n)
    how = part["how"]
    if how == "extract":
        sub = tr.extract(prm[0], prm[1])
    elif how == "slice":
        sub = tr[prm[0]:prm[1] + 1]
    elif how == "gt":
        sub = tr > prm[0]
    elif how == "lt":
        sub = tr < prm[0]
    else:
        sub = tr % prm[0]
    return sub, idxs


class _Side:
    """one of the two Track objects of a case with its model: fixes, expected values and the model of its feature
    table (name -> 'own' computed on this track and not touched since | 'inh-ok' ds of a longer contiguous track |
    'inh' inherited at derivation (belongs to another geometry) | 'clob' possibly overwritten through the other
    track, which shares the Obs objects)"""

    def __init__(self, label, tr, pts, times, names):
        self.label, self.tr, self.pts, self.times, self.names = label, tr, pts, times, names
        self.legs, self.cum, self.spd = _model(pts, times)
        self.exact = all(t % 125 == 0 for t in times)
        self.rel = REL
        self.first_abs = None
        self.judged = 0
        self.other = None

    def touch_other(self):
        if self.other is not None:
            for k in self.other.names:
                self.other.names[k] = "clob"


def _run(case):
    """case: pts [[x,y,z]] (n>=2), t0 ms, dts [n-1 ms >= 0], ops [..], inherit None | {'pt': [x,y,z], 'dt': ms},
    extra: bool (two unrelated features, one created before everything, one between the operations),
    part: None | {'how': extract|slice|gt|lt|mod, 'a', 'b', 'at'}: before operation number 'at' a second Track object is
    derived from the track (it shares the Obs objects); an operation 'xxx@p' is applied to the derived part, 'xxx' to the
    whole track"""
    cnum, tnum = case.get("cnum", "float"), case.get("tnum", "py")
    if cnum not in CNUMS or tnum not in TNUMS:
        return {"undef": True}
    as_case = (lambda c: float(np.float32(c))) if cnum == "np32" else float       # float32 scalars: the rounded values are the track
    rel = REL_F32 if cnum == "np32" else REL
    pts = [tuple(as_case(c) for c in p) for p in case["pts"]]
    if not all(math.isfinite(c) for p in pts for c in p):
        return {"undef": True}
    n = len(pts)
    times = [case["t0"]]
    for d in case["dts"]:
        times.append(times[-1] + d)
    if tnum.startswith("int32") and times[-1] > INT32_MAX_MS:
        return {"undef": True, "cls": ["int32-fields-after-2038"]}
    part = case.get("part")
    ops = case["ops"]
    if part is not None and (part["at"] < 0 or any(o.endswith("@p") for o in ops[:part["at"]])):
        return {"undef": True}

    inh = case.get("inherit")
    feats = {"note": [float(7 * i) for i in range(n + 1)]} if case.get("extra") else {}
    names = {"note": "own"} if case.get("extra") else {}
    if inh:
        lead = tuple(as_case(c) for c in inh["pt"])
        parent = _make_track([lead] + pts, [max(times[0] - inh["dt"], 0)] + times, feats, cnum, tnum)
        parent.addAnalyticalFeature(af_ds)
        tr = parent.extract(1, n)
        names["ds"] = "inh-ok"
    else:
        tr = _make_track(pts, times, {k: v[:n] for k, v in feats.items()}, cnum, tnum)
    W = _Side("whole", tr, pts, times, names)
    W.rel = rel
    sides = {"w": W}
    cls = []

    have_abs = have_speed = False
    for step, op in enumerate(ops):
        if part is not None and step == part["at"]:
            if "ds" in W.names:
                # a ds listed in both tables and then removed through one of the two tracks shifts the slots of the
                # other one (tracklib stores features positionally in the shared Obs): outside the statement
                return {"undef": True, "cls": ["part-derived-while-ds-present"]}
            sub, idxs = _derive(W.tr, part, n)
            if sub.size() != len(idxs):
                raise Violation("derived-part-size", "%s%r of %d fixes has %d fixes, expected %d" % (
                    part["how"], _part_indices(part, n)[1], n, sub.size(), len(idxs)))
            P = _Side("part", sub, [pts[i] for i in idxs], [times[i] for i in idxs], {k: "inh" for k in W.names})
            P.other, W.other = W, P
            P.rel = rel
            sides["p"] = P
        name, _, tgt = op.partition("@")
        X = sides[tgt or "w"]
        what = "op %d (%s) of %s%s" % (step, op, ops, "" if part is None else " with part %r" % (part,))
        nm = X.names
        if name == "abs":
            t_ds, t_abs = nm.get("ds"), nm.get("abs_curv")
            judged = t_abs == "own" or (t_abs is None and t_ds in (None, "own", "inh-ok"))
            S = computeAbsCurv(X.tr)
            if judged:
                _check_abscurv(S, X.legs, X.cum, what, X.rel)
                stored = X.tr.getAnalyticalFeature("abs_curv")
                if len(stored) != len(S) or not all(same(a, b) for a, b in zip(S, stored)):
                    raise Violation("abscurv-return-differs-from-feature", "%s: returned %r, stored %r" % (what, S, stored))
                if t_abs == "own" and X.first_abs is not None and not all(same(a, b) for a, b in zip(S, X.first_abs)):
                    raise Violation("abscurv-not-repeatable", "%s: %r, first call gave %r" % (what, S, X.first_abs))
                if X.first_abs is None:
                    X.first_abs = list(S)
                nm["abs_curv"] = "own"
                X.judged += 1
                have_abs = True
            else:
                cls.append("not-judged:abs_curv-inherited-or-overwritten-through-shared-obs")
                if t_abs is None:
                    nm["abs_curv"] = "clob"
            if "ds" in X.tr.getListAnalyticalFeatures():
                raise Violation("abscurv-leaves-ds", "%s: features %s" % (what, X.tr.getListAnalyticalFeatures()))
            nm.pop("ds", None)
            X.touch_other()
        elif name == "ds":
            X.tr.addAnalyticalFeature(af_ds)
            nm["ds"] = "own"
            X.touch_other()
        elif name in ("speed_est", "speed_add"):
            t_sp = nm.get("speed")
            judged = name == "speed_add" or t_sp in (None, "own")
            V = X.tr.estimate_speed() if name == "speed_est" else X.tr.addAnalyticalFeature(af_speed)
            if judged:
                _check_speed(V, X.spd, X.exact, what, X.rel)
                if name == "speed_add" or t_sp is None:
                    X.touch_other()
                nm["speed"] = "own"
                X.judged += 1
                have_speed = True
            else:
                cls.append("not-judged:speed-inherited-or-overwritten-through-shared-obs")
        elif name == "note":
            if "note2" not in nm:
                X.tr.createAnalyticalFeature("note2", [float(-i) for i in range(len(X.pts))])
                nm["note2"] = "own"
                X.touch_other()
        else:
            raise HarnessError("unknown operation %r" % (op,))
    # final state: the features still read as defined (where nothing was written through the other track since),
    # fixes untouched
    for X in sides.values():
        if X.names.get("abs_curv") == "own":
            _check_abscurv(X.tr.getAnalyticalFeature("abs_curv"), X.legs, X.cum, "feature abs_curv of the %s after %s" % (X.label, ops), X.rel)
        if X.names.get("speed") == "own":
            _check_speed(X.tr.getAnalyticalFeature("speed"), X.spd, X.exact, "feature speed of the %s after %s" % (X.label, ops), X.rel)
        if X.tr.size() != len(X.pts):
            raise Violation("fixes-changed", "%s has %d fixes, had %d" % (X.label, X.tr.size(), len(X.pts)))
        for i in range(len(X.pts)):
            o = X.tr.getObs(i)
            now = (o.position.getX(), o.position.getY(), o.position.getZ(), _ms_of(o.timestamp))
            was = X.pts[i] + (X.times[i],)
            if not all(same(a, b) for a, b in zip(now, was)):
                raise Violation("fixes-changed", "fix %d of the %s is %r, was %r" % (i, X.label, now, was))
    legs, spd, exact = W.legs, W.spd, W.exact

    # classification
    cls.append("exact-times" if exact else "ms-times")
    cls.append("coords:" + cnum)
    cls.append("time-fields:" + tnum)
    zero_dt_moving = any(dms == 0 and d > 0 for d, dms in spd)
    if zero_dt_moving:
        cls.append("dt=0-with-position-change")
        if tnum != "py":
            cls.append("dt=0-with-position-change+numpy-time-fields")
    if cnum == "int" and all(c == int(c) for p in pts for c in p[:2]):
        cls.append("coords:all-xy-int")
    if part is not None and "p" in sides:
        P = sides["p"]
        cls.append("part:" + part["how"])
        cls.append("part:derived-first" if part["at"] == 0 else "part:derived-after-%s" % (
            "+".join(sorted(set(ops[:part["at"]])))))
        at = part["at"]
        jw = [i for i, o in enumerate(ops) if "@" not in o and o not in ("note", "ds") and i >= at]
        jp = [i for i, o in enumerate(ops) if o.endswith("@p") and o not in ("note@p", "ds@p")]
        if any(j < i for i in jw for j in jp):
            cls.append("part:computed-on-part-then-on-whole")
        if any(i < j for i in jw for j in jp):
            cls.append("part:computed-on-whole-then-on-part")
        cls.append("part:judged-calls-on-both" if P.judged and W.judged else "part:judged-calls-on-one")
        if len(P.pts) == n:
            cls.append("part:all-fixes")
    pos = [l for l in legs if l > 0]
    if any(l == 0 for l in legs):
        cls.append("repeated-position")
    if any(d == 0 for d in case["dts"]):
        cls.append("repeated-time")
    if any(dms == 0 for i, (d, dms) in enumerate(spd) if 0 < i < n - 1):
        cls.append("interior-dt=0")
    if spd[0][1] == 0 or spd[-1][1] == 0:
        cls.append("end-dt=0")
    if pos and min(pos) < 1e-3:
        cls.append("leg<1mm")
    if pos and max(pos) > 1e5:
        cls.append("leg>100km")
    if pos and max(pos) / min(pos) >= 1e6:
        cls.append("leg-ratio>=1e6")
    if any(pts[i + 1][2] != pts[i][2] for i in range(n - 1)):
        cls.append("z-varies")
    if inh:
        cls.append("ds-inherited" + ("" if lead[:2] != pts[0][:2] else "-zero"))
    if ops.count("abs") >= 2:
        cls.append("abs-twice")
    if "ds" in ops:
        cls.append("ds-added-first" if "abs" in ops[ops.index("ds"):] else "ds-added-last")
    if have_speed and have_abs:
        cls.append("abs+speed")
    cls.append("n=2" if n == 2 else "n=3" if n == 3 else "n>=4")
    irregular = len(set(legs)) > 1 or len(set(case["dts"])) > 1
    return {"nt": n >= 3 and irregular, "cls": sorted(set(cls))}


# --- (i) complete small scope: exact arithmetic, every repeat pattern ---------------------------------
_HOWS = ["extract", "slice", "gt", "lt", "mod"]
_CORNERS = [(0, 0), (3, 0), (0, 4), (3, 4)]        # all mutual distances are integers (3, 4, 5)


def enum_small(tier):
    for n in (2, 3, 4):
        for pos in itertools.product(range(4), repeat=n):
            for dts in itertools.product((0, 1000, 2000), repeat=n - 1):
                if n == 4 and tier == "quick" and (sum(pos) * 7 + sum(dts) // 1000 * 3 + pos[0]) % 6:
                    continue
                pts = [[_CORNERS[p][0], _CORNERS[p][1], (i * 5) % 3] for i, p in enumerate(pos)]
                yield {"pts": pts, "t0": 1577836800000, "dts": list(dts), "ops": ["abs", "speed_est"], "inherit": None,
                       "extra": False}
                k = sum(pos) * 5 + sum(dts) // 1000 + pos[-1]
                if n <= 3 or k % 4 == 0:           # the same track with other number types (numpy time fields, int / numpy coordinates)
                    yield {"pts": pts, "t0": 1577836800000, "dts": list(dts), "inherit": None, "extra": False,
                           "ops": [["abs", "speed_est"], ["speed_add", "abs"]][k % 2],
                           "tnum": TNUMS[1 + k % 4], "cnum": CNUMS[(k // 4) % 4]}
                if n >= 3 and k % 3 == 0:          # a third of them also as a two-object history (part, then whole)
                    yield {"pts": pts, "t0": 1577836800000, "dts": list(dts), "inherit": None, "extra": False,
                           "part": {"how": _HOWS[k // 3 % len(_HOWS)], "a": k // 15, "b": k // 7, "at": 0},
                           "ops": [["abs@p", "speed_est@p", "abs", "speed_est"], ["abs", "speed_est", "abs@p", "speed_est@p"]][k // 3 % 2]}


# --- (ii) random tracks ------------------------------------------------------------------------------
_OPS = [["abs"], ["abs", "abs"], ["ds", "abs"], ["abs", "speed_est"], ["speed_est", "abs"], ["speed_add"],
        ["speed_est", "speed_est"], ["speed_add", "note", "abs", "speed_add"], ["abs", "ds", "abs", "speed_est"],
        ["ds", "speed_est", "abs", "abs"], ["abs", "note", "speed_add", "ds"], ["speed_est"]]
# two-object histories: operations on the whole track before the part is derived (none leaves a ds behind) ...
_PRE_W = [[], [], [], [], ["abs"], ["speed_est"], ["ds", "abs"], ["abs", "speed_add"], ["note"]]
# ... and after it ('@p' = on the derived part)
_TWO = [["abs@p", "abs"], ["speed_est@p", "speed_est"], ["abs", "abs@p"], ["speed_est", "speed_est@p"],
        ["abs@p", "speed_est@p", "abs", "speed_est"], ["speed_add@p", "abs", "speed_add"], ["abs@p", "speed_est"],
        ["speed_est@p", "abs", "abs@p"], ["ds@p", "abs@p", "abs", "abs"], ["note@p", "abs@p", "note", "abs", "speed_est@p"],
        ["abs@p", "abs@p", "abs"], ["speed_add", "abs@p", "speed_add@p", "abs"]]
_DT_EXACT = [0, 0, 0, 125, 250, 1000, 1000, 2000, 5000, 60000, 3600000, 86400000]
_DT_MS = [0, 0, 1, 1, 2, 7, 33, 100, 999, 1001, 1000, 59999, 86399999]
_MAG = [1e-6, 1e-5, 1e-3, 0.1, 1.0, 1.0, 10.0, 1e3, 1e5, 1e6]


@st.composite
def strat_track(draw):
    n = draw(st.one_of(st.integers(2, 4), st.integers(2, 12)))
    kind = draw(st.sampled_from(["lattice", "scaled", "scaled", "mixed"]))
    base = draw(st.sampled_from([(0.0, 0.0, 0.0), (0.0, 0.0, 0.0), (651234.5, 6861234.25, 35.0), (-1e6, 1e6, -10.0),
                                 (0.1, 0.2, 0.3)]))
    # one flat list of small integers drives the steps: (direction, magnitude, z-step) per leg
    raw = draw(st.lists(st.integers(0, 10 ** 6), min_size=n, max_size=n))
    frac = draw(st.floats(1.0, 9.999))
    pts = [list(base)]
    for i in range(n - 1):
        r = raw[i]
        a, m, zk, rep = r % 8, (r // 8) % len(_MAG), (r // 80) % 5, (r // 400) % 5
        dx, dy = [(1, 0), (0, 1), (-1, 0), (0, -1), (3, 4), (-4, 3), (1, 1), (-2, 5)][a]
        if kind == "lattice":
            s = 1.0
        elif kind == "scaled":
            s = _MAG[m] * frac
        else:
            s = _MAG[m] * frac if i % 2 else 1.0
        if rep == 0:
            dx = dy = 0                                  # repeated planimetric position (z may still move)
        dz = [0.0, 0.0, 1.0, -2.5, 100.0][zk]
        p = pts[-1]
        pts.append([p[0] + dx * s, p[1] + dy * s, p[2] + dz])
    exact = draw(st.sampled_from([True, True, True, False]))
    pool = _DT_EXACT if exact else _DT_MS
    dts = [pool[j] for j in draw(st.lists(st.integers(0, len(pool) - 1), min_size=n - 1, max_size=n - 1))]
    t0 = draw(gen.ts_ms(whole_seconds=exact, lo_ms=0, hi_ms=gen.MAX_MS - MAX_SPAN))
    inherit = None
    q = raw[n - 1]
    if (q // 54) % 3 == 0:
        off = [(0, 0), (5, 0), (0, -0.25), (300, 400), (1e-3, 0), (-7, 7)][q % 6]
        inherit = {"pt": [pts[0][0] + off[0], pts[0][1] + off[1], pts[0][2] + (q // 6) % 3], "dt": [0, 1000, 125][(q // 18) % 3]}
    case = {"pts": pts, "t0": t0, "dts": dts, "ops": draw(st.sampled_from(_OPS)), "inherit": inherit,
            "extra": draw(st.booleans())}
    nt = draw(st.integers(0, 39))                  # number types: 0..7 time fields (3 in 8 Python ints), x 5 coordinate types
    tnum = ["py", "py", "py", "int64:sec", "int64:all", "int32:sec", "int32:all", "int64:sec"][nt % 8]
    if tnum.startswith("int32") and t0 + sum(dts) > INT32_MAX_MS:
        tnum = tnum.replace("int32", "int64")      # a 32-bit field cannot take part in epoch seconds after 2038
    case["tnum"] = tnum
    case["cnum"] = ["float", "float", "int", "np64", "np32"][nt // 8]
    if draw(st.integers(0, 9)) < 4:                # two Track objects: a part derived from the track (shares its Obs)
        pre = draw(st.sampled_from(_PRE_W))
        if draw(st.booleans()):
            post = list(draw(st.sampled_from(_TWO)))
        else:
            post = [draw(st.sampled_from(["abs", "abs", "speed_est", "speed_est", "speed_add", "ds", "note"])) +
                    draw(st.sampled_from(["", "@p", "@p"])) for _ in range(draw(st.integers(2, 5)))]
        case["ops"] = list(pre) + post
        case["part"] = {"how": draw(st.sampled_from(_HOWS)), "a": draw(st.integers(0, 11)), "b": draw(st.integers(0, 11)),
                        "at": len(pre)}
        if "abs" not in pre:
            case["inherit"] = None                 # the part is derived while the whole carries no ds (see ASSUMPTIONS)
    return case


RULE = ("small: every track of 2..4 fixes on the corners of a 3x4 rectangle (integer distances) with time steps from {0,1,2} s "
        "(n=4: every 6th in the quick tier), computeAbsCurv then estimate_speed; tracks: Hypothesis, 2..12 fixes, legs along 8 "
        "directions scaled by 1e-6..1e6 (lattice / scaled / alternating), repeated positions with or without a z change, "
        "time steps from fixed pools containing 0 (3/4 of the cases on the 125 ms grid where dt is exact), origin near 0 or at "
        "1e6-size coordinates, a script of 1..4 operations (computeAbsCurv once/twice, ds added before, estimate_speed, "
        "addAnalyticalFeature(speed), unrelated feature added in between), one third of the tracks obtained by "
        "Track.extract from a longer track that already carried ds. 4 cases in 10 are two-object histories: after 0..2 "
        "operations on the whole track a part is derived (extract / slice / > / < / %, any bounds leaving >= 2 fixes), then 2..5 "
        "operations each on the part or on the whole (half from a list of part-then-whole / whole-then-part patterns, half "
        "free), both tracks judged. small: a third of the tracks of >= 3 fixes also as part-then-whole / whole-then-part. "
        "Number types: every random track draws how its numbers are handed over - timestamp fields as Python ints (3 in 8), "
        "seconds field only or all fields as numpy int64 / int32 scalars; coordinates as Python floats (2 in 5), Python ints "
        "where integer-valued, numpy float64 or numpy float32 scalars; small: every track of 2..3 fixes (n=4: a quarter) a "
        "second time with numpy time fields (the four variants in turn) and the four coordinate types in turn. "
        "Non-trivial: at least 3 fixes (an interior fix exists) and legs or time steps not all equal, so that off-by-one "
        "variants of the formulas give different numbers. Distinct = hash of the case.")

# coverage-guided stage of the thorough tier (vt/fuzz.py): sub-check -> libFuzzer executions
FUZZ = {'tracks': 10000}

SUBCHECKS = [
    SubCheck("small", _run, enum=enum_small, rule="complete small scope on a 3-4-5 rectangle", qshards=4),
    SubCheck("tracks", _run, strategy=strat_track, quick=8000, thorough=160000, qshards=8),
]
