"""C17 - curvilinear abscissa and speed features match their geometric definitions.

Oracle: cumulative sum of math.hypot over consecutive planimetric positions; neighbour chord divided
by the elapsed time computed from the generated integer milliseconds.  Nothing of tracklib is used
to compute an expected value."""
import itertools
import math

from hypothesis import strategies as st

from tracklib.algo.analytics import ds as af_ds, speed as af_speed
from tracklib.algo.cinematics import computeAbsCurv

from vt import gen
from vt.core import SubCheck, Violation, same

REL = 1e-9                      # stated tolerance, relative to the quantity compared
EPS = 2.0 ** -52
DT_ERR = 1e-6                   # tracklib forms dt as a difference of float epoch seconds (~4e9 s, ulp 4.8e-7 s):
                                # only when every timestamp is a multiple of 125 ms are those floats exact
MAX_SPAN = 400 * gen.DAY_MS

ASSUMPTIONS = [
    "ENU tracks, 2..12 fixes, finite coordinates up to ~1e9 in magnitude, timestamps 1970..2099 non-decreasing, ms resolution",
    "reference distance = math.hypot of the float coordinate differences; reference dt = integer ms difference / 1000",
    "speed tolerance 1e-9 relative when all timestamps are multiples of 125 ms (epoch seconds exact in binary); otherwise "
    "widened by 2e-6 s / dt because the library subtracts float epoch seconds whose rounding error is up to 4.8e-7 s",
    "'ds already present' means a ds feature produced by the library itself: Track.addAnalyticalFeature(ds) on the track, "
    "or inherited through Track.extract() from a longer track on which it was computed (then ds[0] is the leg to the fix "
    "before the extract and is not 0); a hand-written ds with arbitrary numbers is outside the property",
    "abs_curv is not present before the first computeAbsCurv call (a stale abs_curv is returned as is, by design of the API)",
    "features other than abs_curv / speed / ds are carried along but nothing is demanded of them",
]


# ---------------------------------------------------------------------------------------------
def _model(pts, times):
    n = len(pts)
    legs = [math.hypot(pts[i + 1][0] - pts[i][0], pts[i + 1][1] - pts[i][1]) for i in range(n - 1)]
    cum = [0.0]
    for d in legs:
        cum.append(cum[-1] + d)
    spd = []
    for i in range(n):
        a, b = (0, 1) if i == 0 else (n - 2, n - 1) if i == n - 1 else (i - 1, i + 1)
        dms = times[b] - times[a]
        d = math.hypot(pts[b][0] - pts[a][0], pts[b][1] - pts[a][1])
        spd.append((d, dms))
    return legs, cum, spd


def _num(v):
    return isinstance(v, (int, float)) and not isinstance(v, bool)


def _check_abscurv(S, legs, cum, what):
    n = len(cum)
    if len(S) != n:
        raise Violation("abscurv-length", "%s: %d values for %d fixes" % (what, len(S), n))
    if not all(_num(v) for v in S):
        raise Violation("abscurv-not-a-number", "%s: %r" % (what, S))
    if S[0] != 0:
        raise Violation("abscurv-start-not-0", "%s: abs_curv[0] = %r" % (what, S[0]))
    for i in range(n - 1):
        if not S[i + 1] >= S[i]:
            raise Violation("abscurv-decreases", "%s: abs_curv[%d]=%r > abs_curv[%d]=%r" % (what, i, S[i], i + 1, S[i + 1]))
        inc = S[i + 1] - S[i]
        # the increment is read back from two cumulated floats: resolution of the cumulated value is the floor
        if abs(inc - legs[i]) > REL * legs[i] + 8 * EPS * abs(S[i + 1]):
            raise Violation("abscurv-increment-wrong", "%s: abs_curv[%d]-abs_curv[%d] = %r, leg is %r" % (
                what, i + 1, i, inc, legs[i]))
        if abs(S[i + 1] - cum[i + 1]) > REL * cum[i + 1]:
            raise Violation("abscurv-cumul-wrong", "%s: abs_curv[%d] = %r, cumulated length is %r" % (
                what, i + 1, S[i + 1], cum[i + 1]))
    if abs(S[-1] - cum[-1]) > REL * cum[-1]:
        raise Violation("abscurv-total-wrong", "%s: last = %r, planimetric length = %r" % (what, S[-1], cum[-1]))


def _check_speed(V, spd, exact, what):
    n = len(spd)
    if len(V) != n:
        raise Violation("speed-length", "%s: %d values for %d fixes" % (what, len(V), n))
    for i, (d, dms) in enumerate(spd):
        g = V[i]
        where = "end" if i in (0, n - 1) else "interior"
        if not _num(g):
            raise Violation("speed-not-a-number", "%s: speed[%d] = %r" % (what, i, g))
        if dms == 0:
            if g == g:
                raise Violation("speed-%s-zero-dt-not-nan" % where, "%s: speed[%d] = %r with dt = 0" % (what, i, g))
            continue
        if g != g:
            raise Violation("speed-%s-nan-with-dt" % where, "%s: speed[%d] is NaN, dt = %d ms" % (what, i, dms))
        dt = dms / 1000.0
        want = d / dt
        tol = REL * want
        if not exact:
            tol += want * 2 * DT_ERR / dt
        if abs(g - want) > tol:
            raise Violation("speed-%s-wrong" % where, "%s: speed[%d] = %r, expected %r (chord %r over %r s)" % (
                what, i, g, want, d, dt))


def _run(case):
    """case: pts [[x,y,z]] (n>=2), t0 ms, dts [n-1 ms >= 0], ops [..], inherit None | {'pt': [x,y,z], 'dt': ms},
    extra: bool (two unrelated features, one created before everything, one between the operations)"""
    pts = [tuple(float(c) for c in p) for p in case["pts"]]
    n = len(pts)
    times = [case["t0"]]
    for d in case["dts"]:
        times.append(times[-1] + d)
    legs, cum, spd = _model(pts, times)
    exact = all(t % 125 == 0 for t in times)

    inh = case.get("inherit")
    feats = {"note": [float(7 * i) for i in range(n + 1)]} if case.get("extra") else {}
    if inh:
        lead = tuple(float(c) for c in inh["pt"])
        parent = gen.make_track([lead] + pts, [max(times[0] - inh["dt"], 0)] + times, feats)
        parent.addAnalyticalFeature(af_ds)
        tr = parent.extract(1, n)
    else:
        tr = gen.make_track(pts, times, {k: v[:n] for k, v in feats.items()})

    have_abs = have_speed = False
    first_abs = None
    for step, op in enumerate(case["ops"]):
        what = "op %d (%s) of %s" % (step, op, case["ops"])
        if op == "abs":
            S = computeAbsCurv(tr)
            _check_abscurv(S, legs, cum, what)
            stored = tr.getAnalyticalFeature("abs_curv")
            if len(stored) != len(S) or not all(same(a, b) for a, b in zip(S, stored)):
                raise Violation("abscurv-return-differs-from-feature", "%s: returned %r, stored %r" % (what, S, stored))
            if first_abs is not None and not all(same(a, b) for a, b in zip(S, first_abs)):
                raise Violation("abscurv-not-repeatable", "%s: %r, first call gave %r" % (what, S, first_abs))
            if first_abs is None:
                first_abs = list(S)
            if "ds" in tr.getListAnalyticalFeatures():
                raise Violation("abscurv-leaves-ds", "%s: features %s" % (what, tr.getListAnalyticalFeatures()))
            have_abs = True
        elif op == "ds":
            tr.addAnalyticalFeature(af_ds)
        elif op in ("speed_est", "speed_add"):
            V = tr.estimate_speed() if op == "speed_est" else tr.addAnalyticalFeature(af_speed)
            _check_speed(V, spd, exact, what)
            have_speed = True
        elif op == "note":
            if not tr.hasAnalyticalFeature("note2"):
                tr.createAnalyticalFeature("note2", [float(-i) for i in range(n)])
    # final state: the features still read as defined, fixes untouched
    if have_abs:
        _check_abscurv(tr.getAnalyticalFeature("abs_curv"), legs, cum, "feature abs_curv after %s" % case["ops"])
    if have_speed:
        _check_speed(tr.getAnalyticalFeature("speed"), spd, exact, "feature speed after %s" % case["ops"])
    if tr.size() != n:
        raise Violation("fixes-changed", "track has %d fixes, had %d" % (tr.size(), n))
    for i in range(n):
        o = tr.getObs(i)
        now = (o.position.getX(), o.position.getY(), o.position.getZ(), gen.ms_of_obstime(o.timestamp))
        was = pts[i] + (times[i],)
        if not all(same(a, b) for a, b in zip(now, was)):
            raise Violation("fixes-changed", "fix %d is %r, was %r" % (i, now, was))

    # classification
    cls = ["exact-times" if exact else "ms-times"]
    pos = [l for l in legs if l > 0]
    if any(l == 0 for l in legs):
        cls.append("repeated-position")
    if any(d == 0 for d in case["dts"]):
        cls.append("repeated-time")
    if any(dms == 0 for i, (d, dms) in enumerate(spd) if 0 < i < n - 1):
        cls.append("interior-dt=0")
    if spd[0][1] == 0 or spd[-1][1] == 0:
        cls.append("end-dt=0")
    if pos and min(pos) < 1e-3:
        cls.append("leg<1mm")
    if pos and max(pos) > 1e5:
        cls.append("leg>100km")
    if pos and max(pos) / min(pos) >= 1e6:
        cls.append("leg-ratio>=1e6")
    if any(pts[i + 1][2] != pts[i][2] for i in range(n - 1)):
        cls.append("z-varies")
    if inh:
        cls.append("ds-inherited" + ("" if lead[:2] != pts[0][:2] else "-zero"))
    if case["ops"].count("abs") >= 2:
        cls.append("abs-twice")
    if "ds" in case["ops"]:
        cls.append("ds-added-first" if "abs" in case["ops"][case["ops"].index("ds"):] else "ds-added-last")
    if have_speed and have_abs:
        cls.append("abs+speed")
    cls.append("n=2" if n == 2 else "n=3" if n == 3 else "n>=4")
    irregular = len(set(legs)) > 1 or len(set(case["dts"])) > 1
    return {"nt": n >= 3 and irregular, "cls": cls}


# --- (i) complete small scope: exact arithmetic, every repeat pattern ---------------------------------
_CORNERS = [(0, 0), (3, 0), (0, 4), (3, 4)]        # all mutual distances are integers (3, 4, 5)


def enum_small(tier):
    for n in (2, 3, 4):
        for pos in itertools.product(range(4), repeat=n):
            for dts in itertools.product((0, 1000, 2000), repeat=n - 1):
                if n == 4 and tier == "quick" and (sum(pos) * 7 + sum(dts) // 1000 * 3 + pos[0]) % 6:
                    continue
                yield {"pts": [[_CORNERS[p][0], _CORNERS[p][1], (i * 5) % 3] for i, p in enumerate(pos)],
                       "t0": 1577836800000, "dts": list(dts), "ops": ["abs", "speed_est"], "inherit": None,
                       "extra": False}


# --- (ii) random tracks ------------------------------------------------------------------------------
_OPS = [["abs"], ["abs", "abs"], ["ds", "abs"], ["abs", "speed_est"], ["speed_est", "abs"], ["speed_add"],
        ["speed_est", "speed_est"], ["speed_add", "note", "abs", "speed_add"], ["abs", "ds", "abs", "speed_est"],
        ["ds", "speed_est", "abs", "abs"], ["abs", "note", "speed_add", "ds"], ["speed_est"]]
_DT_EXACT = [0, 0, 0, 125, 250, 1000, 1000, 2000, 5000, 60000, 3600000, 86400000]
_DT_MS = [0, 0, 1, 1, 2, 7, 33, 100, 999, 1001, 1000, 59999, 86399999]
_MAG = [1e-6, 1e-5, 1e-3, 0.1, 1.0, 1.0, 10.0, 1e3, 1e5, 1e6]


@st.composite
def strat_track(draw):
    n = draw(st.one_of(st.integers(2, 4), st.integers(2, 12)))
    kind = draw(st.sampled_from(["lattice", "scaled", "scaled", "mixed"]))
    base = draw(st.sampled_from([(0.0, 0.0, 0.0), (0.0, 0.0, 0.0), (651234.5, 6861234.25, 35.0), (-1e6, 1e6, -10.0),
                                 (0.1, 0.2, 0.3)]))
    # one flat list of small integers drives the steps: (direction, magnitude, z-step) per leg
    raw = draw(st.lists(st.integers(0, 10 ** 6), min_size=n, max_size=n))
    frac = draw(st.floats(1.0, 9.999))
    pts = [list(base)]
    for i in range(n - 1):
        r = raw[i]
        a, m, zk, rep = r % 8, (r // 8) % len(_MAG), (r // 80) % 5, (r // 400) % 5
        dx, dy = [(1, 0), (0, 1), (-1, 0), (0, -1), (3, 4), (-4, 3), (1, 1), (-2, 5)][a]
        if kind == "lattice":
            s = 1.0
        elif kind == "scaled":
            s = _MAG[m] * frac
        else:
            s = _MAG[m] * frac if i % 2 else 1.0
        if rep == 0:
            dx = dy = 0                                  # repeated planimetric position (z may still move)
        dz = [0.0, 0.0, 1.0, -2.5, 100.0][zk]
        p = pts[-1]
        pts.append([p[0] + dx * s, p[1] + dy * s, p[2] + dz])
    exact = draw(st.sampled_from([True, True, True, False]))
    pool = _DT_EXACT if exact else _DT_MS
    dts = [pool[j] for j in draw(st.lists(st.integers(0, len(pool) - 1), min_size=n - 1, max_size=n - 1))]
    t0 = draw(gen.ts_ms(whole_seconds=exact, lo_ms=0, hi_ms=gen.MAX_MS - MAX_SPAN))
    inherit = None
    q = raw[n - 1]
    if (q // 54) % 3 == 0:
        off = [(0, 0), (5, 0), (0, -0.25), (300, 400), (1e-3, 0), (-7, 7)][q % 6]
        inherit = {"pt": [pts[0][0] + off[0], pts[0][1] + off[1], pts[0][2] + (q // 6) % 3], "dt": [0, 1000, 125][(q // 18) % 3]}
    return {"pts": pts, "t0": t0, "dts": dts, "ops": draw(st.sampled_from(_OPS)), "inherit": inherit,
            "extra": draw(st.booleans())}


RULE = ("small: every track of 2..4 fixes on the corners of a 3x4 rectangle (integer distances) with time steps from {0,1,2} s "
        "(n=4: every 6th in the quick tier), computeAbsCurv then estimate_speed; tracks: Hypothesis, 2..12 fixes, legs along 8 "
        "directions scaled by 1e-6..1e6 (lattice / scaled / alternating), repeated positions with or without a z change, "
        "time steps from fixed pools containing 0 (3/4 of the cases on the 125 ms grid where dt is exact), origin near 0 or at "
        "1e6-size coordinates, a script of 1..4 operations (computeAbsCurv once/twice, ds added before, estimate_speed, "
        "addAnalyticalFeature(speed), unrelated feature added in between), one third of the tracks obtained by "
        "Track.extract from a longer track that already carried ds. "
        "Non-trivial: at least 3 fixes (an interior fix exists) and legs or time steps not all equal, so that off-by-one "
        "variants of the formulas give different numbers. Distinct = hash of the case.")

# coverage-guided stage of the thorough tier (vt/fuzz.py): sub-check -> libFuzzer executions
FUZZ = {'tracks': 10000}

SUBCHECKS = [
    SubCheck("small", _run, enum=enum_small, rule="complete small scope on a 3-4-5 rectangle", qshards=4),
    SubCheck("tracks", _run, strategy=strat_track, quick=8000, thorough=160000, qshards=8),
]
