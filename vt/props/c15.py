"""C15 - kernel smoothing is a renormalised local weighted mean.

Oracle: own convolution  out[i] = sum_j k[j]*x[i+D-j] / sum_j k[j]  over the samples that are inside
the track and not NaN (documented orientation: k[0] meets the *latest* sample of the window), the
boundary copy, and two consequences computed without the weights (constants unchanged, output
bracketed by the window's min/max).  Kernel objects: their sliding window is checked on its own
(odd, symmetric, non-negative, sums to 1) and then used as the weight vector."""
import math

from hypothesis import strategies as st

import tracklib.core.kernel as tk
from tracklib.algo.filtering import filter_seq
from tracklib.core.obs import Obs
from tracklib.core.obs_coords import ENUCoords
from tracklib.core.obs_time import ObsTime
from tracklib.core.operators import Operator
from tracklib.core.track import Track

from vt.core import SubCheck, Violation

REL = 1e-9
ABS = 1e-12
NAN = float("nan")

KINDS = {
    "Uniform": tk.UniformKernel, "Triangular": tk.TriangularKernel, "Gaussian": tk.GaussianKernel,
    "Exponential": tk.ExponentialKernel, "Epanechnikov": tk.EpanechnikovKernel,
    "Cubic": tk.CubicKernel, "Spheric": tk.SphericKernel,
}
# support / width of each built-in kernel; used by the GENERATOR only (to make signals long enough),
# the body reads the real window length from the kernel object
SUPPORT = {"Uniform": 2.0, "Triangular": 1.5, "Gaussian": 3.0, "Exponential": 3.0, "Epanechnikov": 1.5,
           "Cubic": 1.0, "Spheric": 1.0}

ASSUMPTIONS = [
    "convolution orientation as implemented and documented in DESIGN: out[i] = sum_j k[j]*x[i+D-j], D = len(k)//2",
    "weights: strictly positive odd lists (plus a small class with some zero weights), or the kernel object's toSlidingWindow()",
    "signals at least as long as the window; NaN samples are isolated (no two within one window)",
    "an index whose usable weight is 0 (or < 1e-9 of the total weight) is undefined: nothing is demanded there, and a "
    "ZeroDivisionError of the whole call is accepted iff such an index exists anywhere in the signal (boundary indices included)",
    "list kernels never filter the boundary (the operator has no switch for them); kernel objects follow setFilterBoundary",
    "DiracKernel: all weight on the centre sample -> identity on non-NaN samples, undefined on NaN samples",
    "tolerance 1e-9 * max|x| over the window + 1e-12; window weights: sum within 1e-12 of 1, symmetric and non-negative within "
    "1e-12 of the largest weight (the outermost sample of Cubic/Spheric at width k+tiny evaluates to +-1e-17)",
]


# --- own reference --------------------------------------------------------------------------------
def isn(v):
    return v != v


def ref_filter(x, w, boundary):
    """-> (out, kind) with kind[i] in 'copy' | 'mean' | 'undef';  zero_any: some index has usable weight exactly 0"""
    n, N = len(x), len(w)
    D = N // 2
    tot = math.fsum(w)
    out, kind, zero_any = [], [], False
    for i in range(n):
        terms, ws = [], []
        for j in range(N):
            k = i + D - j
            if 0 <= k < n and not isn(x[k]):
                terms.append(w[j] * x[k])
                ws.append(w[j])
        den = math.fsum(ws)
        if den == 0:
            zero_any = True
        if not boundary and (i < D or i >= n - D):
            out.append(x[i])
            kind.append("copy")
        elif den <= 1e-9 * tot:
            out.append(NAN)
            kind.append("undef")
        else:
            out.append(math.fsum(terms) / den)
            kind.append("mean")
    return out, kind, zero_any


def window_samples(x, i, D):
    return [x[k] for k in range(max(0, i - D), min(len(x), i + D + 1)) if not isn(x[k])]


def _f(v, what):
    try:
        return float(v)
    except (TypeError, ValueError):
        raise Violation("output-not-a-number", "%s = %r" % (what, v))


def compare(x, w, boundary, got, what):
    """got: the filtered signal as returned by tracklib.  Returns statistics for the class histogram."""
    n = len(x)
    if len(got) != n:
        raise Violation("output-length", "%s: %d values for %d inputs" % (what, len(got), n))
    D = len(w) // 2
    ref, kind, _ = ref_filter(x, w, boundary)
    usable = [v for v in x if not isn(v)]
    const = bool(usable) and all(v == usable[0] for v in usable)
    changed = 0
    for i in range(n):
        g = _f(got[i], "%s[%d]" % (what, i))
        if kind[i] == "undef":
            continue
        if kind[i] == "copy":
            if not (g == x[i] or (isn(g) and isn(x[i]))):
                raise Violation("boundary-not-copied", "%s: index %d of %d (half-window %d) is %r, input is %r; x=%r w=%r" % (
                    what, i, n, D, g, x[i], x, w))
            continue
        win = window_samples(x, i, D)
        scale = max(abs(v) for v in win)
        eps = REL * scale + ABS
        if isn(g) or g in (math.inf, -math.inf):
            raise Violation("nan-not-skipped" if any(isn(v) for v in x[max(0, i - D):i + D + 1]) else "output-not-finite",
                            "%s: index %d is %r; x=%r w=%r" % (what, i, g, x, w))
        if const and abs(g - usable[0]) > eps:
            raise Violation("constant-changed", "%s: constant signal %r became %r at index %d; x=%r w=%r" % (
                what, usable[0], g, i, x, w))
        if g < min(win) - eps or g > max(win) + eps:
            raise Violation("outside-window-range", "%s: index %d is %r, window samples span [%r, %r]; x=%r w=%r" % (
                what, i, g, min(win), max(win), x, w))
        if abs(g - ref[i]) > eps:
            raise Violation("not-weighted-mean", "%s: index %d is %r, renormalised weighted mean is %r; x=%r w=%r boundary=%r" % (
                what, i, g, ref[i], x, w, boundary))
        if not isn(x[i]) and abs(g - x[i]) > eps:
            changed += 1
        elif isn(x[i]):
            changed += 1
    return {"changed": changed, "undef": kind.count("undef"), "const": const}


def compare_identity(x, got, what):
    if len(got) != len(x):
        raise Violation("output-length", "%s: %d values for %d inputs" % (what, len(got), len(x)))
    for i, v in enumerate(x):
        g = _f(got[i], "%s[%d]" % (what, i))
        if not isn(v) and g != v:
            raise Violation("dirac-not-identity", "%s: index %d is %r, input %r" % (what, i, g, v))


# --- building the tracklib side from a case -------------------------------------------------------
def derived(x):
    """the four signals of a case: coordinates x, y, z and the feature a (all derived from the one generated signal,
    NaN positions preserved or mirrored so that they stay isolated)"""
    return {"x": list(x), "y": list(reversed(x)), "z": [2.0 * v + 1.0 for v in x], "a": [v * 0.5 - 3.0 for v in x]}


def make_track(sig):
    tr = Track([], 1)
    n = len(sig["x"])
    for i in range(n):
        tr.addObs(Obs(ENUCoords(sig["x"][i], sig["y"][i], sig["z"][i]), ObsTime(2020, 1, 1, 0, i // 60, i % 60, 0)))
    tr.createAnalyticalFeature("a", list(sig["a"]))
    return tr


def make_kernel(spec):
    """-> (object handed to tracklib, weight vector for the oracle | None for Dirac, boundary flag)"""
    if spec["kind"] == "list":
        return [v for v in spec["w"]], [float(v) for v in spec["w"]], False
    if spec["kind"] == "Dirac":
        k = tk.DiracKernel()
    else:
        k = KINDS[spec["kind"]](spec["width"])
    if spec.get("boundary") is not None:
        k.setFilterBoundary(bool(spec["boundary"]))
    boundary = bool(spec.get("boundary"))
    if k.filterBoundary() != boundary:
        raise Violation("boundary-flag-lost", "setFilterBoundary(%r) but filterBoundary() = %r" % (spec.get("boundary"), k.filterBoundary()))
    if spec["kind"] == "Dirac":
        return k, None, boundary
    w = check_window(k, spec)
    return k, w, boundary


def check_window(k, spec):
    w = k.toSlidingWindow()
    what = "%s(%r).toSlidingWindow()" % (spec["kind"], spec.get("width"))
    vals = [_f(v, what) for v in w]
    N = len(vals)
    if N % 2 != 1:
        raise Violation("window-even-length", "%s has %d values" % (what, N))
    if N != 2 * int(math.floor(k.support)) + 1:
        raise Violation("window-length", "%s has %d values, support %r" % (what, N, k.support))
    if any(isn(v) for v in vals) or min(vals) < -1e-12 * max(vals):      # -1e-17 at the very edge of the support is rounding, not a negative kernel
        raise Violation("window-negative", "%s = %r" % (what, vals))
    if abs(math.fsum(vals) - 1.0) > 1e-12:
        raise Violation("window-sum", "%s sums to %r" % (what, math.fsum(vals)))
    for j in range(N // 2):
        if abs(vals[j] - vals[N - 1 - j]) > 1e-12 * max(vals):
            raise Violation("window-asymmetric", "%s = %r" % (what, vals))
    return vals


def run_filter(case, sig, kobj):
    """-> list of (what, x, got) for every filtered signal, plus list of (name, before, after) for signals that must stay
    as they were.  A ZeroDivisionError of tracklib passes through."""
    tr = make_track(sig)
    via = case["via"]
    res, untouched = [], []
    if via == "feature":
        tr.operate(Operator.FILTER, "a", kobj, "b")
        res.append(("operate(FILTER,'a',k,'b')", sig["a"], tr.getAnalyticalFeature("b")))
        untouched.append(("a", sig["a"], tr.getAnalyticalFeature("a")))
    elif via == "coord":
        d = case["dims"][0]
        tr.operate(Operator.FILTER, d, kobj, "b")
        res.append(("operate(FILTER,'%s',k,'b')" % d, sig[d], tr.getAnalyticalFeature("b")))
        untouched.append(("a", sig["a"], tr.getAnalyticalFeature("a")))
    else:
        dims = list(case["dims"])
        ret = filter_seq(tr, kobj, dims)
        if not isinstance(ret, Track):
            raise Violation("filter_seq-returns-no-track", "filter_seq returned %r" % (ret,))
        getters = {"x": ret.getX, "y": ret.getY, "z": ret.getZ, "a": lambda: ret.getAnalyticalFeature("a")}
        for d in ("x", "y", "z", "a"):
            if d in dims:
                res.append(("filter_seq dim '%s'" % d, sig[d], getters[d]()))
            else:
                untouched.append((d, sig[d], getters[d]()))
    if via != "seq":
        for d, get in (("x", tr.getX), ("y", tr.getY), ("z", tr.getZ)):
            untouched.append((d, sig[d], get()))
    return res, untouched


def body_filter(case):
    x = case["x"]
    spec = case["kernel"]
    via = case["via"]
    if via not in ("feature", "coord", "seq") or not x:
        return {"undef": True}
    if spec["kind"] == "list":
        w0 = spec["w"]
        if len(w0) % 2 != 1 or any(isn(v) or v < 0 for v in w0) or not any(v > 0 for v in w0):
            return {"undef": True}
    elif spec["kind"] != "Dirac" and not (spec["width"] >= 1):
        return {"undef": True}
    kobj, w, boundary = make_kernel(spec)              # checks the sliding window of a kernel object on the way
    wz = [0.0, 1.0, 0.0] if w is None else w           # Dirac: all weight on the centre sample
    if len(x) < len(wz):
        return {"undef": True}                         # signal shorter than the window: outside the quantifier
    sig = derived(x)
    dims = ["a"] if via == "feature" else list(case["dims"])
    try:
        res, untouched = run_filter(case, sig, kobj)
    except ZeroDivisionError:
        # accepted iff some index (anywhere, boundary included) has no usable weight; otherwise it is a crash
        if any(ref_filter(sig[d], wz, True)[2] for d in dims):
            return {"undef": True, "cls": ["undef-zero-usable-weight(ZeroDivisionError)"]}
        raise
    cls = ["via-" + via, "kernel-" + spec["kind"]]
    changed = und = 0
    const = False
    for what, xin, got in res:
        if w is None:
            compare_identity(xin, got, what)
        else:
            r = compare(xin, w, boundary, got, what)
            changed += r["changed"]
            und += r["undef"]
            const = const or r["const"]
    for d, before, after in untouched:
        if len(before) != len(after) or any(not (p == q or (isn(p) and isn(q))) for p, q in zip(before, after)):
            raise Violation("other-signal-modified", "signal '%s' was not to be filtered but changed: %r -> %r" % (d, before, after))
    has_nan = any(isn(v) for v in x)
    if w is not None:
        cls.append("N=%d" % len(w) if len(w) <= 9 else "N>9")
        if any(abs(w[j] - w[len(w) - 1 - j]) > 1e-12 for j in range(len(w) // 2)):
            cls.append("asymmetric")
        if any(v == 0 for v in w):
            cls.append("zero-weights")
        if len(x) == len(w):
            cls.append("len==window")
    cls.append("boundary-filtered" if boundary else "boundary-copied")
    if has_nan:
        cls.append("nan")
        if isn(x[0]) or isn(x[-1]):
            cls.append("nan-at-end")
    if const:
        cls.append("constant")
    if und:
        cls.append("undef-index-skipped")
    cls.append("changes-signal" if changed else "identity-on-this-signal")
    return {"nt": changed > 0 and (has_nan or boundary or len(wz) >= 3), "cls": cls}


# --- generators -----------------------------------------------------------------------------------
SCALES = [0.125, 1.0, 0.1, 1e-3, 12345.678, 1e6]


def _signal(n, N):
    """signal of length n for a window of length N: (mode, ints, scale, nan spec) -> list of floats"""
    def build(t):
        mode, ks, sc, nan_on, n0, gap, c = t
        s = SCALES[sc]
        if mode == 0:                                   # constant
            xs = [c * s] * n
        elif mode == 1:                                 # monotone run (non-decreasing), reversed for odd c
            acc, xs = 0, []
            for k in ks:
                acc += abs(k) % 16
                xs.append(acc * s)
            if c % 2:
                xs = [-v for v in xs]
        elif mode == 2:                                 # step / plateau signal (ties with neighbours)
            xs = [(k % 3) * s for k in ks]
        else:                                           # free lattice values
            xs = [k * s for k in ks]
        if nan_on:                                      # isolated NaN: at least N apart
            pos = n0 % n
            while pos < n:
                xs[pos] = NAN
                pos += N + gap
            if nan_on == 2 and n >= 1:                  # one at the very end as well, if it stays isolated
                if all(not isn(v) for v in xs[max(0, n - N):]):
                    xs[n - 1] = NAN
        return xs
    return st.tuples(st.sampled_from([0, 1, 1, 2, 3, 3, 3, 3]), st.lists(st.integers(-512, 512), min_size=n, max_size=n), st.integers(0, len(SCALES) - 1),
                     st.sampled_from([0, 0, 1, 1, 2]), st.integers(0, 40), st.integers(0, 6), st.integers(-64, 64)).map(build)


DIMS = [["x"], ["y"], ["z"], ["a"], ["x", "y"], ["x", "y", "z"], ["z", "a"], ["y", "x", "a"]]


def _route():
    return st.one_of(st.just(("feature", ["a"])), st.sampled_from(["x", "y", "z"]).map(lambda d: ("coord", [d])),
                     st.sampled_from(DIMS).map(lambda d: ("seq", d)), st.sampled_from(DIMS).map(lambda d: ("seq", d)))


def _weights():
    pos = st.sampled_from([0.125, 0.25, 0.5, 1.0, 2.0, 3.0, 5.0, 32.0, 0.1, 0.3])
    ints = st.sampled_from([1, 2, 3, 5, 32])
    half = st.sampled_from([0, 1, 1, 1, 2, 2, 2, 3, 3, 3])

    def sym(t):
        c, side = t
        return list(reversed(side)) + [c] + side
    asym = half.flatmap(lambda h: st.lists(pos, min_size=2 * h + 1, max_size=2 * h + 1))
    symm = st.tuples(pos, st.lists(pos, min_size=0, max_size=3)).map(sym)
    intw = half.flatmap(lambda h: st.lists(ints, min_size=2 * h + 1, max_size=2 * h + 1))
    # non-negative with some zero weights (the suite itself uses [0,0,1] and [1,0,0]): ends may lose all usable weight -> UNDEF rule
    zero = half.filter(lambda h: h >= 1).flatmap(
        lambda h: st.lists(st.sampled_from([0.0, 0.0, 1.0, 2.0, 0.5]), min_size=2 * h + 1, max_size=2 * h + 1)).map(
        lambda w: w if any(v > 0 for v in w) else w[:-1] + [1.0])
    return st.one_of(asym, asym, symm, intw, zero)


def strat_list():
    def with_signal(t):
        w, extra, (via, dims) = t
        N = len(w)
        return _signal(N + extra, N).map(lambda x: {"kernel": {"kind": "list", "w": w}, "x": x, "via": via, "dims": dims})
    return st.tuples(_weights(), st.sampled_from([0, 1, 2, 3, 4, 5, 6, 8, 10, 14]), _route()).flatmap(with_signal)


def _just_above_integer(hi):
    """k + tiny: the outermost window sample sits at the very edge of the support (weights ~1e-17, rounding decides the sign)"""
    return st.tuples(st.integers(1, hi), st.sampled_from([1e-15, 1e-12, 1e-9, 1e-6]), st.integers(1, 9)).map(
        lambda t: t[0] * (1.0 + t[1] * t[2]))


def _width():
    return st.one_of(st.integers(4, 16).map(lambda k: k / 4.0), st.sampled_from([1.0, 1.0, 1.5, 2.0, 3.0, 4.0]),
                     st.floats(1.0, 4.0, allow_nan=False), _just_above_integer(3))


def _win_len(kind, width):
    return 2 * int(SUPPORT[kind] * width) + 1


def strat_kernel():
    def with_signal(t):
        kind, width, bnd, extra, (via, dims) = t
        if kind == "Dirac":
            spec, N = {"kind": "Dirac", "boundary": bnd}, 3
        else:
            spec, N = {"kind": kind, "width": width, "boundary": bnd}, _win_len(kind, width)
        return _signal(N + extra, N).map(lambda x: {"kernel": spec, "x": x, "via": via, "dims": dims})
    kinds = sorted(KINDS) + ["Dirac"]
    return st.tuples(st.sampled_from(kinds), _width(), st.sampled_from([True, False, None]),
                     st.sampled_from([0, 1, 2, 3, 4, 5, 6, 8, 10, 12]), _route()).flatmap(with_signal)


# --- sliding windows on their own -----------------------------------------------------------------
def enum_windows(tier):
    for kind in sorted(KINDS):
        for k in range(16, 65):                  # widths 1 .. 4 in steps of 1/16
            yield {"kind": kind, "width": k / 16.0}
        for wd in (5.0, 7.5, 10.0, 20.0, 33.3):  # "any width >= 1"
            yield {"kind": kind, "width": wd}
    yield {"kind": "Dirac"}


def strat_windows():
    return st.tuples(st.sampled_from(sorted(KINDS)), st.one_of(st.floats(1.0, 4.0), st.floats(1.0, 40.0), _just_above_integer(40))).map(
        lambda t: {"kind": t[0], "width": t[1]})


def body_window(case):
    if case["kind"] == "Dirac":
        k = tk.DiracKernel()
    else:
        if not (case["width"] >= 1):
            return {"undef": True}
        k = KINDS[case["kind"]](case["width"])
    w = check_window(k, case)
    cls = ["kernel-" + case["kind"], "N=%d" % len(w) if len(w) <= 9 else "N>9"]
    if any(v == 0 for v in w):
        cls.append("zero-end-weights")
    if case["kind"] != "Dirac" and case["width"] == int(case["width"]):
        cls.append("integer-width")
    return {"nt": len(w) >= 3 and sum(1 for v in w if v > 0) >= 2, "cls": cls}


RULE = ("list_kernels: odd weight lists of length 1..7 (asymmetric, symmetric, integer-valued, and a class with zero weights), "
        "signals of length N..N+14 (N = window length): constants, monotone runs, plateau signals, lattice values k*scale, with "
        "isolated NaN (>= N apart, also on the first/last fix); kernel_objects: the 7 built-in kernels + Dirac, width in [1,4] "
        "(quarter lattice, integers, arbitrary floats), setFilterBoundary True / False / default; every case goes through "
        "operate(FILTER) on a feature, operate(FILTER) on x|y|z, or filter_seq on a subset of x, y, z and a feature; "
        "windows: toSlidingWindow of every kernel at widths 1..4 step 1/16 plus 5 larger widths (enumerated) and random widths up to 40. "
        "Non-trivial: the filter changes at least one value of the signal and the case involves NaN, a filtered boundary or a window "
        "of length >= 3; a window with >= 2 positive weights.  Distinct = hash of the case.")

# coverage-guided stage of the thorough tier (vt/fuzz.py): sub-check -> libFuzzer executions
FUZZ = {'list_kernels': 10000}

SUBCHECKS = [
    SubCheck("windows", body_window, enum=enum_windows, strategy=strat_windows, quick=400, thorough=8000, qshards=2, tshards=4),
    SubCheck("list_kernels", body_filter, strategy=strat_list, quick=8000, thorough=200000, qshards=7),
    SubCheck("kernel_objects", body_filter, strategy=strat_kernel, quick=8000, thorough=200000, qshards=7),
]
