"""C15 - kernel smoothing is a renormalised local weighted mean.

Oracle: own convolution  out[i] = sum_j k[j]*x[i+D-j] / sum_j k[j]  over the samples that are inside
the track and not NaN (documented orientation: k[0] meets the *latest* sample of the window), the
boundary copy, and two consequences computed without the weights (constants unchanged, output
bracketed by the window's min/max).  Kernel objects: their sliding window is checked on its own
(odd, symmetric, non-negative, sums to 1) and then used as the weight vector."""
import math

from hypothesis import strategies as st

import tracklib.core.kernel as tk
from tracklib.algo.filtering import filter_seq
from tracklib.core.obs import Obs
from tracklib.core.obs_coords import ENUCoords, GeoCoords, ECEFCoords
from tracklib.core.obs_time import ObsTime
from tracklib.core.operators import Operator
from tracklib.core.track import Track
from tracklib.core.track_collection import TrackCollection

from vt.core import SubCheck, Violation

REL = 1e-9
ABS = 1e-12
NAN = float("nan")

KINDS = {
    "Uniform": tk.UniformKernel, "Triangular": tk.TriangularKernel, "Gaussian": tk.GaussianKernel,
    "Exponential": tk.ExponentialKernel, "Epanechnikov": tk.EpanechnikovKernel,
    "Cubic": tk.CubicKernel, "Spheric": tk.SphericKernel,
}
# support / width of each built-in kernel; used by the GENERATOR only (to make signals long enough),
# the body reads the real window length from the kernel object
SUPPORT = {"Uniform": 2.0, "Triangular": 1.5, "Gaussian": 3.0, "Exponential": 3.0, "Epanechnikov": 1.5,
           "Cubic": 1.0, "Spheric": 1.0}

ASSUMPTIONS = [
    "convolution orientation as implemented and documented in DESIGN: out[i] = sum_j k[j]*x[i+D-j], D = len(k)//2",
    "weights: strictly positive odd lists (plus a small class with some zero weights), or the kernel object's toSlidingWindow()",
    "signals at least as long as the window; NaN samples are isolated (no two within one window)",
    "an index whose usable weight is 0 (or < 1e-9 of the total weight) is undefined: nothing is demanded there, and a "
    "ZeroDivisionError of the whole call is accepted iff such an index exists anywhere in the signal (boundary indices included)",
    "list kernels never filter the boundary (the operator has no switch for them); kernel objects follow setFilterBoundary",
    "a kernel object obeys the last flag set on ITSELF (False when never set), whatever other kernel objects of the process "
    "were created or configured before or in between; at the start of a case the class-level default of the flag is put back to "
    "False (a no-op on the unchanged code, which never writes it), so a case does not depend on the cases run before it",
    "entry points: Track.operate(Operator.FILTER, in, kernel, out) read at feature out; filter_seq(track, kernel, dims) read on the "
    "Track it RETURNS (nothing is demanded of the argument object; the unchanged code filters the argument in place and returns "
    "that same object); Track.smooth(width) / TrackCollection.smooth(width) = Gaussian kernel of that width, default boundary "
    "flag (boundaries copied), x, y and z, returns None: read on the track(s) the method was called on",
    "the coordinate class of the track is part of the case (ENUCoords / GeoCoords / ECEFCoords): x, y, z are the three stored "
    "components (E,N,U / lon,lat,hgt / X,Y,Z) read through getX/getY/getZ, filtered as plain numbers whatever they mean; the "
    "filtered coordinates are read back through Track.getX/getY/getZ",
    "the length of the signal is part of the domain up to 20000 samples (quick: up to ~4100); long signals are held in the case as "
    "a short description (length, family, integer seed, scale, NaN positions) and expanded by a fixed integer hash, so the "
    "oracle still recomputes every output from the case",
    "DiracKernel: all weight on the centre sample -> identity on non-NaN samples, undefined on NaN samples",
    "tolerance 1e-9 * max|x| over the window + 1e-12; window weights: sum within 1e-12 of 1, symmetric and non-negative within "
    "1e-12 of the largest weight (the outermost sample of Cubic/Spheric at width k+tiny evaluates to +-1e-17)",
]


# --- own reference --------------------------------------------------------------------------------
def isn(v):
    return v != v


def ref_filter(x, w, boundary):
    """-> (out, kind) with kind[i] in 'copy' | 'mean' | 'undef';  zero_any: some index has usable weight exactly 0"""
    n, N = len(x), len(w)
    D = N // 2
    tot = math.fsum(w)
    out, kind, zero_any = [], [], False
    for i in range(n):
        terms, ws = [], []
        for j in range(N):
            k = i + D - j
            if 0 <= k < n and not isn(x[k]):
                terms.append(w[j] * x[k])
                ws.append(w[j])
        den = math.fsum(ws)
        if den == 0:
            zero_any = True
        if not boundary and (i < D or i >= n - D):
            out.append(x[i])
            kind.append("copy")
        elif den <= 1e-9 * tot:
            out.append(NAN)
            kind.append("undef")
        else:
            out.append(math.fsum(terms) / den)
            kind.append("mean")
    return out, kind, zero_any


def window_samples(x, i, D):
    return [x[k] for k in range(max(0, i - D), min(len(x), i + D + 1)) if not isn(x[k])]


def _f(v, what):
    try:
        return float(v)
    except (TypeError, ValueError):
        raise Violation("output-not-a-number", "%s = %r" % (what, v))


def _show(x, i):
    """the signal for a message: long ones are cut to the neighbourhood of index i (the case holds the whole signal)"""
    if len(x) <= 60:
        return repr(x)
    lo, hi = max(0, i - 10), min(len(x), i + 11)
    return "(%d values) x[%d:%d]=%r" % (len(x), lo, hi, x[lo:hi])


def compare(x, w, boundary, got, what):
    """got: the filtered signal as returned by tracklib.  Returns statistics for the class histogram."""
    n = len(x)
    if len(got) != n:
        raise Violation("output-length", "%s: %d values for %d inputs" % (what, len(got), n))
    D = len(w) // 2
    ref, kind, _ = ref_filter(x, w, boundary)
    usable = [v for v in x if not isn(v)]
    const = bool(usable) and all(v == usable[0] for v in usable)
    changed = 0
    for i in range(n):
        g = _f(got[i], "%s[%d]" % (what, i))
        if kind[i] == "undef":
            continue
        if kind[i] == "copy":
            if not (g == x[i] or (isn(g) and isn(x[i]))):
                raise Violation("boundary-not-copied", "%s: index %d of %d (half-window %d) is %r, input is %r; x=%s w=%r" % (
                    what, i, n, D, g, x[i], _show(x, i), w))
            continue
        win = window_samples(x, i, D)
        scale = max(abs(v) for v in win)
        eps = REL * scale + ABS
        if isn(g) or g in (math.inf, -math.inf):
            raise Violation("nan-not-skipped" if any(isn(v) for v in x[max(0, i - D):i + D + 1]) else "output-not-finite",
                            "%s: index %d is %r; x=%s w=%r" % (what, i, g, _show(x, i), w))
        if const and abs(g - usable[0]) > eps:
            raise Violation("constant-changed", "%s: constant signal %r became %r at index %d; x=%s w=%r" % (
                what, usable[0], g, i, _show(x, i), w))
        if g < min(win) - eps or g > max(win) + eps:
            raise Violation("outside-window-range", "%s: index %d is %r, window samples span [%r, %r]; x=%s w=%r" % (
                what, i, g, min(win), max(win), _show(x, i), w))
        if abs(g - ref[i]) > eps:
            raise Violation("not-weighted-mean", "%s: index %d is %r, renormalised weighted mean is %r; x=%s w=%r boundary=%r" % (
                what, i, g, ref[i], _show(x, i), w, boundary))
        if not isn(x[i]) and abs(g - x[i]) > eps:
            changed += 1
        elif isn(x[i]):
            changed += 1
    return {"changed": changed, "undef": kind.count("undef"), "const": const}


def compare_identity(x, got, what):
    if len(got) != len(x):
        raise Violation("output-length", "%s: %d values for %d inputs" % (what, len(got), len(x)))
    for i, v in enumerate(x):
        g = _f(got[i], "%s[%d]" % (what, i))
        if not isn(v) and g != v:
            raise Violation("dirac-not-identity", "%s: index %d is %r, input %r" % (what, i, g, v))


# --- building the tracklib side from a case -------------------------------------------------------
def derived(x):
    """the four signals of a case: coordinates x, y, z and the feature a (all derived from the one generated signal,
    NaN positions preserved or mirrored so that they stay isolated)"""
    return {"x": list(x), "y": list(reversed(x)), "z": [2.0 * v + 1.0 for v in x], "a": [v * 0.5 - 3.0 for v in x]}


CRS = {"ENU": ENUCoords, "GEO": GeoCoords, "ECEF": ECEFCoords}


def ints_of(case, sig):
    """numeric type of the numbers handed to tracklib: case["ints"] when given, else every third signal (by its own
    content) hands integer-valued numbers over as Python ints - users write ENUCoords(3, 0, 0) and integer features, and
    code that lets numpy infer a dtype from them truncates"""
    if case.get("ints") is not None:
        return bool(case["ints"])
    h = 0
    for v in sig["x"][:8] + sig["a"][:8]:
        if v == v and abs(v) < 1e15:
            h = (h * 31 + int(v * 8)) % 1000003
    return (h + len(sig["x"])) % 3 == 0


def _num(v, ints):
    return int(v) if ints and isinstance(v, float) and v == v and abs(v) < 2 ** 52 and v == int(v) else v


def make_track(sig, crs="ENU", ints=False):
    """crs: the coordinate class of the positions; x, y, z are the three stored components (E,N,U / lon,lat,hgt / X,Y,Z)
    read and written through getX/getY/getZ - setX/setY/setZ; the filter treats them as plain numbers"""
    tr = Track([], 1)
    n = len(sig["x"])
    cls = CRS[crs]
    for i in range(n):
        tr.addObs(Obs(cls(_num(sig["x"][i], ints), _num(sig["y"][i], ints), _num(sig["z"][i], ints)),
                      ObsTime(2020, 1, 1, (i // 3600) % 24, (i // 60) % 60, i % 60, 0)))
    tr.createAnalyticalFeature("a", [_num(v, ints) for v in sig["a"]])
    return tr


def reset_kernel_state():
    """every case starts from the state of a fresh interpreter: the boundary flag is an instance attribute that shadows a
    class-level default False; nothing in the unchanged code writes the class attribute, so this is a no-op there and makes
    a case independent of the cases that ran before it in the same worker process"""
    for c in [tk.Kernel] + list(KINDS.values()) + [tk.DiracKernel]:
        if "_Kernel__filter_boundary" in c.__dict__:
            if c is tk.Kernel:
                tk.Kernel._Kernel__filter_boundary = False
            else:
                delattr(c, "_Kernel__filter_boundary")


def build_kernel(spec):
    """create and configure one kernel object as the spec says -> (object handed to tracklib, boundary flag it must obey)"""
    if spec["kind"] == "list":
        return [v for v in spec["w"]], False
    if spec["kind"] == "Dirac":
        k = tk.DiracKernel()
    else:
        k = KINDS[spec["kind"]](spec["width"])
    if spec.get("boundary") is not None:
        k.setFilterBoundary(bool(spec["boundary"]))
    boundary = bool(spec.get("boundary"))
    check_flag(k, boundary, "right after setFilterBoundary(%r)" % (spec.get("boundary"),) if spec.get("boundary") is not None
               else "of a new kernel")
    return k, boundary


def check_flag(k, boundary, when):
    if k.filterBoundary() != boundary:
        raise Violation("boundary-flag-lost", "filterBoundary() %s is %r, the flag of this kernel object is %r" % (
            when, k.filterBoundary(), boundary))


def kernel_weights(k, spec):
    """weight vector for the oracle (None for Dirac); checks the sliding window of a kernel object on the way"""
    if spec["kind"] == "list":
        return [float(v) for v in spec["w"]]
    if spec["kind"] == "Dirac":
        return None
    return check_window(k, spec)


def make_kernel(spec):
    """-> (object handed to tracklib, weight vector for the oracle | None for Dirac, boundary flag)"""
    k, boundary = build_kernel(spec)
    return k, kernel_weights(k, spec), boundary


def check_window(k, spec):
    w = k.toSlidingWindow()
    what = "%s(%r).toSlidingWindow()" % (spec["kind"], spec.get("width"))
    vals = [_f(v, what) for v in w]
    N = len(vals)
    if N % 2 != 1:
        raise Violation("window-even-length", "%s has %d values" % (what, N))
    if N != 2 * int(math.floor(k.support)) + 1:
        raise Violation("window-length", "%s has %d values, support %r" % (what, N, k.support))
    if any(isn(v) for v in vals) or min(vals) < -1e-12 * max(vals):      # -1e-17 at the very edge of the support is rounding, not a negative kernel
        raise Violation("window-negative", "%s = %r" % (what, vals))
    if abs(math.fsum(vals) - 1.0) > 1e-12:
        raise Violation("window-sum", "%s sums to %r" % (what, math.fsum(vals)))
    for j in range(N // 2):
        if abs(vals[j] - vals[N - 1 - j]) > 1e-12 * max(vals):
            raise Violation("window-asymmetric", "%s = %r" % (what, vals))
    return vals


def run_filter(case, sig, kobj):
    """-> list of (what, x, got) for every filtered signal, plus list of (name, before, after) for signals that must stay
    as they were.  A ZeroDivisionError of tracklib passes through."""
    crs = case.get("crs") or "ENU"
    ints = ints_of(case, sig)
    tr = make_track(sig, crs, ints)
    via = case["via"]
    res, untouched = [], []
    if via == "feature":
        tr.operate(Operator.FILTER, "a", kobj, "b")
        res.append(("operate(FILTER,'a',k,'b')", sig["a"], tr.getAnalyticalFeature("b")))
        untouched.append(("a", sig["a"], tr.getAnalyticalFeature("a")))
    elif via == "coord":
        d = case["dims"][0]
        tr.operate(Operator.FILTER, d, kobj, "b")
        res.append(("operate(FILTER,'%s',k,'b')" % d, sig[d], tr.getAnalyticalFeature("b")))
        untouched.append(("a", sig["a"], tr.getAnalyticalFeature("a")))
    elif via in ("smooth", "smooth_coll"):
        # Track.smooth(width) / TrackCollection.smooth(width): Gaussian kernel of that width on x, y, z; returns None,
        # the smoothed coordinates are read on the track itself
        width = case["kernel"]["width"]
        if case.get("int_width") and width == int(width):
            width = int(width)
        if via == "smooth":
            ret = tr.smooth(width)
            judged = [("", tr, sig)]
        else:
            sig2 = {"x": sig["z"], "y": sig["x"], "z": sig["y"], "a": sig["a"]}
            tr2 = make_track(sig2, crs, ints)
            ret = TrackCollection([tr, tr2]).smooth(width)
            judged = [("track 0 ", tr, sig), ("track 1 ", tr2, sig2)]
        for tag, t, sg in judged:
            for d, get in (("x", t.getX), ("y", t.getY), ("z", t.getZ)):
                res.append(("%s%s after %s(%r)" % (tag, d, via, width), sg[d], get()))
            untouched.append(("a", sg["a"], t.getAnalyticalFeature("a")))
    else:
        dims = list(case["dims"])
        ret = filter_seq(tr, kobj, dims)
        if not isinstance(ret, Track):
            raise Violation("filter_seq-returns-no-track", "filter_seq returned %r" % (ret,))
        getters = {"x": ret.getX, "y": ret.getY, "z": ret.getZ, "a": lambda: ret.getAnalyticalFeature("a")}
        for d in ("x", "y", "z", "a"):
            if d in dims:
                res.append(("filter_seq dim '%s'" % d, sig[d], getters[d]()))
            else:
                untouched.append((d, sig[d], getters[d]()))
    if via in ("feature", "coord"):
        for d, get in (("x", tr.getX), ("y", tr.getY), ("z", tr.getZ)):
            untouched.append((d, sig[d], get()))
    if crs != "ENU":
        res = [("%s [%s track]" % (what, CRS[crs].__name__), xin, got) for what, xin, got in res]
    return res, untouched


VIAS = ("feature", "coord", "seq", "smooth", "smooth_coll")


def _h(seed, i):
    """deterministic integer hash of (seed, index): the values of a long signal are a pure function of the case"""
    return (((seed + i) * 2654435761) >> 7) & 0xFFFFFFF


def expand_signal(xs):
    """long signals are held in the case as a short description {"n", "mode", "seed", "scale", "c", "nan": [first, step,
    at_end] | None} (plain JSON, a few numbers) and expanded here; same four families as the short generated signals"""
    n, mode, seed, c = int(xs["n"]), xs.get("mode", 3), int(xs.get("seed", 0)), xs.get("c", 1)
    s = SCALES[xs.get("scale", 1) % len(SCALES)]
    if mode == 0:
        out = [c * s] * n
    elif mode == 1:
        acc, out = 0, []
        for i in range(n):
            acc += _h(seed, i) % 16
            out.append(acc * s if c % 2 == 0 else -acc * s)
    elif mode == 2:
        out = [(_h(seed, i) % 3) * s for i in range(n)]
    else:
        out = [(_h(seed, i) % 1025 - 512) * s for i in range(n)]
    nan = xs.get("nan")
    if nan and n:
        first, step, at_end = int(nan[0]), max(1, int(nan[1])), nan[2]
        for k in range(first % n, n, step):
            out[k] = NAN
        if at_end:
            out[n - 1] = NAN
    return out


def with_signal(case):
    """a case / use holds its signal either literally ("x") or as a description ("xspec", long signals)"""
    if "x" not in case and case.get("xspec") is not None:
        return dict(case, x=expand_signal(case["xspec"]))
    return case


def size_class(n):
    for lim in (100, 1000, 2000, 5000):
        if n < lim:
            return "len<%d" % lim
    return "len>=5000"


def spec_in_domain(spec):
    if spec["kind"] == "list":
        w0 = spec["w"]
        return len(w0) % 2 == 1 and not any(isn(v) or v < 0 for v in w0) and any(v > 0 for v in w0)
    return spec["kind"] == "Dirac" or spec["width"] >= 1


def judged_use(use, spec, kobj, w, boundary):
    """one filter call through tracklib, judged completely; use = {"x", "via", "dims"[, "int_width"]}.
    -> None when the call is outside the domain, else statistics"""
    x, via = use["x"], use["via"]
    wz = [0.0, 1.0, 0.0] if w is None else w           # Dirac: all weight on the centre sample
    if len(x) < len(wz):
        return None                                    # signal shorter than the window: outside the quantifier
    sig = derived(x)
    dims = ["a"] if via == "feature" else (["x", "y", "z"] if via.startswith("smooth") else list(use["dims"]))
    try:
        res, untouched = run_filter(dict(use, kernel=spec), sig, kobj)
    except ZeroDivisionError:
        # accepted iff some index (anywhere, boundary included) has no usable weight; otherwise it is a crash
        if any(ref_filter(sig[d], wz, True)[2] for d in dims):
            return {"zerodiv": True}
        raise
    changed = und = 0
    const = False
    for what, xin, got in res:
        if w is None:
            compare_identity(xin, got, what)
        else:
            r = compare(xin, w, boundary, got, what)
            changed += r["changed"]
            und += r["undef"]
            const = const or r["const"]
    for d, before, after in untouched:
        diff = [i for i, (p, q) in enumerate(zip(before, after)) if not (p == q or (isn(p) and isn(q)))]
        if len(before) != len(after) or diff:
            at = diff[0] if diff else 0
            raise Violation("other-signal-modified", "signal '%s' was not to be filtered but changed: %s -> %s" % (
                d, _show(before, at), _show(after, at)))
    return {"changed": changed, "undef": und, "const": const}


def body_filter(case):
    reset_kernel_state()
    case = with_signal(case)
    x = case["x"]
    spec = case["kernel"]
    via = case["via"]
    if via not in VIAS or not x or (case.get("crs") or "ENU") not in CRS:
        return {"undef": True}
    others = list(case.get("before") or []) + list(case.get("between") or [])
    if not all(spec_in_domain(sp) and sp["kind"] != "list" for sp in others) or not spec_in_domain(spec):
        return {"undef": True}
    if via.startswith("smooth") and spec["kind"] != "Gaussian":
        return {"undef": True}
    # other kernel objects of the process, created and configured before the judged kernel exists ...
    for sp in case.get("before") or []:
        build_kernel(sp)
    if via.startswith("smooth"):
        # the entry point creates its own GaussianKernel(width) and never configures it: boundaries are copied;
        # the weights come from an own (checked) kernel object of the same width
        kobj, boundary = None, False
        w = check_window(tk.GaussianKernel(spec["width"]), spec)
    else:
        kobj, w, boundary = make_kernel(spec)          # checks the sliding window of a kernel object on the way
    # ... and between its configuration and its use
    for sp in case.get("between") or []:
        build_kernel(sp)
    if kobj is not None and not isinstance(kobj, list):
        check_flag(kobj, boundary, "after other kernel objects were configured")
    r = judged_use(case, spec, kobj, w, boundary)
    if r is None:
        return {"undef": True}
    if r.get("zerodiv"):
        return {"undef": True, "cls": ["undef-zero-usable-weight(ZeroDivisionError)"]}
    wz = [0.0, 1.0, 0.0] if w is None else w
    crs = case.get("crs") or "ENU"
    cls = ["via-" + via, "kernel-" + spec["kind"], "crs-" + crs, size_class(len(x))]
    if crs != "ENU" and via in ("seq", "smooth", "smooth_coll") and any(d in "xyz" for d in (case.get("dims") or "xyz")):
        cls.append("coordinates-of-non-ENU-track-filtered-in-place")
    if len(x) in (999, 1000, 1001, 1023, 1024, 1025, 2047, 2048, 2049, 4095, 4096, 4097, 9999, 10000, 10001):
        cls.append("len-at-power-of-10-or-2(+-1)")
    changed, und, const = r["changed"], r["undef"], r["const"]
    has_nan = any(isn(v) for v in x)
    if w is not None:
        cls.append("N=%d" % len(w) if len(w) <= 9 else "N>9")
        if any(abs(w[j] - w[len(w) - 1 - j]) > 1e-12 for j in range(len(w) // 2)):
            cls.append("asymmetric")
        if any(v == 0 for v in w):
            cls.append("zero-weights")
        if len(x) == len(w):
            cls.append("len==window")
    cls.append("boundary-filtered" if boundary else "boundary-copied")
    if others:
        cls.append("other-kernels-configured")
        if any(bool(sp.get("boundary")) != boundary for sp in others):
            cls.append("other-kernel-with-opposite-flag")
    if has_nan:
        cls.append("nan")
        if isn(x[0]) or isn(x[-1]):
            cls.append("nan-at-end")
    if const:
        cls.append("constant")
    if und:
        cls.append("undef-index-skipped")
    cls.append("changes-signal" if changed else "identity-on-this-signal")
    return {"nt": changed > 0 and (has_nan or boundary or len(wz) >= 3), "cls": cls}


# --- several kernel objects and several judged calls in one case ---------------------------------
def body_history(case):
    """case = {"kernels": [spec...], "lazy": bool, "uses": [{"k", "x", "via", "dims", "set": [k2, flag] | None}]}.
    All kernel objects are created and configured first (lazy = False) or each right before its first use (lazy = True);
    a use may be preceded by a setFilterBoundary call on any of the kernels.  Model: each kernel object obeys the last flag
    set on ITSELF (False when never set).  Every use gets the full oracle."""
    reset_kernel_state()
    specs = case["kernels"]
    if not specs or not all(spec_in_domain(sp) for sp in specs):
        return {"undef": True}
    objs, flags = {}, {}

    def make(j):
        if j not in objs:
            objs[j], flags[j] = build_kernel(specs[j])

    if not case.get("lazy"):
        for j in range(len(specs)):
            make(j)
    cls = set()
    judged = changed = 0
    for n, use in enumerate(case["uses"]):
        use = with_signal(use)
        j = use["k"]
        if not (0 <= j < len(specs)) or use["via"] not in VIAS or (use.get("crs") or "ENU") not in CRS:
            return {"undef": True}
        spec = specs[j]
        if use.get("set") is not None:
            j2, flag = use["set"]
            if not (0 <= j2 < len(specs)) or specs[j2]["kind"] == "list":
                return {"undef": True}
            make(j2)
            objs[j2].setFilterBoundary(bool(flag))
            flags[j2] = bool(flag)
            check_flag(objs[j2], flags[j2], "right after setFilterBoundary(%r)" % (flag,))
            cls.add("reconfigured-other-kernel" if j2 != j else "reconfigured-used-kernel")
        make(j)
        try:
            if use["via"].startswith("smooth"):
                if spec["kind"] != "Gaussian":
                    return {"undef": True}
                kobj, boundary = None, False
                w = check_window(tk.GaussianKernel(spec["width"]), spec)
            else:
                kobj, boundary = objs[j], flags[j]
                if not isinstance(kobj, list):
                    check_flag(kobj, boundary, "before use no. %d" % n)
                w = kernel_weights(kobj, spec)
            r = judged_use(use, spec, kobj, w, boundary)
        except Violation as v:
            raise Violation(v.key, "use no. %d (kernel %d of %r, flags set so far %r): %s" % (n, j, specs, flags, v.msg))
        if r is None:
            return {"undef": True}
        if r.get("zerodiv"):
            cls.add("undef-zero-usable-weight(ZeroDivisionError)")
            continue
        judged += 1
        changed += 1 if r["changed"] else 0
        cls.add("via-" + use["via"])
        cls.add("crs-" + (use.get("crs") or "ENU"))
        cls.add("use-boundary-filtered" if boundary else "use-boundary-copied")
        if any(f != boundary for k2, f in flags.items() if k2 != j and specs[k2]["kind"] != "list"):
            cls.add("use-while-other-kernel-has-opposite-flag")
        if n > 0 and any(u["k"] == j for u in case["uses"][:n]):
            cls.add("kernel-object-reused")
    if not judged:
        return {"undef": True, "cls": sorted(cls)}
    cls.add("judged-uses-%d" % judged)
    cls.add("kernels-%d" % len(specs))
    cls.add("lazy-creation" if case.get("lazy") else "all-created-first")
    distinct = len(set(u["k"] for u in case["uses"]))
    return {"nt": changed > 0 and distinct >= 2, "cls": sorted(cls)}


# --- generators -----------------------------------------------------------------------------------
SCALES = [0.125, 1.0, 0.1, 1e-3, 12345.678, 1e6]


def _signal(n, N):
    """signal of length n for a window of length N: (mode, ints, scale, nan spec) -> list of floats"""
    def build(t):
        mode, ks, sc, nan_on, n0, gap, c = t
        s = SCALES[sc]
        if mode == 0:                                   # constant
            xs = [c * s] * n
        elif mode == 1:                                 # monotone run (non-decreasing), reversed for odd c
            acc, xs = 0, []
            for k in ks:
                acc += abs(k) % 16
                xs.append(acc * s)
            if c % 2:
                xs = [-v for v in xs]
        elif mode == 2:                                 # step / plateau signal (ties with neighbours)
            xs = [(k % 3) * s for k in ks]
        else:                                           # free lattice values
            xs = [k * s for k in ks]
        if nan_on:                                      # isolated NaN: at least N apart
            pos = n0 % n
            while pos < n:
                xs[pos] = NAN
                pos += N + gap
            if nan_on == 2 and n >= 1:                  # one at the very end as well, if it stays isolated
                if all(not isn(v) for v in xs[max(0, n - N):]):
                    xs[n - 1] = NAN
        return xs
    return st.tuples(st.sampled_from([0, 1, 1, 2, 3, 3, 3, 3]), st.lists(st.integers(-512, 512), min_size=n, max_size=n), st.integers(0, len(SCALES) - 1),
                     st.sampled_from([0, 0, 1, 1, 2]), st.integers(0, 40), st.integers(0, 6), st.integers(-64, 64)).map(build)


DIMS = [["x"], ["y"], ["z"], ["a"], ["x", "y"], ["x", "y", "z"], ["z", "a"], ["y", "x", "a"]]


def _route():
    return st.one_of(st.just(("feature", ["a"])), st.sampled_from(["x", "y", "z"]).map(lambda d: ("coord", [d])),
                     st.sampled_from(DIMS).map(lambda d: ("seq", d)), st.sampled_from(DIMS).map(lambda d: ("seq", d)))


def _crs():
    """coordinate class of the track (ENU as everywhere in the suite, geographic as after a GPX read, ECEF)"""
    return st.sampled_from(["ENU", "GEO", "ECEF", "ENU", "GEO", "ECEF", "ENU"])


def _weights():
    pos = st.sampled_from([0.125, 0.25, 0.5, 1.0, 2.0, 3.0, 5.0, 32.0, 0.1, 0.3])
    ints = st.sampled_from([1, 2, 3, 5, 32])
    half = st.sampled_from([0, 1, 1, 1, 2, 2, 2, 3, 3, 3])

    def sym(t):
        c, side = t
        return list(reversed(side)) + [c] + side
    asym = half.flatmap(lambda h: st.lists(pos, min_size=2 * h + 1, max_size=2 * h + 1))
    symm = st.tuples(pos, st.lists(pos, min_size=0, max_size=3)).map(sym)
    intw = half.flatmap(lambda h: st.lists(ints, min_size=2 * h + 1, max_size=2 * h + 1))
    # non-negative with some zero weights (the suite itself uses [0,0,1] and [1,0,0]): ends may lose all usable weight -> UNDEF rule
    zero = half.filter(lambda h: h >= 1).flatmap(
        lambda h: st.lists(st.sampled_from([0.0, 0.0, 1.0, 2.0, 0.5]), min_size=2 * h + 1, max_size=2 * h + 1)).map(
        lambda w: w if any(v > 0 for v in w) else w[:-1] + [1.0])
    return st.one_of(asym, asym, symm, intw, zero)


def strat_list():
    def with_sig(t):
        w, extra, (via, dims), crs = t
        N = len(w)
        return _signal(N + extra, N).map(lambda x: {"kernel": {"kind": "list", "w": w}, "x": x, "via": via, "dims": dims,
                                                    "crs": crs})
    return st.tuples(_weights(), st.sampled_from([0, 1, 2, 3, 4, 5, 6, 8, 10, 14]), _route(), _crs()).flatmap(with_sig)


def _just_above_integer(hi):
    """k + tiny: the outermost window sample sits at the very edge of the support (weights ~1e-17, rounding decides the sign)"""
    return st.tuples(st.integers(1, hi), st.sampled_from([1e-15, 1e-12, 1e-9, 1e-6]), st.integers(1, 9)).map(
        lambda t: t[0] * (1.0 + t[1] * t[2]))


def _width():
    return st.one_of(st.integers(4, 16).map(lambda k: k / 4.0), st.sampled_from([1.0, 1.0, 1.5, 2.0, 3.0, 4.0]),
                     st.floats(1.0, 4.0, allow_nan=False), _just_above_integer(3))


def _win_len(kind, width):
    return 2 * int(SUPPORT[kind] * width) + 1


def _other_kernel():
    """another kernel object of the process: any class, a few widths, flag set True / False / left at its default"""
    return st.tuples(st.sampled_from(sorted(KINDS) + ["Dirac"]), st.sampled_from([1.0, 1.5, 2.0, 3.0]),
                     st.sampled_from([True, False, None, True])).map(
        lambda t: {"kind": "Dirac", "boundary": t[2]} if t[0] == "Dirac" else {"kind": t[0], "width": t[1], "boundary": t[2]})


def _others():
    """(before, between): kernels configured before the judged kernel is created / between its configuration and its use"""
    none = st.just([])
    one = _other_kernel().map(lambda k: [k])
    return st.one_of(st.tuples(none, none), st.tuples(one, none), st.tuples(none, one), st.tuples(one, one),
                     st.tuples(none, st.lists(_other_kernel(), min_size=2, max_size=2)))


def strat_kernel():
    def with_sig(t):
        kind, width, bnd, extra, (via, dims), (before, between), intw, crs = t
        more = {"before": before, "between": between, "crs": crs}
        if kind == "Dirac":
            spec, N = {"kind": "Dirac", "boundary": bnd}, 3
        elif kind.startswith("Gaussian-"):
            # Track.smooth(width) / TrackCollection.smooth(width): the kernel is created by the entry point
            via, dims = {"Gaussian-smooth": "smooth", "Gaussian-smooth-coll": "smooth_coll"}[kind], ["x", "y", "z"]
            spec, N = {"kind": "Gaussian", "width": width, "boundary": None}, _win_len("Gaussian", width)
            more["int_width"] = intw
        else:
            spec, N = {"kind": kind, "width": width, "boundary": bnd}, _win_len(kind, width)
        return _signal(N + extra, N).map(lambda x: dict({"kernel": spec, "x": x, "via": via, "dims": dims}, **more))
    kinds = sorted(KINDS) + ["Dirac", "Gaussian-smooth", "Gaussian-smooth", "Gaussian-smooth-coll"]
    return st.tuples(st.sampled_from(kinds), _width(), st.sampled_from([True, False, None]),
                     st.sampled_from([0, 1, 2, 3, 4, 5, 6, 8, 10, 12]), _route(), _others(), st.booleans(),
                     _crs()).flatmap(with_sig)


def strat_history():
    kinds = sorted(KINDS) + ["Dirac", "list", "Gaussian"]
    kspec = st.tuples(st.sampled_from(kinds), st.sampled_from([1.0, 1.0, 1.5, 2.0, 1.25, 3.0]),
                      st.sampled_from([True, False, None]), _weights())
    use = st.tuples(st.integers(0, 2), st.sampled_from([0, 1, 2, 4, 7]), _route(),
                    st.sampled_from([None, None, True, False]), st.integers(0, 2), st.sampled_from([0, 0, 0, 1, 2]), _crs())

    def build(t):
        kspecs, raw_uses, lazy = t
        specs, Ns = [], []
        for kind, width, bnd, w in kspecs:
            if kind == "list":
                specs.append({"kind": "list", "w": w})
                Ns.append(len(w))
            elif kind == "Dirac":
                specs.append({"kind": "Dirac", "boundary": bnd})
                Ns.append(3)
            else:
                specs.append({"kind": kind, "width": width, "boundary": bnd})
                Ns.append(_win_len(kind, width))
        uses, sigs = [], []
        for n, (k, extra, (via, dims), setflag, k2, sm, crs) in enumerate(raw_uses):
            k = k % len(specs) if n != 1 else (uses[0]["k"] + 1 + k % (len(specs) - 1)) % len(specs)   # first two uses: two different kernels
            k2 = k2 % len(specs)
            if sm and specs[k]["kind"] == "Gaussian":
                via, dims = ("smooth", "smooth_coll")[sm - 1], ["x", "y", "z"]
            u = {"k": k, "via": via, "dims": dims, "crs": crs,
                 "set": [k2, setflag] if setflag is not None and specs[k2]["kind"] != "list" else None}
            uses.append(u)
            sigs.append(_signal(Ns[k] + extra, Ns[k]))
        return st.tuples(*sigs).map(lambda xs: {"kernels": specs, "lazy": lazy,
                                                "uses": [dict(u, x=x) for u, x in zip(uses, xs)]})
    return st.tuples(st.lists(kspec, min_size=2, max_size=3), st.lists(use, min_size=2, max_size=4), st.booleans()).flatmap(build)


# --- long signals: the size of the track is a generated dimension ---------------------------------
# sizes around powers of ten / two and typical block sizes, where an implementation may switch to another code path
SIZES_QUICK = [999, 1000, 1001, 1024, 1500, 2048, 4097]
SIZES_THOROUGH = [99, 100, 101, 255, 256, 257, 511, 512, 513, 999, 1000, 1001, 1023, 1024, 1025, 1500, 2000, 2001, 2047, 2048,
                  2049, 2500, 4095, 4096, 4097, 5000, 8192, 9999, 10000, 10001, 16385, 20000]
LONG_KERNELS_QUICK = [
    {"kind": "list", "w": [1.0, 2.0, 5.0]}, {"kind": "list", "w": [4.0, 3.0, 2.0, 1.0, 1.0]},
    {"kind": "list", "w": [1, 2, 3, 5, 32, 2, 1]},
    {"kind": "Gaussian", "width": 1.5, "boundary": True}, {"kind": "Triangular", "width": 2.0, "boundary": False},
    {"kind": "Exponential", "width": 1.0, "boundary": None},
]
LONG_KERNELS_MORE = [
    {"kind": "list", "w": [1.0, 1.0, 8.0]}, {"kind": "list", "w": [1.0, 2.0, 32.0, 2.0, 1.0]}, {"kind": "list", "w": [0.5, 0.0, 0.25]},
    {"kind": "list", "w": [0.1, 0.3, 0.3, 0.1, 0.1, 0.3, 2.0, 0.125, 3.0]},
    {"kind": "Uniform", "width": 3.0, "boundary": True}, {"kind": "Epanechnikov", "width": 4.0, "boundary": None},
    {"kind": "Cubic", "width": 2.5, "boundary": True}, {"kind": "Spheric", "width": 3.0, "boundary": False},
    {"kind": "Dirac", "boundary": True},
]
LONG_ROUTES = [("feature", ["a"]), ("coord", ["y"]), ("seq", ["x", "z", "a"])]
LONG_NANS = [None, [7, 37, True]]
_CRS3 = ["ENU", "GEO", "ECEF"]


def enum_long(tier):
    sizes = SIZES_QUICK if tier == "quick" else SIZES_THOROUGH
    kernels = LONG_KERNELS_QUICK if tier == "quick" else LONG_KERNELS_QUICK + LONG_KERNELS_MORE
    k = 0
    for n in sizes:
        for spec in kernels:
            for via, dims in LONG_ROUTES:
                for nan in LONG_NANS:
                    k += 1
                    yield {"kernel": dict(spec), "via": via, "dims": list(dims), "crs": _CRS3[k % 3],
                           "xspec": {"n": n, "mode": 1 if k % 5 == 0 else 3, "seed": 1000 * k + n, "scale": k % len(SCALES),
                                     "c": k, "nan": nan}}
        if tier != "quick" or n in (1000, 2048):
            # Track.smooth on a long track (Gaussian kernel created by the entry point, boundaries copied)
            for width in (1.0, 2.0):
                k += 1
                yield {"kernel": {"kind": "Gaussian", "width": width, "boundary": None}, "via": "smooth", "dims": ["x", "y", "z"],
                       "crs": _CRS3[k % 3], "xspec": {"n": n, "mode": 3, "seed": k, "scale": 1, "c": 1, "nan": LONG_NANS[k % 2]}}


def _xspec(n, N):
    """description of a long signal of length n for a window of length N (NaN at least N apart)"""
    return st.tuples(st.sampled_from([0, 1, 2, 3, 3, 3, 3, 3]), st.integers(0, 2 ** 31), st.integers(0, len(SCALES) - 1),
                     st.sampled_from([0, 1, 1, 2]), st.integers(0, 2000), st.sampled_from([0, 1, 5, 30, 331, 1000]),
                     st.integers(-64, 64)).map(
        lambda t: {"n": n, "mode": t[0], "seed": t[1], "scale": t[2], "c": t[6],
                   "nan": [t[4], N + t[5], t[3] == 2] if t[3] else None})


def strat_long():
    sizes = st.tuples(st.sampled_from(SIZES_THOROUGH[9:26]), st.sampled_from([0, 0, -1, 1, -2, 2, 3, 7])).map(lambda t: t[0] + t[1])
    lists = st.tuples(_weights(), _route()).map(lambda t: ({"kind": "list", "w": t[0]}, len(t[0]), t[1][0], t[1][1]))
    objs = st.tuples(st.sampled_from(sorted(KINDS)), _width(), st.sampled_from([True, False, None]), _route()).map(
        lambda t: ({"kind": t[0], "width": t[1], "boundary": t[2]}, _win_len(t[0], t[1]), t[3][0], t[3][1]))
    smooth = st.tuples(_width(), st.sampled_from(["smooth", "smooth", "smooth_coll"])).map(
        lambda t: ({"kind": "Gaussian", "width": t[0], "boundary": None}, _win_len("Gaussian", t[0]), t[1], ["x", "y", "z"]))

    def with_sig(t):
        n, (spec, N, via, dims), crs = t
        return _xspec(n, N).map(lambda xs: {"kernel": spec, "via": via, "dims": dims, "crs": crs, "xspec": xs})
    return st.tuples(sizes, st.one_of(lists, lists, lists, objs, objs, smooth), _crs()).flatmap(with_sig)


# --- sliding windows on their own -----------------------------------------------------------------
def enum_windows(tier):
    for kind in sorted(KINDS):
        for k in range(16, 65):                  # widths 1 .. 4 in steps of 1/16
            yield {"kind": kind, "width": k / 16.0}
        for wd in (5.0, 7.5, 10.0, 20.0, 33.3):  # "any width >= 1"
            yield {"kind": kind, "width": wd}
    yield {"kind": "Dirac"}


def strat_windows():
    return st.tuples(st.sampled_from(sorted(KINDS)), st.one_of(st.floats(1.0, 4.0), st.floats(1.0, 40.0), _just_above_integer(40))).map(
        lambda t: {"kind": t[0], "width": t[1]})


def body_window(case):
    reset_kernel_state()
    if case["kind"] == "Dirac":
        k = tk.DiracKernel()
    else:
        if not (case["width"] >= 1):
            return {"undef": True}
        k = KINDS[case["kind"]](case["width"])
    w = check_window(k, case)
    cls = ["kernel-" + case["kind"], "N=%d" % len(w) if len(w) <= 9 else "N>9"]
    if any(v == 0 for v in w):
        cls.append("zero-end-weights")
    if case["kind"] != "Dirac" and case["width"] == int(case["width"]):
        cls.append("integer-width")
    return {"nt": len(w) >= 3 and sum(1 for v in w if v > 0) >= 2, "cls": cls}


RULE = ("list_kernels: odd weight lists of length 1..7 (asymmetric, symmetric, integer-valued, and a class with zero weights), "
        "signals of length N..N+14 (N = window length): constants, monotone runs, plateau signals, lattice values k*scale, with "
        "isolated NaN (>= N apart, also on the first/last fix); kernel_objects: the 7 built-in kernels + Dirac, width in [1,4] "
        "(quarter lattice, integers, arbitrary floats), setFilterBoundary True / False / default; every case goes through "
        "operate(FILTER) on a feature, operate(FILTER) on x|y|z, or filter_seq on a subset of x, y, z and a feature; "
        "or (Gaussian) Track.smooth / TrackCollection.smooth with the width as float or int; 0..2 other kernel objects (any class, "
        "widths 1..3, flag True / False / default) are created and configured before the judged kernel exists and / or between its "
        "configuration and its use; kernel_histories: 2..3 kernel objects (built-in, Dirac or a weight list object that is reused), "
        "all created first or each right before its first use, 2..4 judged filter calls (the first two with two different kernels), "
        "a call optionally preceded by setFilterBoundary on any of the kernels; every call gets the full oracle with the flag last "
        "set on the kernel it uses; "
        "every case / judged call draws the coordinate class of its track (ENU / geographic / ECEF); "
        "long_signals: the same body on signals of 999 / 1000 / 1001 / 1024 / 1500 / 2048 / 4097 samples (thorough: 32 sizes from 99 to "
        "20000, around powers of ten and two) x 6 (thorough 15) kernels (asymmetric and integer lists, kernel objects with both boundary "
        "settings) x operate on a feature / operate on y / filter_seq on x, z and a feature x without / with isolated NaN (also on the "
        "last fix), coordinate class rotating, enumerated; Track.smooth on long tracks; plus random sizes (one of 17 anchors 999..4097 "
        "+ -2..7), weight lists / kernels / routes as in the short sub-checks; "
        "windows: toSlidingWindow of every kernel at widths 1..4 step 1/16 plus 5 larger widths (enumerated) and random widths up to 40. "
        "Non-trivial: the filter changes at least one value of the signal and the case involves NaN, a filtered boundary or a window "
        "of length >= 3 (histories: some call changes its signal and two different kernels are used); a window with >= 2 positive weights.  Distinct = hash of the case.")

# coverage-guided stage of the thorough tier (vt/fuzz.py): sub-check -> libFuzzer executions
FUZZ = {'list_kernels': 10000}

SUBCHECKS = [
    SubCheck("windows", body_window, enum=enum_windows, strategy=strat_windows, quick=400, thorough=8000, qshards=2, tshards=4),
    SubCheck("list_kernels", body_filter, strategy=strat_list, quick=8000, thorough=200000, qshards=7),
    SubCheck("kernel_objects", body_filter, strategy=strat_kernel, quick=8000, thorough=200000, qshards=7),
    SubCheck("long_signals", body_filter, enum=enum_long, strategy=strat_long, quick=120, thorough=2400, qshards=6,
             rule="signals of 999..4097 (thorough 99..20000) samples: sizes around powers of ten and two x asymmetric lists / kernel "
                  "objects x operate on a feature / on y / filter_seq x NaN x coordinate class, enumerated; plus random ones"),
    SubCheck("kernel_histories", body_history, strategy=strat_history, quick=3000, thorough=60000, qshards=4,
             rule="2..3 kernel objects and 2..4 judged filter calls in one case, flags reconfigured in between"),
]
