"""C04 - sequence operations on a track select exactly the designated observations.

Oracle: a Python list of records.  Every observation of a case carries a unique x coordinate (its
creation number), so "the designated observations" can be read off the result by value, and the
identity (id) of the Obs objects is used where the operation works in place (sort, insert, remove).
Times are t0 + 250 ms * q with integer q; the fixes of a track sit on even q (a half-second lattice,
so duplicates are common), arguments (insertion instants, span bounds) may be any integer q, which
gives the four positions before / between / equal / after.
"""
import itertools

from hypothesis import strategies as st

from tracklib.core.obs import Obs
from tracklib.core.obs_coords import ENUCoords
from tracklib.core.obs_time import ObsTime
from tracklib.core.track import Track

from vt import gen
from vt.core import SubCheck, Violation

ASSUMPTIONS = [
    "ENU tracks of 0..33 observations; timestamps t0 + 250 ms * q, 1970 < t0 < 2100, built field-wise (ObsTime order is C03's subject)",
    "indices are Python ints inside the track (0 <= i <= j < size; 0 <= n <= size for > and <; n >= 1 for %); removeObsList gets a duplicate-free list of ints in any order",
    "insertion without an index is judged only when the receiving track is time-sorted; where an equal-time observation goes, and stability of sort, are free",
    "feature columns may be created in any order and removed / created again before the operation; values are always read by name",
    "+ of tracks whose feature tables differ (other names, other number, same names at other columns): the unchanged code hands out "
    "a result without a table; demanded are positions and times, and that every name the result does list reads, for each observation, "
    "the value this observation has under that name in its own track",
    "follow-up edits: after a judged derivation one more feature is created (and values assigned to it) or a feature is removed on the "
    "result or on a source; the edited track must hold its records with the edited table, every other track must be exactly what it was "
    "(records, listed names, all values readable). Whether result and source hold the same Obs objects is free: when a column is REMOVED "
    "from Obs objects that both hold, only positions and times of the other track are judged. One edit per case; a result without a "
    "table and an empty track (no feature can be created, documented) are not edited",
    "tr[i:j] is taken as a second spelling of index extraction",
    "time zone: the timestamps of a track may carry a whole-hour zone label -12..+14 (ObsTime.zone), given to them by their constructor, "
    "by track.setTimeZone(z) or by track.convertToTimeZone(z) BEFORE the judged operation (these two are pre-history: a case whose track "
    "does not show the modelled fields and labels afterwards is counted as undefined). The record of an observation in the list model is "
    "(x, y, z, calendar fields as epoch ms, zone label, feature values): 'its own timestamp' includes the label, in results and in sources. "
    "Time order and span membership are those of the calendar fields (the library's ObsTime order, C03); span bounds and inserted "
    "observations carry the label of the track, so that no reading of 'time' depends on comparing different labels; the two operands "
    "of + may be in different zones (each observation keeps its own label)",
    "augmented spellings: a += b and a %= n (the only judged operators Python gives an augmented form; Track defines no in-place "
    "variant, so they mean a = a + b / a = a % n) are judged like + and %, with the track a was bound to before held through a second "
    "reference and judged as the unmodified source",
]

QMS = 250
T0S = [
    gen.ms_of_fields(2020, 1, 1) - 5000,              # q = 20 is new year's midnight
    gen.ms_of_fields(2021, 6, 15, 12, 0, 0),
    gen.ms_of_fields(2024, 2, 29, 23, 59, 50),        # crosses 29 Feb -> 1 Mar
    gen.ms_of_fields(1999, 12, 31, 23, 59, 58, 500),
]
POW2 = (1, 2, 4, 8, 16, 32)


# --- building and reading tracks ----------------------------------------------------------------
def _y(u):
    return ((u * 7) % 11) * 0.5


def _z(u):
    return -0.25 * u


def _feat(col, u):
    return (100.5 + u) if col == 0 else float(-(u * u) - col)


def _ms(t0i, q):
    return T0S[t0i % len(T0S)] + QMS * q


# --- the time zone of a track --------------------------------------------------------------------
# A timestamp carries a whole-hour time-zone label (ObsTime.zone; 0 unless set).  On this code base the calendar fields
# are the instant (comparisons / toAbsTime read the fields only) and the label travels with the timestamp; a track is
# "in zone z" when its timestamps carry z: built that way, tagged with setTimeZone(z), or moved with convertToTimeZone(z).
ZONE_LO, ZONE_HI = -12, 14
NZ = (2, -5, 1, 12, -11, 14, -1)
HOWS = ("ctor", "setTimeZone", "convertToTimeZone")


class _Undef(Exception):
    """the pre-history of a case did not leave the tracks in the modelled state (not this property's subject)"""


def _zone_ok(z):
    return isinstance(z, int) and not isinstance(z, bool) and ZONE_LO <= z <= ZONE_HI


def _zone_of(trk):
    """(label, how it gets onto the track) of a generated track; old cases have none"""
    z, how = trk.get("z", 0), trk.get("zh", 0)
    if not _zone_ok(z) or isinstance(how, bool) or not isinstance(how, int):
        raise _Undef()
    return z, how % len(HOWS)


def _ot(ms, zone=0):
    """ObsTime built field-wise, carrying the zone label"""
    if not zone:
        return gen.obstime_of_ms(ms)
    return ObsTime(*gen.fields_of_ms(ms), zone=zone)


def _mk_obs(u, ms, zone=0):
    return Obs(ENUCoords(float(u), _y(u), _z(u)), _ot(ms, zone))


def _rec(u, ms, names, zone=0):
    return (float(u), _y(u), _z(u), ms, zone, tuple(_feat(c, u) for c in range(len(names))))


def _build(t0i, qs, names=(), uid0=0, order=None, recreate=(), zone=0, how=0):
    """-> (track, [Obs], [record]) ; record = (x, y, z, t_ms, zone label, features), features in the order of `names`.
    The feature columns are created in the order `order` (a permutation of the column numbers; default 0, 1, ..);
    then every column of `recreate` is removed and created again with the same values (it moves to the last slot).
    zone != 0: the timestamps carry that label - from their constructor (how 0), from track.setTimeZone(zone) (how 1), or the
    track is built `zone` hours earlier with label 0 and moved with track.convertToTimeZone(zone) (how 2)."""
    if zone and how == 2:
        obs = [_mk_obs(uid0 + i, _ms(t0i, q) - 3600000 * zone) for i, q in enumerate(qs)]
    else:
        obs = [_mk_obs(uid0 + i, _ms(t0i, q), zone if how == 0 else 0) for i, q in enumerate(qs)]
    tr = Track([], 1)
    for o in obs:
        tr.addObs(o)
    if zone and how == 2:
        tr.convertToTimeZone(zone)
    if obs:
        for c in (order if order is not None else range(len(names))):
            tr.createAnalyticalFeature(names[c], [_feat(c, uid0 + i) for i in range(len(obs))])
        for k, c in enumerate(recreate):
            if k % 2 == 0:
                tr.removeAnalyticalFeature(names[c])
                tr.createAnalyticalFeature(names[c], [_feat(c, uid0 + i) for i in range(len(obs))])
            else:                                                    # the same through the [] spelling
                tr[names[c]] = "#DELETE"
                tr[names[c]] = [_feat(c, uid0 + i) for i in range(len(obs))]
    if zone and how == 1:
        tr.setTimeZone(zone)
    recs = [_rec(uid0 + i, _ms(t0i, q), names if obs else (), zone) for i, q in enumerate(qs)]
    if zone and how != 0:
        # setTimeZone / convertToTimeZone are pre-history, not judged: the track must show the modelled state
        if [(gen.ms_of_obstime(o.timestamp), getattr(o.timestamp, "zone", None)) for o in tr.getObsList()] != [(r[3], r[4]) for r in recs] \
                or [id(o) for o in tr.getObsList()] != [id(o) for o in obs]:
            raise _Undef()
    return tr, obs, recs


def _plan(trk, prefix="f"):
    """feature plan of a generated track -> (names, creation order, re-created columns, names in table order)"""
    nf = trk["nf"] if trk["q"] else 0
    names = _names(nf, prefix)
    fo = list(trk.get("fo") or [])
    if sorted(fo) != list(range(nf)) or any(isinstance(c, bool) for c in fo):
        fo = list(range(nf))
    rc = [c for c in (trk.get("rc") or []) if isinstance(c, int) and not isinstance(c, bool) and 0 <= c < nf]
    listed = [names[c] for c in fo]
    for c in rc:
        listed.remove(names[c])
        listed.append(names[c])
    return names, fo, rc, listed


def _build_trk(trk, prefix="f", uid0=0):
    names, fo, rc, listed = _plan(trk, prefix)
    z, how = _zone_of(trk)
    tr, obs, recs = _build(trk["t0"], trk["q"], names, uid0=uid0, order=fo, recreate=rc, zone=z, how=how)
    return tr, obs, recs, names, listed


def _zcls(trk):
    z, how = _zone_of(trk)
    return "zone-0" if not (z and trk["q"]) else "zone-nonzero:" + HOWS[how]


def _guard(body):
    def run(case):
        try:
            return body(case)
        except _Undef:
            return {"undef": True, "cls": ["prehistory-not-as-modelled"]}
    run.__name__ = body.__name__
    return run


def _names(nf, prefix="f"):
    return tuple("%s%d" % (prefix, c) for c in range(nf))


def _read(tr, names):
    """(ids, records) of a track through its public accessors"""
    lst = tr.getObsList()
    n = tr.size()
    if len(lst) != n or len(tr) != n:
        raise Violation("size-inconsistent", "size()=%d len()=%d len(getObsList())=%d" % (n, len(tr), len(lst)))
    ids, recs = [], []
    for i in range(n):
        o = tr.getObs(i)
        ids.append(id(o))
        recs.append((o.position.getX(), o.position.getY(), o.position.getZ(), gen.ms_of_obstime(o.timestamp),
                     getattr(o.timestamp, "zone", None), tuple(tr.getObsAnalyticalFeature(nm, i) for nm in names)))
    return ids, recs


def _short(recs):
    if any(r[4] for r in recs):
        return [(int(r[0]), r[3] % 1000000, r[4]) for r in recs][:40]
    return [(int(r[0]), r[3] % 1000000) for r in recs][:40]


def _expect(tr, want, names, key, what, features=True):
    """the track holds exactly the records `want`, in that order, and lists the feature names"""
    _, got = _read(tr, ())
    if [g[:5] for g in got] != [w[:5] for w in want]:
        raise Violation(key, "%s: got (x, t[, zone]) %s, list model says %s" % (what, _short(got), _short(want)))
    if not features:
        return
    have = tr.getListAnalyticalFeatures()
    if sorted(have) != sorted(names):
        raise Violation(key + "-features", "%s: feature names %s, source has %s" % (what, have, list(names)))
    _, got = _read(tr, names)
    for i, (g, w) in enumerate(zip(got, want)):
        if g[5] != w[5]:
            raise Violation(key + "-features", "%s: obs %d (x=%s) reads features %s, its own are %s" % (
                what, i, g[0], g[5], w[5]))


def _unchanged(tr, ids, recs, names, key, what):
    """source track still holds the same Obs objects with the same values"""
    ids2, recs2 = _read(tr, ())
    if ids2 != ids or [r[:5] for r in recs2] != [r[:5] for r in recs]:
        raise Violation(key + "-source-modified", "%s changed its source: %s -> %s" % (what, _short(recs), _short(recs2)))
    if sorted(tr.getListAnalyticalFeatures()) != sorted(names):
        raise Violation(key + "-source-modified", "%s changed the source's feature names" % what)
    _, recs2 = _read(tr, names)
    if [r[5] for r in recs2] != [r[5] for r in recs]:
        raise Violation(key + "-source-modified", "%s changed the source's feature values" % what)


def _nondecreasing(recs):
    return all(recs[i][3] <= recs[i + 1][3] for i in range(len(recs) - 1))


def _has_dup(qs):
    return len(set(qs)) < len(qs)


# --- generators ---------------------------------------------------------------------------------
SIZES = st.one_of(st.sampled_from([0, 1, 2, 3, 4, 5, 7, 8, 9, 15, 16, 17, 31, 32, 33]), st.integers(0, 33))


def _order(draw, nf):
    """creation order of nf feature columns and the columns that are removed and created again afterwards"""
    if nf == 0:
        return [], []
    fo = draw(st.one_of(st.just(list(range(nf))), st.permutations(list(range(nf))))) if nf > 1 else [0]
    rc = draw(st.sampled_from([[], [], [], [0], [nf - 1], [0, nf - 1] if nf > 1 else [0, 0]]))
    return list(fo), list(rc)


def _zone(draw):
    """time zone of a track: (label, how it gets there); label 0 (as ever) in about 40% of the tracks"""
    mode = draw(st.sampled_from([0, 0, 1, 1, 2]))
    z = 0 if mode == 0 else draw(st.sampled_from(NZ)) if mode == 1 else draw(st.integers(ZONE_LO, ZONE_HI))
    return z, draw(st.integers(0, len(HOWS) - 1))


@st.composite
def _track(draw, min_n=0, max_nf=3):
    n = max(min_n, draw(SIZES))
    hi = draw(st.sampled_from([-1, 0, 1, 2, max(1, n // 2), n + 2, 3 * n + 3]))
    if hi < 0:                                               # all stamps distinct
        qs = [2 * k for k in draw(st.permutations(list(range(n))))]
    else:
        qs = [2 * k for k in draw(st.lists(st.integers(0, hi), min_size=n, max_size=n))]
    order = draw(st.sampled_from(["shuffled", "sorted", "reverse"]))
    if order == "sorted":
        qs.sort()
    elif order == "reverse":
        qs.sort(reverse=True)
    nf = draw(st.integers(0, max_nf)) if n else 0
    fo, rc = _order(draw, nf)
    z, zh = _zone(draw) if n else (0, 0)
    return {"t0": draw(st.integers(0, len(T0S) - 1)), "q": qs, "nf": nf, "fo": fo, "rc": rc, "z": z, "zh": zh}


def _instant(draw, qs):
    """integer q: before / between / equal / after the fixes"""
    lo, hi = (min(qs), max(qs)) if qs else (0, 0)
    alts = [st.integers(lo - 2, hi + 2), st.sampled_from([lo - 1, lo, hi, hi + 1])]
    if qs:
        alts.append(st.sampled_from(qs))
        alts.append(st.sampled_from(qs).map(lambda v: v + 1))
    return draw(st.one_of(alts))


def _index(draw, n):
    return draw(st.one_of(st.sampled_from([0, n - 1]), st.integers(0, n - 1)))


# --- (i) sort -----------------------------------------------------------------------------------
def strat_sort():
    return _track()


@_guard
def body_sort(case):
    tr, obs, recs, names, listed = _build_trk(case)
    own = {id(o): r for o, r in zip(obs, recs)}
    tr.sort()
    ids, got = _read(tr, names)
    if sorted(ids) != sorted(own):
        raise Violation("sort-changes-population", "sort of %d obs returns %d obs, %d of them the original objects" % (
            len(obs), len(ids), len(set(ids) & set(own))))
    for i, g in zip(ids, got):
        if g != own[i]:
            raise Violation("sort-detaches-values", "after sort obs x=%s reads %s, its own record is %s" % (g[0], g, own[i]))
    if not _nondecreasing(got):
        raise Violation("sort-not-sorted", "times after sort: %s" % [g[3] % 1000000 for g in got])
    if sorted(tr.getListAnalyticalFeatures()) != sorted(names):
        raise Violation("sort-detaches-values", "feature names changed by sort")
    q = case["q"]
    n = len(q)
    cls = ["dup" if _has_dup(q) else "distinct", _zcls(case)]
    if listed != sorted(listed):
        cls.append("features-in-other-order")
    if q == sorted(q):
        cls.append("already-sorted")
    elif q == sorted(q, reverse=True):
        cls.append("reverse-sorted")
    else:
        cls.append("shuffled")
    if n in POW2:
        cls.append("pow2-size")
    if n <= 1:
        cls.append("size<=1")
    return {"nt": n >= 2 and (_has_dup(q) or n in POW2 or q == sorted(q) or q == sorted(q, reverse=True)), "cls": cls}


# --- (ii) insertion without an index: exhaustive slots -------------------------------------------
def _insert_and_check(t0i, qs, slot, via, stash, zone=0):
    """one chronological insertion into the sorted track qs (all timestamps carry the label `zone`); stash caches the
    built observations"""
    key = (t0i, tuple(qs), zone)
    if stash.get("key") != key:
        stash["key"] = key
        stash["obs"] = [_mk_obs(i, _ms(t0i, q), zone) for i, q in enumerate(qs)]
    obs = stash["obs"]
    tr = Track(list(obs), 1)
    new = _mk_obs(len(qs), _ms(t0i, slot), zone)
    if via == 0:
        tr.insertObsInChronoOrder(new)
    else:
        tr.insertObs(new)
    lst = tr.getObsList()
    what = "insert q=%d into q=%s%s" % (slot, list(qs), " (zone %+d)" % zone if zone else "")
    if len(lst) != len(obs) + 1 or tr.size() != len(obs) + 1:
        raise Violation("insert-changes-population", "%s: size %d -> %d" % (what, len(obs), tr.size()))
    ids = [id(o) for o in lst]
    if sorted(ids) != sorted([id(o) for o in obs] + [id(new)]):
        raise Violation("insert-changes-population", "%s: old observations lost or duplicated" % what)
    ms = [gen.ms_of_obstime(o.timestamp) for o in lst]
    if any(ms[i] > ms[i + 1] for i in range(len(ms) - 1)):
        raise Violation("insert-breaks-order", "%s: new obs at index %d, q after = %s" % (
            what, ids.index(id(new)), [(m - _ms(t0i, 0)) // QMS for m in ms]))
    for i, o in enumerate(obs + [new]):
        if o.position.getX() != float(i) or gen.ms_of_obstime(o.timestamp) != _ms(t0i, (list(qs) + [slot])[i]) \
                or getattr(o.timestamp, "zone", None) != zone:
            raise Violation("insert-changes-values", "%s: obs %d altered" % (what, i))


def _families(n, tier):
    """sorted tracks of size n (as q lists, even values) for the exhaustive part"""
    out = []
    if n == 0:
        return [[]]
    for r in range(1, n + 1):                               # runs of r equal stamps (r = n: all equal)
        out.append([2 * (i // r) for i in range(n)])
    for p in range(n):                                      # one block of m equal stamps starting at p
        for m in range(2, n - p + 1):
            qs, v = [], 0
            for i in range(n):
                if not (p < i < p + m):
                    v += 2
                qs.append(v)
            out.append(qs)
    for g in range(n - 1):                                  # one wide gap (several "between" instants)
        out.append([2 * i + (6 if i > g else 0) for i in range(n)])
    lim = 10 if tier == "quick" else 14
    if 2 <= n <= lim:                                       # every pattern of ties between neighbours
        for bits in itertools.product((0, 2), repeat=n - 1):
            qs = [0]
            for b in bits:
                qs.append(qs[-1] + b)
            out.append(qs)
    seen, uniq = set(), []
    for qs in out:
        t = tuple(qs)
        if t not in seen:
            seen.add(t)
            uniq.append(qs)
    return uniq


def enum_insert(tier):
    for n in range(0, 34):
        for k, qs in enumerate(_families(n, tier)):
            yield {"t0": (n + k) % len(T0S), "q": qs, "z": NZ[(n + k) % len(NZ)] if k % 2 else 0}


def body_insert_slots(case):
    qs = case["q"]
    if qs != sorted(qs):
        return {"undef": True}
    lo, hi = (qs[0], qs[-1]) if qs else (0, 0)
    z = case.get("z", 0)
    if not _zone_ok(z):
        return {"undef": True}
    stash = {}
    slots = list(range(lo - 2, hi + 3))
    for s in slots:
        _insert_and_check(case["t0"], qs, s, s & 1 if qs else 0, stash)
        if s in (lo, hi, lo - 1, hi + 1):
            _insert_and_check(case["t0"], qs, s, 1 - (s & 1), stash)
    if z:                                     # the same track in time zone z: the end slots, the middle, every 5th slot
        for k, s in enumerate(slots):
            if s in (lo - 1, lo, (lo + hi) // 2, hi, hi + 1) or k % 5 == 0:
                _insert_and_check(case["t0"], qs, s, k & 1, stash, z)
    n = len(qs)
    cls = ["slots-%s" % ("<=8" if len(slots) <= 8 else "<=32" if len(slots) <= 32 else ">32"), "zone-nonzero" if z else "zone-0"]
    if _has_dup(qs):
        cls.append("dup")
    if n in POW2:
        cls.append("pow2-size")
    if n - 1 in POW2 or n + 1 in POW2:
        cls.append("pow2+-1-size")
    return {"nt": True, "cls": cls}           # every case contains both end slots and every equality slot


# --- (iii) the selecting operators ---------------------------------------------------------------
OPS = ["extract", "slice", "span", "span_track", "add", "add", "mod_int", "mod_pat", "gt", "lt", "remove", "remove_one"]
DERIVING = ("extract", "slice", "span", "span_track", "add", "mod_int", "mod_pat", "gt", "lt")
AUGMENTED = ("add", "mod_int", "mod_pat")   # operators with an augmented spelling (+=, %=); > and < have none in Python
NEW = "znew"                      # name of the feature a follow-up edit creates


@st.composite
def strat_ops_(draw):
    trk = draw(_track())
    n = len(trk["q"])
    kinds = [k for k in OPS if n > 0 or k not in ("extract", "slice", "remove_one")]
    op = draw(st.sampled_from(kinds))
    case = {"trk": trk, "op": op}
    if op in ("extract", "slice"):
        i, j = sorted((_index(draw, n), _index(draw, n)))
        case["i"], case["j"] = i, j
    elif op == "span":
        case["a"], case["b"] = _instant(draw, trk["q"]), _instant(draw, trk["q"])
    elif op == "span_track":
        m = draw(st.integers(1, 3))
        case["ref"] = [_instant(draw, trk["q"]) for _ in range(m)]
    elif op == "add":
        other = draw(_track())
        if draw(st.sampled_from([True, True, False])) and len(other["q"]) and n:
            other["z"] = trk["z"]                                # mostly both operands in the same time zone
        kind = draw(st.sampled_from(["same", "same", "other-order", "other-order", "other-count", "other-names"]))
        if len(other["q"]) and n:
            if kind == "same":                                   # same names, created in the same order
                other["nf"], other["fo"], other["rc"] = trk["nf"], list(trk["fo"]), list(trk["rc"])
            elif kind == "other-order":                          # same names, another creation order / re-creations
                if trk["nf"] < 2:
                    trk["nf"] = draw(st.integers(2, 3))
                    trk["fo"], trk["rc"] = _order(draw, trk["nf"])
                other["nf"] = trk["nf"]
                other["fo"], other["rc"] = _order(draw, other["nf"])
                l1, l2 = _plan(trk)[3], _plan(other)[3]
                if l1 == l2:
                    other["fo"], other["rc"] = [int(nm[1:]) for nm in l1[1:] + l1[:1]], []
            elif kind == "other-names":
                other["nf"] = trk["nf"]
                other["fo"], other["rc"] = _order(draw, other["nf"])
                case["prefix2"] = "g"
        case["other"] = other
    elif op == "mod_int":
        case["n"] = draw(st.one_of(st.integers(1, 5), st.sampled_from([1, 2, max(1, n - 1), max(1, n), n + 1, n + 7])))
    elif op == "mod_pat":
        case["pat"] = draw(st.lists(st.booleans(), min_size=1, max_size=4))
    elif op in ("gt", "lt"):
        case["n"] = draw(st.one_of(st.integers(0, n), st.sampled_from([0, min(1, n), max(0, n - 1), n])))
    elif op == "remove":
        idx = draw(st.lists(st.integers(0, max(0, n - 1)), unique=True, max_size=n) if n else st.just([]))
        how = draw(st.sampled_from(["asis", "asc", "desc", "all"]))
        if how == "asc":
            idx.sort()
        elif how == "desc":
            idx.sort(reverse=True)
        elif how == "all":
            idx = list(range(n))
        case["idx"] = idx
    elif op == "remove_one":
        case["i"] = _index(draw, n)
    if op in AUGMENTED:
        case["aug"] = draw(st.booleans())                        # written as  a += b / a %= n  with another reference to a kept
    if op in DERIVING:
        # follow-up edit of the feature table of one of the tracks after the judged derivation; then all are judged again
        kind = draw(st.sampled_from(["none", "none", "create", "create", "create+assign", "remove"]))
        if kind != "none":
            case["edit"] = {"on": draw(st.sampled_from(["res", "res", "src", "src2" if op == "add" else "src"])),
                            "kind": kind, "via": draw(st.integers(0, 1)), "col": draw(st.integers(0, 2))}
    return case


def strat_ops():
    return strat_ops_()


def _expect_own(res, want, owners, key, what):
    """+ of tracks whose feature tables differ (other names, other number, other creation order): the unchanged code
    hands out a result without a table.  Demanded: the designated observations, and - whatever names the result
    lists - reading a name returns, for every observation, the value that observation has under that name in the
    track it comes from.  owners[i] = feature names (in the order of the record's values) of the i-th observation."""
    _, got = _read(res, ())
    if [g[:5] for g in got] != [w[:5] for w in want]:
        raise Violation(key, "%s: got (x, t[, zone]) %s, list model says %s" % (what, _short(got), _short(want)))
    have = res.getListAnalyticalFeatures()
    for nm in have:
        for i, (w, ns) in enumerate(zip(want, owners)):
            if nm not in ns:
                raise Violation(key + "-features", "%s: the result lists feature %r, obs %d (x=%s) comes from a track without it" % (
                    what, nm, i, w[0]))
            try:
                v = res.getObsAnalyticalFeature(nm, i)
            except (IndexError, KeyError) as e:
                raise Violation(key + "-features", "%s: the result lists feature %r, reading it for obs %d (x=%s) raises %s" % (
                    what, nm, i, w[0], type(e).__name__))
            if v != w[5][list(ns).index(nm)]:
                raise Violation(key + "-features", "%s: obs %d (x=%s) reads %r = %r, its own value is %r" % (
                    what, i, w[0], nm, v, w[5][list(ns).index(nm)]))
    return have


def _edit_ok(ed):
    return (isinstance(ed, dict) and ed.get("on") in ("res", "src", "src2")
            and ed.get("kind") in ("create", "create+assign", "remove")
            and all(isinstance(ed.get(k), int) and not isinstance(ed.get(k), bool) and ed.get(k) >= 0 for k in ("via", "col")))


@_guard
def body_ops(case):
    trk, op = case["trk"], case["op"]
    t0i, qs = trk["t0"], trk["q"]
    tr, obs, L, names, listed = _build_trk(trk)
    zone = _zone_of(trk)[0] if qs else 0
    ids = [id(o) for o in obs]
    n = len(L)
    cls = [op, _zcls(trk)]
    aug = bool(case.get("aug")) and op in AUGMENTED
    if aug:
        cls.append("augmented-form")
    hit = False                       # argument hits an end / equality / empty-result case
    res = want = key = what = None    # the derived track, its designated records, root-cause key, description
    owners = None                     # + with different tables: feature names of the track each observation comes from
    right = None                      # + : (track, ids, records, names) of the right operand

    if op in ("extract", "slice"):
        i, j = case["i"], case["j"]
        if not (0 <= i <= j < n):
            return {"undef": True}
        if op == "extract":
            res = tr.extract(i, j)
            key, what = "extract-wrong", "extract(%d, %d) of %d obs" % (i, j, n)
        else:
            res = tr[i:j + 1]
            key, what = "slice-wrong", "[%d:%d] of %d obs" % (i, j + 1, n)
        want = L[i:j + 1]
        hit = i == 0 or j == n - 1 or i == j
    elif op in ("span", "span_track"):
        if op == "span":
            a, b = case["a"], case["b"]
            res = tr.extractSpanTime(_ot(_ms(t0i, a), zone), _ot(_ms(t0i, b), zone))      # bounds in the zone of the track
            if a > b:
                cls.append("reversed-bounds")
        else:
            ref, _, _ = _build(t0i, case["ref"], (), uid0=1000, zone=zone)
            a, b = case["ref"][0], case["ref"][-1]
            res = tr.extractSpanTime(ref)
        lo, hi = _ms(t0i, min(a, b)), _ms(t0i, max(a, b))
        want = [r for r in L if lo <= r[3] <= hi]
        key, what = "span-wrong", "extractSpanTime(q=%d, q=%d) of q=%s" % (a, b, qs)
        hit = a in qs or b in qs or not want or len(want) == n
        if not want:
            cls.append("empty-result")
        if a in qs or b in qs:
            cls.append("bound-equals-stamp")
    elif op == "add":
        tr2, obs2, L2, names2, listed2 = _build_trk(case["other"], case.get("prefix2", "f"), uid0=100)
        right = (tr2, [id(x) for x in obs2], L2, names2)
        if aug:
            acc = tr                          # `tr` stays the other reference to the left operand
            acc += tr2
            res = acc
        else:
            res = tr + tr2
        want = L + L2
        key, what = "add-wrong", "%s of %d obs (table %s) and %d obs (table %s)" % ("+=" if aug else "+", n, listed, len(L2), listed2)
        if L and L2 and L[0][4] != L2[0][4]:
            cls.append("operands-in-different-zones")
        if listed == listed2:             # same names at the same columns (an empty track has no table)
            cls.append("same-table")
        else:
            owners = [names] * n + [names2] * len(L2)
            cls.append("different-table")
            if listed and sorted(listed) == sorted(listed2):
                cls.append("same-names-other-order")
        hit = n == 0 or not L2
    elif op == "mod_int":
        k = case["n"]
        if k < 1:
            return {"undef": True}
        if aug:
            acc = tr
            acc %= k
            res = acc
        else:
            res = tr % k
        want, key, what = L[::k], "mod-int-wrong", "%s %d of %d obs" % ("%=" if aug else "%", k, n)
        hit = k == 1 or k >= n or (n - 1) % k == 0
    elif op == "mod_pat":
        pat = [bool(b) for b in case["pat"]]
        if not pat:
            return {"undef": True}
        if aug:
            acc = tr
            acc %= list(pat)
            res = acc
        else:
            res = tr % list(pat)
        want = [r for i, r in enumerate(L) if pat[i % len(pat)]]
        key, what = "mod-pattern-wrong", "%s %s of %d obs" % ("%=" if aug else "%", pat, n)
        hit = not any(pat) or all(pat) or len(pat) > n
        cls.append("pattern-len-%d" % len(pat))
    elif op == "gt":
        k = case["n"]
        if not (0 <= k <= n):
            return {"undef": True}
        res = tr > k
        want, key, what = L[k:], "gt-wrong", "> %d of %d obs" % (k, n)
        hit = k in (0, n, n - 1, 1)
    elif op == "lt":
        k = case["n"]
        if not (0 <= k <= n):
            return {"undef": True}
        res = tr < k
        want, key, what = L[:n - k], "lt-wrong", "< %d of %d obs" % (k, n)
        hit = k in (0, n, n - 1, 1)
    elif op in ("remove", "remove_one"):
        idx = [case["i"]] if op == "remove_one" else list(case["idx"])
        if len(set(idx)) != len(idx) or any(not (0 <= i < n) for i in idx):
            return {"undef": True}
        gone = set(idx)
        if op == "remove_one":
            tr.removeObs(idx[0])
        else:
            tr.removeObsList(list(idx))
        want = [r for i, r in enumerate(L) if i not in gone]
        what = "removeObsList(%s) of %d obs" % (idx, n)
        _expect(tr, want, names, "remove-wrong", what)
        left = [id(o) for o in tr.getObsList()]
        if left != [x for i, x in enumerate(ids) if i not in gone]:
            raise Violation("remove-wrong", "%s: remaining Obs objects are not the originals" % what)
        hit = not idx or 0 in gone or (n - 1) in gone or len(gone) == n
        if idx != sorted(idx):
            cls.append("unsorted-index-list")
        if len(idx) >= 2:
            cls.append("multi-index")
    else:
        raise ValueError(op)

    if op in DERIVING:
        def judge_res(k, w):
            if owners is None:
                _expect(res, want, names, k, w)
            else:
                _expect_own(res, want, owners, k, w)

        def judge_sources(k, w, skip=None):
            if skip != "src":
                _unchanged(tr, ids, L, names, k, w)
            if right is not None and skip != "src2":
                _unchanged(right[0], right[1], right[2], right[3], k, w + " (right operand)")

        judge_res(key, what)
        judge_sources(op, what if aug else op)

        # follow-up edit: the feature table of the derived track / of a source is edited AFTER the derivation,
        # then the edited track and the other ones are judged again (a derived track must not share state
        # with its source through which later work on one of them reaches the other)
        ed = case.get("edit")
        if ed is not None and _edit_ok(ed):
            on, kind, via, col = ed["on"], ed["kind"], ed["via"] % 2, ed["col"]
            if on == "src2" and right is None:
                on = "src"
            E, Ewant, Enames = {"res": (res, want, names), "src": (tr, L, names),
                                "src2": (right[0], right[2], right[3]) if right else None}[on]
            Enames = tuple(Enames)
            done = False
            if on == "res" and owners is not None:
                cls.append("edit-skipped:result-without-table")
            elif kind == "remove":
                if not Enames:
                    cls.append("edit-skipped:no-feature")
                else:
                    c = col % len(Enames)
                    if via:
                        E[Enames[c]] = "#DELETE"
                    else:
                        E.removeAnalyticalFeature(Enames[c])
                    Ewant2 = [r[:5] + (r[5][:c] + r[5][c + 1:],) for r in Ewant]
                    Enames2 = Enames[:c] + Enames[c + 1:]
                    done = True
            elif not Ewant:
                cls.append("edit-skipped:empty-track")     # documented: no feature can be created on an empty track
            else:
                vals = [7000.25 + k for k in range(len(Ewant))]
                if via:
                    E[NEW] = list(vals)
                else:
                    E.createAnalyticalFeature(NEW, list(vals))
                if kind == "create+assign":
                    vals[0] = -1.5
                    E.setObsAnalyticalFeature(NEW, 0, -1.5)
                    vals[-1] = -2.5
                    E[len(vals) - 1, NEW] = -2.5
                Ewant2 = [r[:5] + (r[5] + (v,),) for r, v in zip(Ewant, vals)]
                Enames2 = Enames + (NEW,)
                done = True
            if done:
                w2 = "%s, then %s feature on %s" % (what, kind, {"res": "the result", "src": "the source", "src2": "the right operand"}[on])
                _expect(E, Ewant2, Enames2, "followup-edit-wrong", w2)
                eids = set(id(o) for o in E.getObsList())
                cls.append("edit:%s-on-%s" % (kind, on))
                # removing a column from Obs objects that two tracks hold in common reaches both (aliasing of the
                # observations themselves is free): then only positions and times of the other track are judged
                for other in ("res", "src", "src2"):
                    if other == on or (other == "src2" and right is None):
                        continue
                    O = {"res": res, "src": tr, "src2": right[0] if right else None}[other]
                    shared = bool(eids & set(id(o) for o in O.getObsList()))
                    if kind == "remove" and shared:
                        Owant = {"res": want, "src": L, "src2": right[2] if right else None}[other]
                        _expect(O, Owant, (), "followup-edit-%s-modified" % ("result" if other == "res" else "source"), w2, features=False)
                        cls.append("edit:remove-on-shared-obs(records only)")
                    elif other == "res":
                        judge_res("followup-edit-result-modified", w2)
                    else:
                        judge_sources("followup-edit", w2, skip="src2" if other == "src" else "src")
                    if other == "res" or on == "res":
                        cls.append("edit:%s-obs" % ("shared" if shared else "copied/disjoint"))

    if _has_dup(qs):
        cls.append("dup")
    if n in POW2:
        cls.append("pow2-size")
    if hit:
        cls.append("end/equality-argument")
    if trk["nf"]:
        cls.append("with-features")
    if listed != sorted(listed):
        cls.append("features-in-other-order")
    return {"nt": bool(_has_dup(qs) or n in POW2 or hit), "cls": cls}


# --- (iv) histories: operation lists against a list model ----------------------------------------
@st.composite
def strat_hist_(draw):
    t0i = draw(st.integers(0, len(T0S) - 1))
    n0 = draw(st.one_of(st.integers(0, 9), st.sampled_from([0, 1, 2, 3, 4, 7, 8, 15, 16, 31, 32])))
    hi = draw(st.sampled_from([1, 2, n0 + 2, 2 * n0 + 3]))
    cur = sorted(2 * k for k in draw(st.lists(st.integers(0, hi), min_size=n0, max_size=n0)))
    init = list(cur)
    ops = []
    for _ in range(draw(st.integers(1, 14))):
        kind = draw(st.sampled_from(["ins", "ins", "ins", "ins", "rem", "rem", "add", "sort", "sort", "insat", "set", "retime", "reverse"]))
        if kind == "ins" and cur != sorted(cur):
            kind = "sort"
        if kind in ("rem", "set", "retime") and not cur:
            kind = "ins"
        if len(cur) >= 40 and kind != "sort":
            kind = "rem"
        if kind == "ins":
            q = _instant(draw, cur)
            ops.append(["ins", q, draw(st.integers(0, 1))])
            cur.append(q)
            cur.sort()
        elif kind == "rem":
            i = _index(draw, len(cur))
            ops.append(["rem", i])
            del cur[i]
        elif kind == "add":
            q = _instant(draw, cur)
            ops.append(["add", q])
            cur.append(q)
        elif kind == "insat":
            q = _instant(draw, cur)
            i = draw(st.integers(0, len(cur)))
            ops.append(["insat", i, q])
            cur.insert(i, q)
        elif kind == "set":
            q = _instant(draw, cur)
            i = _index(draw, len(cur))
            ops.append(["set", i, q, draw(st.integers(0, 1))])
            cur[i] = q
        elif kind == "retime":
            q = _instant(draw, cur)
            i = _index(draw, len(cur))
            ops.append(["retime", i, q])
            cur[i] = q
        elif kind == "reverse":
            ops.append(["reverse"])
            cur.reverse()
        else:
            ops.append(["sort"])
            cur.sort()
    return {"t0": t0i, "init": init, "ops": ops, "z": _zone(draw)[0]}


def strat_hist():
    return strat_hist_()


def body_hist(case):
    t0i = case["t0"]
    z = case.get("z", 0)                  # every observation of the history carries this time-zone label
    if not _zone_ok(z):
        return {"undef": True}
    tr, obs, _ = _build(t0i, case["init"], zone=z)
    model = [(id(o), float(i), _ms(t0i, q), z) for i, (o, q) in enumerate(zip(obs, case["init"]))]   # (id, x, t_ms, zone)
    keep = list(obs)                      # keeps every Obs alive so that ids stay unique
    uid = len(obs)
    cls = set(["zone-nonzero" if z else "zone-0"])
    nt = False

    def view():
        lst = tr.getObsList()
        if tr.size() != len(lst):
            raise Violation("size-inconsistent", "size() %d, list %d" % (tr.size(), len(lst)))
        return [(id(o), o.position.getX(), gen.ms_of_obstime(o.timestamp), getattr(o.timestamp, "zone", None)) for o in lst]

    def is_sorted(m):
        return all(m[i][2] <= m[i + 1][2] for i in range(len(m) - 1))

    def qv(m):
        return [(r[2] - _ms(t0i, 0)) // QMS for r in m]

    for step, op in enumerate(case["ops"]):
        kind = op[0]
        if kind in ("ins", "add", "insat", "set"):
            q = op[2] if kind in ("insat", "set") else op[1]
            new = _mk_obs(uid, _ms(t0i, q), z)
            rec = (id(new), float(uid), _ms(t0i, q), z)
            uid += 1
            keep.append(new)
        if kind == "ins":
            if not is_sorted(model):
                cls.add("ins-skipped-unsorted")
                continue
            before = qv(model)
            if len(op) > 2 and op[2]:
                tr.insertObs(new)
            else:
                tr.insertObsInChronoOrder(new)
            got = view()
            if sorted(got) != sorted(model + [rec]):
                raise Violation("insert-changes-population", "step %d: insert q=%d into q=%s gives %d obs / altered obs" % (
                    step, q, before, len(got)))
            if not is_sorted(got):
                raise Violation("insert-breaks-order", "step %d: insert q=%d into q=%s gives q=%s" % (step, q, before, qv(got)))
            stamps = [r[2] for r in model]
            if stamps:
                t = rec[2]
                pos = "before" if t < stamps[0] else "after" if t > stamps[-1] else "equal" if t in stamps else "between"
                if t == stamps[0] or t == stamps[-1]:
                    nt = True
            else:
                pos = "empty"
            cls.add("ins-" + pos)
            if pos in ("before", "after", "equal", "empty") or len(model) in POW2 or len(set(stamps)) < len(stamps):
                nt = True
            if len(model) in POW2:
                cls.add("ins-at-pow2-size")
            model = got                   # where an equal-time observation goes is free
            continue
        if kind == "rem":
            if not model:
                cls.add("rem-skipped-empty")
                continue
            i = op[1] % len(model)
            tr.removeObs(i)
            del model[i]
            cls.add("rem")
        elif kind == "add":
            tr.addObs(new)
            model.append(rec)
            cls.add("add")
        elif kind == "insat":
            i = min(max(op[1], 0), len(model))
            tr.insertObs(new, i)
            model.insert(i, rec)
            cls.add("insat")
        elif kind == "set":
            # an observation replaced in place: track[i] = obs or setObs(i, obs) (no re-ordering is documented)
            if not model:
                cls.add("set-skipped-empty")
                continue
            i = op[1] % len(model)
            if len(op) > 3 and op[3]:
                tr.setObs(i, new)
            else:
                tr[i] = new
            model[i] = rec
            cls.add("set")
        elif kind == "retime":
            # the timestamp of an observation of the track replaced in place (obs.timestamp = ...)
            if not model:
                cls.add("retime-skipped-empty")
                continue
            i = op[1] % len(model)
            tr.getObs(i).timestamp = _ot(_ms(t0i, op[2]), z)
            model[i] = (model[i][0], model[i][1], _ms(t0i, op[2]), z)
            cls.add("retime")
        elif kind == "reverse":
            # reverse() returns a reversed COPY (new Obs objects): the history continues on it
            tr = tr.reverse()
            got = view()
            want = [r[1:] for r in model[::-1]]
            if [g[1:] for g in got] != want:
                raise Violation("history-reverse-wrong", "step %d: reverse of q=%s gives q=%s" % (step, qv(model), qv(got)))
            keep.extend(tr.getObsList())
            model = got
            cls.add("reverse")
            continue
        elif kind == "sort":
            was_sorted_before = any(c in cls for c in ("sort-of-unsorted", "sort-of-sorted"))
            tr.sort()
            got = view()
            if sorted(got) != sorted(model):
                raise Violation("sort-changes-population", "step %d: sort of q=%s gives %d obs / altered obs" % (step, qv(model), len(got)))
            if not is_sorted(got):
                raise Violation("sort-not-sorted", "step %d: sort of q=%s gives q=%s" % (step, qv(model), qv(got)))
            cls.add("sort-of-unsorted" if not is_sorted(model) else "sort-of-sorted")
            if was_sorted_before and not is_sorted(model):
                cls.add("sorted-then-disordered-then-sorted-again")
            model = got
            continue
        else:
            raise ValueError(kind)
        got = view()
        if got != model:
            raise Violation("history-%s-wrong" % kind, "step %d: %s gives q=%s, list model says q=%s" % (step, op, qv(got), qv(model)))
    return {"nt": nt, "cls": sorted(cls)}


RULE = ("sort / ops / histories: Hypothesis; sizes 0..33 weighted to 0,1,2,2^k-1,2^k,2^k+1; stamps on a half-second lattice of width "
        "0..3n so duplicates are common; order shuffled / sorted / reverse; 0-3 feature columns created in natural or permuted order, "
        "optionally one or two of them removed and created again (method or [] spelling); times cross a year end, 29 Feb, a minute. "
        "ops: + gets a right operand with the same table / the same names in another creation order / another number / other names; "
        "every deriving operation is followed in half of the cases by an edit (create, create + assign, remove; method or [] spelling) "
        "on the result, the source or the right operand, after which all tracks are judged again. "
        "Time zone: 60% of the generated tracks / histories carry a non-zero label (one of 2,-5,1,12,-11,14,-1 or any of -12..14) put on "
        "by constructor / setTimeZone / convertToTimeZone (a third each); + gets a right operand in the same zone (2/3) or its own; "
        "+ and % are written in augmented form (+=, %=) in half of their cases. "
        "insert_slots: every second enumerated track is repeated with a non-zero label at its end slots, the middle and every 5th slot. "
        "insert_slots: enumerated completely - for every size 0..33 the sorted tracks made of runs of r equal stamps (all r), of one block of "
        "m equal stamps at every position, of one wide gap at every position, and (size <= 10 quick / 14 thorough) every pattern of ties; "
        "each with every instant from 2 quarter-steps before the first to 2 after the last stamp (before / between / equal / after), "
        "through insertObsInChronoOrder and insertObs(obs). Non-trivial: the track has a duplicate timestamp or a power-of-two size, or the "
        "argument hits an end / equality / empty-result case. Distinct = hash of the case.")

# coverage-guided stage of the thorough tier (vt/fuzz.py): sub-check -> libFuzzer executions
FUZZ = {'ops': 15000}

SUBCHECKS = [
    SubCheck("sort", body_sort, strategy=strat_sort, quick=6000, thorough=150000, qshards=2),
    SubCheck("insert_slots", body_insert_slots, enum=enum_insert, qshards=6,
             rule="all sizes 0..33 x tie-pattern families x every slot"),
    SubCheck("ops", body_ops, strategy=strat_ops, quick=20000, thorough=600000, qshards=8),
    SubCheck("histories", body_hist, strategy=strat_hist, quick=8000, thorough=200000, qshards=4),
]
