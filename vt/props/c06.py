"""C06 - network shortest distances are the true minimum over permitted walks.
Oracle: Floyd-Warshall over the arcs permitted by the orientation of every edge (vt/oracle.py).

This module also owns the network case format / generator / builder shared with C07:

    case = {"ids":  [node id (str), ...],             node k of the model has id ids[k]
            "pos":  [[x, y], ...],                      its position
            "edges": [{"src": k, "tgt": k, "ori": 0|1|-1, "w": float, "mid": [[x, y], ...]}, ...],
            "pre": bool        declare all nodes with addNode before the edges (else: edges first,
                               the way NetworkReader does, isolated nodes afterwards),
            "by_node": bool    query with Node objects instead of ids,
            "abscurv": bool    edge geometries carry abs_curv (NetworkReader invariant),
            "cuts": [[kind, value], ...]}               C06 tables only, see resolve_cuts()
or the compact form of the enumerated space {"small": [[src, tgt, ori, w], ...]} (3 nodes a, b, c).
"""
import itertools
import math

from hypothesis import strategies as st

from tracklib.algo.cinematics import computeAbsCurv
from tracklib.core.network import Edge, Network, Node
from tracklib.core.obs import Obs
from tracklib.core.obs_coords import ENUCoords
from tracklib.core.obs_time import ObsTime
from tracklib.core.track import Track

from vt import oracle
from vt.core import SubCheck, Violation, close

INF = oracle.INF
LETTERS = "abcdefghijkl"
DYADIC = [0.0, 0.5, 1.0, 2.0, 3.5]
UNREACHED = 1e300          # documented filler of shortest_distance(s) lists and prepared_shortest_distance

ASSUMPTIONS = [
    "oracle = Floyd-Warshall over arcs (src->tgt when orientation >= 0, tgt->src when orientation <= 0), D[u][u] = 0",
    "networks are built the way NetworkReader builds them: string ids, Edge(id, Track), orientation/weight set "
    "before Network.addEdge, node positions = geometry end points; Dijkstra mode (default routing method)",
    "weights are finite floats >= 0; comparisons are exact when every weight is a multiple of 0.5, else 1e-9 relative",
    "cut-offs closer than 1e-9 (relative) to a true distance are used only on exactly representable weights",
    "shortest_distance(s, t, cut=...) for a single pair is not constrained by the property (only the all-pairs table is)",
    "astar sub-check: A* routing (setRoutingMethod(ROUTING_ALGO_ASTAR)) is judged only where its straight-line heuristic is "
    "admissible: astar weight <= 1 and every edge weight >= the distance between the edge's end nodes; 1e-9 relative",
]


# ------------------------------------------------------------------------------------------------
# model
def expand_small(case, geom=False):
    """compact enumerated case -> full case.  Nodes a(0,0) b(4,0) c(0,4) declared first; with geom edge k
    gets k % 3 interior vertices at positions no other edge uses."""
    if "small" not in case:
        return case
    edges = []
    for k, (s, t, o, w) in enumerate(case["small"]):
        mid = [[1.0 + k, 1.25 + j] for j in range(k % 3)] if geom else []
        edges.append({"src": s, "tgt": t, "ori": o, "w": float(w), "mid": mid})
    return {"ids": ["a", "b", "c"], "pos": [[0.0, 0.0], [4.0, 0.0], [0.0, 4.0]], "edges": edges,
            "pre": True, "by_node": False, "abscurv": False,
            "cuts": [["abs", -1.0], ["abs", 1e300]] + [[kind, k] for k in range(7) for kind in ("at", "above")]}


def is_exact(case):
    """every weight a (small) multiple of 0.5: all sums are exact in binary floating point"""
    return all(e["w"] * 2 == int(e["w"] * 2) and e["w"] <= 2 ** 20 for e in case["edges"])


def model(case):
    """(n, arcs, D) with nodes 0..n-1"""
    n = len(case["ids"])
    arcs = oracle.arcs_of_edges(case["edges"])
    return n, arcs, oracle.floyd_warshall(list(range(n)), arcs)


def node_order(case):
    """model of the insertion order of nodes (index list)"""
    n = len(case["ids"])
    if case.get("pre"):
        return list(range(n))
    order = []
    for e in case["edges"]:
        for k in (e["src"], e["tgt"]):
            if k not in order:
                order.append(k)
    return order + [k for k in range(n) if k not in order]


def edge_points(case, e):
    """geometry of an edge, stored source -> stored target"""
    return [list(case["pos"][e["src"]])] + [list(p) for p in e.get("mid", [])] + [list(case["pos"][e["tgt"]])]


def build_network(case):
    ids, pos = case["ids"], case["pos"]
    net = Network()
    if case.get("pre"):
        for k in range(len(ids)):
            net.addNode(Node(ids[k], ENUCoords(pos[k][0], pos[k][1], 0)))
    for j, e in enumerate(case["edges"]):
        tr = Track([Obs(ENUCoords(p[0], p[1], 0), ObsTime()) for p in edge_points(case, e)])
        if case.get("abscurv"):
            computeAbsCurv(tr)
        edge = Edge("e%d" % j, tr)
        edge.orientation = e["ori"]
        edge.weight = e["w"]
        net.addEdge(edge, Node(ids[e["src"]], tr.getFirstObs().position), Node(ids[e["tgt"]], tr.getLastObs().position))
    if not case.get("pre"):
        for k in range(len(ids)):
            net.addNode(Node(ids[k], ENUCoords(pos[k][0], pos[k][1], 0)))
    if case.get("astar") is not None:
        net.setRoutingMethod(Network.ROUTING_ALGO_ASTAR)
        net.setAStarWeight(case["astar"])
    return net


def handle(net, case, k):
    """what is passed to tracklib for node k: its id or the network's Node object"""
    return net.getNode(case["ids"][k]) if case.get("by_node") else case["ids"][k]


def agree(got, want, exact):
    if exact:
        return got == want
    return close(got, want, rel=1e-9, abs_=0.0)


def _sim_decrease_key(n, arcs):
    """label only: does a textbook Dijkstra from some source improve a node that was already discovered?"""
    out = [[] for _ in range(n)]
    for u, v, w in arcs:
        if u != v:
            out[u].append((v, w))
    for s in range(n):
        dist = {s: 0.0}
        done = set()
        while True:
            cand = [(d, k) for k, d in dist.items() if k not in done]
            if not cand:
                break
            d, u = min(cand)
            done.add(u)
            for v, w in out[u]:
                if v in done:
                    continue
                if v not in dist:
                    dist[v] = d + w
                elif d + w < dist[v]:
                    return True
    return False


def classify(case, n, arcs, D, exact):
    """class labels + the non-trivial rule of C06"""
    edges = case["edges"]
    cls = ["exact-weights" if exact else "float-weights",
           "n<=3" if n <= 3 else "n4-7" if n <= 7 else "n8-12",
           "m=0" if not edges else "m<=n" if len(edges) <= n else "m<=3n" if len(edges) <= 3 * n else "m>3n"]
    unreachable = any(d == INF for d in D.values())
    pairs_of = {}
    for j, e in enumerate(edges):
        pairs_of.setdefault(frozenset((e["src"], e["tgt"])), []).append(j)

    def tight(u, v, w):
        return u != v and agree(w, D[(u, v)], exact)

    rev = zero = par = False
    for j, e in enumerate(edges):
        s, t, w, o = e["src"], e["tgt"], e["w"], e["ori"]
        on_sp = (o >= 0 and tight(s, t, w)) or (o <= 0 and tight(t, s, w))
        if not on_sp:
            continue
        rev = rev or (o == -1)
        zero = zero or (w == 0)
        par = par or len(pairs_of[frozenset((s, t))]) > 1
    ties = False
    for (u, v), d in D.items():
        if u == v or d == INF:
            continue
        k = sum(1 for a, b, w in arcs if b == v and a != v and D[(u, a)] < INF and agree(D[(u, a)] + w, d, exact))
        if k > 1:
            ties = True
            break
    if unreachable:
        cls.append("unreachable-pair")
    if rev:
        cls.append("reverse-edge-on-sp")
    if zero:
        cls.append("zero-edge-on-sp")
    if par:
        cls.append("parallel-edge-on-sp")
    if ties:
        cls.append("tied-shortest-walks")
    if any(e["src"] == e["tgt"] for e in edges):
        cls.append("self-loop")
    if _sim_decrease_key(n, arcs):
        cls.append("decrease-key")
    return cls, (unreachable or rev or zero or par)


# ------------------------------------------------------------------------------------------------
# checks
def check_pairs(case, net, n, D, exact):
    ids = case["ids"]
    for s in range(n):
        for t in range(n):
            got = net.shortest_distance(handle(net, case, s), handle(net, case, t))
            want = D[(s, t)]
            if want == INF:
                if not got < 0:
                    raise Violation("unreachable-not-negative", "no permitted walk %s->%s but shortest_distance = %r"
                                    % (ids[s], ids[t], got))
            elif got < 0:
                raise Violation("reachable-reported-unreachable", "%s->%s: true distance %r, shortest_distance = %r"
                                % (ids[s], ids[t], want, got))
            elif not agree(got, want, exact):
                raise Violation("distance-wrong", "%s->%s: true distance %r, shortest_distance = %r"
                                % (ids[s], ids[t], want, got))
    order = node_order(case)
    for s in range(n):
        got = net.shortest_distance(handle(net, case, s))
        want = [UNREACHED if D[(s, t)] == INF else D[(s, t)] for t in order]
        if len(got) != n or not all(agree(g, w, exact) for g, w in zip(got, want)):
            raise Violation("distance-list-wrong", "shortest_distance(%s) = %r, true %r (nodes %s)"
                            % (ids[s], got, want, [ids[t] for t in order]))


def resolve_cuts(case, D, exact):
    """concrete cut-off values: ("abs", v) literally; ("at"|"below"|"above", k) relative to the k-th distinct
    finite true distance.  On inexact weights 'at' becomes 'above' and every cut keeps a relative margin."""
    finite = sorted({d for d in D.values() if d < INF})
    out = []
    for kind, k in case.get("cuts", []):
        if kind == "abs":
            c = float(k)
        else:
            d = finite[int(k) % len(finite)]
            if exact:
                c = d if kind == "at" else d - 0.25 if kind == "below" else d + 0.25
            else:
                c = d * (1 - 1e-6) - 1e-7 if kind == "below" else d * (1 + 1e-6) + 1e-7
        if c in [x[1] for x in out]:
            continue
        # inexact weights: tracklib's sum may differ from the oracle's in the last bits, so the cut must keep clear of
        # every true distance (0 == 0 is safe: a sum of non-negative floats is 0 only if every term is)
        decidable = exact or not any(abs(c - d) <= 1e-9 * max(1.0, abs(d)) and not (c == 0 and d == 0) for d in finite)
        rel = "at" if c in finite else "below-all" if c < finite[0] else "above-all" if c > finite[-1] else "between"
        out.append((decidable, c, rel))
    return out


def _check_table(what, table, want, ids, cut, exact):
    got_keys = set(table.keys())
    want_keys = set(want.keys())
    if got_keys != want_keys:
        miss = sorted(want_keys - got_keys)
        extra = sorted(got_keys - want_keys, key=repr)
        if miss:
            raise Violation("table-missing-pair", "%s(cut=%r) lacks %s (true distance %r <= cut)"
                            % (what, cut, miss[0], want[miss[0]]))
        raise Violation("table-extra-pair", "%s(cut=%r) contains %r = %r, true distance exceeds the cut or pair unreachable"
                        % (what, cut, extra[0], table[extra[0]]))
    for k in sorted(want_keys):
        if not agree(table[k], want[k], exact):
            raise Violation("table-wrong-value", "%s(cut=%r)[%s] = %r, true %r" % (what, cut, k, table[k], want[k]))


def check_tables(case, net, n, D, exact):
    ids = case["ids"]
    used = []
    for decidable, cut, rel in resolve_cuts(case, D, exact):
        if not decidable:
            continue
        used.append(rel)
        want = {(ids[s], ids[t]): D[(s, t)] for s in range(n) for t in range(n) if D[(s, t)] <= cut}
        table = net.all_shortest_distances(cut=cut)
        _check_table("all_shortest_distances", table, want, ids, cut, exact)
        net2 = build_network(case)
        net2.prepare(cut=cut, verbose=False)
        _check_table("prepare", net2.DISTANCES, want, ids, cut, exact)
        for s in range(n):
            for t in range(n):
                a, b = handle(net2, case, s), handle(net2, case, t)
                inside = (ids[s], ids[t]) in want
                if bool(net2.has_prepared_shortest_distance(a, b)) != inside:
                    raise Violation("prepared-membership-wrong", "prepare(cut=%r): has_prepared_shortest_distance(%s,%s) = %r, "
                                    "true distance %r" % (cut, ids[s], ids[t], not inside, D[(s, t)]))
                got = net2.prepared_shortest_distance(a, b)
                if not agree(got, D[(s, t)] if inside else UNREACHED, exact):
                    raise Violation("prepared-wrong-value", "prepare(cut=%r): prepared_shortest_distance(%s,%s) = %r, true %r"
                                    % (cut, ids[s], ids[t], got, D[(s, t)]))
    return used


def _validate(case):
    n = len(case["ids"])
    assert n >= 1 and len(case["pos"]) == n and len(set(case["ids"])) == n
    for e in case["edges"]:
        assert 0 <= e["src"] < n and 0 <= e["tgt"] < n and e["ori"] in (0, 1, -1) and e["w"] >= 0


def body_pairs(case):
    case = expand_small(case)
    _validate(case)
    n, arcs, D = model(case)
    exact = is_exact(case)
    net = build_network(case)
    check_pairs(case, net, n, D, exact)
    cls, nt = classify(case, n, arcs, D, exact)
    return {"nt": nt, "cls": cls}


def body_tables(case):
    case = expand_small(case)
    _validate(case)
    n, arcs, D = model(case)
    exact = is_exact(case)
    net = build_network(case)
    used = check_tables(case, net, n, D, exact)
    if not used:
        return {"undef": True, "cls": ["no-decidable-cut"]}
    cls, nt = classify(case, n, arcs, D, exact)
    return {"nt": nt, "cls": cls + ["cut-" + r for r in sorted(set(used))]}


def body_small(case):
    full = expand_small(case)
    n, arcs, D = model(full)
    net = build_network(full)
    check_pairs(full, net, n, D, True)
    used = check_tables(full, net, n, D, True)
    cls, nt = classify(full, n, arcs, D, True)
    return {"nt": nt, "cls": [c for c in cls if c not in ("exact-weights", "n<=3")] + ["cut-" + r for r in sorted(set(used))]}


# ------------------------------------------------------------------------------------------------
# generators
SMALL_ALPHABET = [(s, t, o, w) for s in range(3) for t in range(3) for o in (0, 1, -1) for w in (0, 1, 2)]


def enum_small(tier):
    """every sequence of <= 2 (quick) / <= 3 (thorough) edges over 3 nodes x 3 nodes x 3 orientations x weights {0,1,2}"""
    for m in range((2 if tier == "quick" else 3) + 1):
        for combo in itertools.product(SMALL_ALPHABET, repeat=m):
            yield {"small": [list(e) for e in combo]}


def _weights(mode):
    if mode == "int012":
        return st.sampled_from([0.0, 1.0, 2.0])
    if mode == "dyadic":
        return st.sampled_from(DYADIC)
    fl = st.one_of(st.floats(0, 100, allow_nan=False, allow_infinity=False),
                   st.sampled_from([0.1, 0.3, 1e-3, 100.0]), st.integers(0, 400).map(lambda k: k / 4.0))
    if mode == "float":
        return fl
    return st.one_of(st.sampled_from(DYADIC), fl)          # "mixed"


@st.composite
def graph_cases(draw, geom=False, cuts=False, min_nodes=1, max_nodes=12, max_edges=40):
    n = draw(st.one_of(st.integers(min_nodes, 4), st.integers(2, max_nodes), st.integers(5, max_nodes)))
    m = draw(st.one_of(st.integers(1, min(max_edges, 2 * n)), st.integers(1, min(max_edges, 4 * n)), st.integers(0, max_edges)))
    wst = _weights(draw(st.sampled_from(["int012", "dyadic", "dyadic", "mixed", "float"])))
    omode = draw(st.sampled_from(["mixed", "mixed", "mixed", "oneway", "twoway-mostly"]))
    ost = {"mixed": st.sampled_from([0, 1, -1]), "oneway": st.sampled_from([1, -1]),
           "twoway-mostly": st.sampled_from([0, 0, 0, 1, -1])}[omode]
    node = st.integers(0, n - 1)
    quarter = st.integers(0, 28).map(lambda k: k / 4.0)
    edges = []
    for j in range(m):
        if edges and draw(st.integers(0, 4)) == 0:               # parallel (or anti-parallel) to an earlier edge
            prev = edges[draw(st.integers(0, len(edges) - 1))]
            s, t = (prev["src"], prev["tgt"]) if draw(st.booleans()) else (prev["tgt"], prev["src"])
        else:
            s, t = draw(node), draw(node)
        mid = draw(st.lists(st.tuples(quarter, quarter).map(list), max_size=2)) if geom else []
        edges.append({"src": s, "tgt": t, "ori": draw(ost), "w": draw(wst), "mid": mid})
    coord = st.integers(0, 7).map(float)
    case = {"ids": list(draw(st.permutations(list(LETTERS[:n])))),
            "pos": [[draw(coord), draw(coord)] for _ in range(n)],
            "edges": edges,
            "pre": draw(st.booleans()), "by_node": draw(st.booleans()),
            "abscurv": draw(st.integers(0, 2)) == 0 if geom else False,
            "cuts": []}
    if cuts:
        rel = st.tuples(st.sampled_from(["at", "at", "below", "above"]), st.integers(0, 30)).map(list)
        ab = st.one_of(st.sampled_from([0.0, 1e300, 1e9, -1.0]), st.integers(0, 160).map(lambda k: k / 4.0),
                       st.floats(0, 300, allow_nan=False)).map(lambda v: ["abs", v])
        case["cuts"] = draw(st.lists(st.one_of(rel, rel, ab), min_size=1, max_size=4))
    return case


def strat_pairs():
    return graph_cases()


# A* routing: the heuristic is astar_wgt x straight-line distance to the target.  It is admissible and consistent
# (so A* is exact, also with a closed set) iff astar_wgt <= 1 and every weight >= the straight-line distance between
# the edge's end nodes - the situation of a road network whose weights are lengths.  Only such cases are generated.
@st.composite
def astar_cases(draw, geom=False):
    case = draw(graph_cases(geom=geom, min_nodes=2, max_nodes=10, max_edges=30))
    for e in case["edges"]:
        pts = edge_points(case, e)
        chord = math.dist(pts[0], pts[-1])
        length = sum(math.dist(a, b) for a, b in zip(pts, pts[1:]))
        kind = draw(st.sampled_from(["chord", "length", "plus", "times"]))
        if kind == "chord":
            w = chord
        elif kind == "length":
            w = length
        elif kind == "plus":
            w = chord + draw(st.sampled_from([0.25, 0.5, 1.0, 3.0]))
        else:
            w = chord * draw(st.sampled_from([1.0, 1.5, 2.0, 4.0]))
        e["w"] = max(w, chord)
    case["astar"] = draw(st.sampled_from([0.0, 0.25, 0.5, 1.0, 1.0]))
    return case


def _validate_astar(case):
    _validate(case)
    assert 0 <= case["astar"] <= 1
    for e in case["edges"]:
        assert e["w"] >= math.dist(case["pos"][e["src"]], case["pos"][e["tgt"]])


def body_astar(case):
    _validate_astar(case)
    n, arcs, D = model(case)
    net = build_network(case)
    check_pairs(case, net, n, D, False)
    cls, nt = classify(case, n, arcs, D, False)
    # the heuristic matters only if the straight line misleads: some node nearer to a target than its predecessor on
    # the shortest walk is
    cls = [c for c in cls if c != "float-weights"] + ["astar_wgt=%g" % case["astar"]]
    return {"nt": nt and case["astar"] > 0, "cls": cls}


def strat_astar():
    return astar_cases()


def strat_tables():
    return graph_cases(cuts=True)


RULE = ("pairs/tables: Hypothesis multigraphs of 1..12 nodes and 0..40 edges (self-loops, parallel and anti-parallel edges, "
        "orientations 0/+1/-1, weights from {0,1,2} / {0,.5,1,2,3.5} / floats in [0,100], isolated nodes, permuted ids, "
        "nodes declared before or through the edges, queries by id or by Node); pairs: every ordered (s,t) incl. s=t through "
        "shortest_distance(s,t) and the list form shortest_distance(s); tables: 1..4 cut-offs at / just below / just above a "
        "true distance, 0, negative, 1e9, 1e300, through all_shortest_distances(cut) and prepare(cut)+has_/prepared_shortest_distance; "
        "small: every edge sequence of length <= 2 (quick) / <= 3 (thorough) over 3 nodes, pairs + tables at every distinct "
        "distance, 0.25 above it, negative and 1e300. Non-trivial: some reverse-oriented, zero-weight or parallel edge lies "
        "on a shortest walk, or some ordered pair is unreachable. Distinct = hash of the case.")

SUBCHECKS = [
    SubCheck("pairs", body_pairs, strategy=strat_pairs, quick=6000, thorough=240000, qshards=6,
             rule="random multigraphs, all ordered pairs + list form"),
    SubCheck("tables", body_tables, strategy=strat_tables, quick=4500, thorough=160000, qshards=6,
             rule="random multigraphs x cut-offs, all-pairs table and prepared distances"),
    SubCheck("astar", body_astar, strategy=strat_astar, quick=3000, thorough=100000, qshards=4,
             rule="A* routing method on multigraphs whose weights are >= the straight-line distance of their end nodes "
                  "(admissible heuristic, astar weight in {0, .25, .5, 1}): every ordered pair + list form against Floyd-Warshall"),
    SubCheck("small", body_small, enum=enum_small,
             rule="all graphs on 3 nodes with <= 2 (quick) / <= 3 (thorough) edges, weights {0,1,2}", qshards=4),
]
