"""C06 - network shortest distances are the true minimum over permitted walks.
Oracle: Floyd-Warshall over the arcs permitted by the orientation of every edge (vt/oracle.py).

This module also owns the network case format / generator / builder shared with C07:

    case = {"ids":  [node id (str), ...],             node k of the model has id ids[k]
            "pos":  [[x, y], ...],                      its position
            "edges": [{"src": k, "tgt": k, "ori": 0|1|-1, "w": float, "mid": [[x, y], ...]}, ...],
            "pre": bool        declare all nodes with addNode before the edges (else: edges first,
                               the way NetworkReader does, isolated nodes afterwards),
            "how": [hs, ht]    how the source / the target of a query is handed over, each one of HANDLES:
                               "id" the node id | "own" the network's own Node object (getNode) | "fresh" a Node(id, coord)
                               constructed for the query | "row" the Node object the builder created for the LAST edge row
                               that mentions the node (the network keeps the object of the FIRST row only, as with
                               NetworkReader) | "twin" the Node object of a second network built from the same case (and
                               searched from node twin_src).  Node equality / hash are id based, so all five name the
                               same node.  Absent: "by_node": bool (own / id for both),
            "twin_src": int    (optional) source of the search the twin network has been through,
            "abscurv": bool    edge geometries carry abs_curv (NetworkReader invariant),
            "cuts": [[kind, value], ...]}               C06 tables only, see resolve_cuts()
or the compact form of the enumerated space {"small": [[src, tgt, ori, w], ...]} (3 nodes a, b, c).
"""
import itertools
import math

from hypothesis import strategies as st

from tracklib.algo.cinematics import computeAbsCurv
from tracklib.core.network import Edge, Network, Node
from tracklib.core.obs import Obs
from tracklib.core.obs_coords import ENUCoords
from tracklib.core.obs_time import ObsTime
from tracklib.core.track import Track

from vt import oracle
from vt.core import SubCheck, Violation, close, exc_key

INF = oracle.INF
LETTERS = "abcdefghijkl"
DYADIC = [0.0, 0.5, 1.0, 2.0, 3.5]
UNREACHED = 1e300          # documented filler of shortest_distance(s) lists and prepared_shortest_distance

ASSUMPTIONS = [
    "oracle = Floyd-Warshall over arcs (src->tgt when orientation >= 0, tgt->src when orientation <= 0), D[u][u] = 0",
    "networks are built the way NetworkReader builds them: string ids, Edge(id, Track), orientation/weight set "
    "before Network.addEdge, node positions = geometry end points; Dijkstra mode (default routing method)",
    "hand-over of nodes to the queries (case field how = [sources, targets], every combination): the id; the network's own "
    "Node object (getNode); a Node(id, coord) constructed for the query; the Node object the builder created for the last "
    "edge row naming the node (the network keeps the object of the first row, as with NetworkReader); the Node object of a "
    "twin network built from the same case that has been through a search of its own.  Node.__eq__/__hash__ are id based and "
    "the signatures say Union[int, Node], so all of them name the same node and the same answer is demanded",
    "weights are finite floats >= 0; comparisons are exact when every weight is a multiple of 0.5, else 1e-9 relative",
    "cut-offs closer than 1e-9 (relative) to a true distance are used only on exactly representable weights",
    "shortest_distance(s, t, cut=...) for a single pair is not constrained by the property (only the all-pairs table is)",
    "astar sub-check: A* routing (setRoutingMethod(ROUTING_ALGO_ASTAR)) is judged only where its straight-line heuristic is "
    "admissible: astar weight <= 1 and every edge weight >= the distance between the edge's end nodes; 1e-9 relative",
    "history / small-staged: the property is taken to hold for a Network object at ANY moment of its life: after further "
    "Network.addEdge / addNode calls, after earlier queries (with or without cut-off / target), tables, prepare(), "
    "sub_network() extractions and searches on such a sub-network (which shares Node and Edge objects with its parent). "
    "Every judged answer is compared with Floyd-Warshall over exactly the edges added so far; only nodes present at that "
    "time are queried; a sub-network is judged as the network of the edges it holds (read back with getEdgesId()), "
    "whatever sub_network() was asked to keep",
    "prepare() on an object that was prepared before: Network.DISTANCES is documented to be incremented, so pairs left by "
    "an earlier prepare are constrained only if they are within the present cut-off (then they must carry the present true "
    "distance); all other pairs must be absent; prepare with an undecidable cut-off is not executed",
    "sub_network(mode='GEOMETRIC') is called with a coordinate as source (with a node id / Node object it raises "
    "AttributeError on this tree - outside this property); verbose=False",
    "a rejected answer of a history is asked again from a network built in one go from the same edges; if that answer is "
    "accepted the key is 'answer-depends-on-history' (the original key is kept in the message)",
    "non-termination guard of histories: Network.run_routing_backward is wrapped on the tested object so that a cyclic "
    "predecessor chain (which makes it loop forever) is detected at once; under C06 the path is then simply not requested",
]


# ------------------------------------------------------------------------------------------------
# model
def expand_small(case, geom=False):
    """compact enumerated case -> full case.  Nodes a(0,0) b(4,0) c(0,4) declared first; with geom edge k
    gets k % 3 interior vertices at positions no other edge uses."""
    if "small" not in case:
        return case
    edges = []
    for k, (s, t, o, w) in enumerate(case["small"]):
        mid = [[1.0 + k, 1.25 + j] for j in range(k % 3)] if geom else []
        edges.append({"src": s, "tgt": t, "ori": o, "w": float(w), "mid": mid})
    # hand-over of sources / targets: a fixed function of the edge sequence, so that the enumerated space is spread
    # over all 25 combinations
    h = sum((i + 1) * (s * 27 + t * 9 + (o + 1) * 3 + int(w)) for i, (s, t, o, w) in enumerate(case["small"]))
    return {"ids": ["a", "b", "c"], "pos": [[0.0, 0.0], [4.0, 0.0], [0.0, 4.0]], "edges": edges,
            "pre": True, "how": case.get("how", [HANDLES[h % 5], HANDLES[(h // 5) % 5]]), "twin_src": h // 25,
            "abscurv": False,
            "cuts": [["abs", -1.0], ["abs", 1e300]] + [[kind, k] for k in range(7) for kind in ("at", "above")]}


def is_exact(case):
    """every weight a (small) multiple of 0.5: all sums are exact in binary floating point"""
    return all(e["w"] * 2 == int(e["w"] * 2) and e["w"] <= 2 ** 20 for e in case["edges"])


def model(case):
    """(n, arcs, D) with nodes 0..n-1"""
    n = len(case["ids"])
    arcs = oracle.arcs_of_edges(case["edges"])
    return n, arcs, oracle.floyd_warshall(list(range(n)), arcs)


def node_order(case):
    """model of the insertion order of nodes (index list)"""
    n = len(case["ids"])
    if case.get("pre"):
        return list(range(n))
    order = []
    for e in case["edges"]:
        for k in (e["src"], e["tgt"]):
            if k not in order:
                order.append(k)
    return order + [k for k in range(n) if k not in order]


def edge_points(case, e):
    """geometry of an edge, stored source -> stored target"""
    return [list(case["pos"][e["src"]])] + [list(p) for p in e.get("mid", [])] + [list(case["pos"][e["tgt"]])]


def declare_nodes(net, case):
    for k in range(len(case["ids"])):
        net.addNode(Node(case["ids"][k], ENUCoords(case["pos"][k][0], case["pos"][k][1], 0)))


def new_network(case):
    """the empty network of a case (all nodes declared if case["pre"]), routing method set"""
    net = Network()
    if case.get("pre"):
        declare_nodes(net, case)
    if case.get("astar") is not None:
        net.setRoutingMethod(Network.ROUTING_ALGO_ASTAR)
        net.setAStarWeight(case["astar"])
    return net


def add_edge(net, case, j):
    """Network.addEdge of edge j of the case, the way NetworkReader does it"""
    ids, e = case["ids"], case["edges"][j]
    tr = Track([Obs(ENUCoords(p[0], p[1], 0), ObsTime()) for p in edge_points(case, e)])
    if case.get("abscurv"):
        computeAbsCurv(tr)
    edge = Edge("e%d" % j, tr)
    edge.orientation = e["ori"]
    edge.weight = e["w"]
    a, b = Node(ids[e["src"]], tr.getFirstObs().position), Node(ids[e["tgt"]], tr.getLastObs().position)
    net.addEdge(edge, a, b)
    rows = net.__dict__.setdefault("_vt_rows", {})          # the per-row Node objects (the network kept the first per id)
    rows.setdefault(a.id, []).append(a)
    rows.setdefault(b.id, []).append(b)


def build_network(case):
    """the complete network, built in one go before any query"""
    net = new_network(case)
    for j in range(len(case["edges"])):
        add_edge(net, case, j)
    if not case.get("pre"):
        declare_nodes(net, case)
    return net


HANDLES = ["id", "own", "fresh", "row", "twin"]


def how_of(case):
    """(hand-over of sources, hand-over of targets)"""
    h = case.get("how")
    if h is None:
        return ("own", "own") if case.get("by_node") else ("id", "id")
    assert h[0] in HANDLES and h[1] in HANDLES
    return h[0], h[1]


def _twin(net, case):
    """a second network with equal nodes (same ids, all declared), built from the same case and searched once, so that
    its Node objects carry routing state of their own; one per tested network object"""
    tw = net.__dict__.get("_vt_twin")
    if tw is None:
        tw = build_network(dict(case, pre=True, astar=None))
        tw.run_routing_forward(case["ids"][int(case.get("twin_src", 0)) % len(case["ids"])])
        net.__dict__["_vt_twin"] = tw
    return tw


def handle(net, case, k, role="s"):
    """what is passed to tracklib for node k as source (role "s") or target (role "t"): its id, or a Node object that is
    / is equal to the network's node (see HANDLES in the module docstring)"""
    kind = how_of(case)[0 if role == "s" else 1]
    nid = case["ids"][k]
    if kind == "id":
        return nid
    if kind == "own":
        return net.getNode(nid)
    if kind == "twin":
        return _twin(net, case).getNode(nid)
    if kind == "row":
        rows = net.__dict__.get("_vt_rows", {}).get(nid)
        if rows:
            return rows[-1]
    return Node(nid, ENUCoords(case["pos"][k][0], case["pos"][k][1], 0))


def how_labels(case):
    hs, ht = how_of(case)
    return ["src-as=" + hs, "tgt-as=" + ht] + (["src/tgt-not-the-network's-object"] if hs not in ("id", "own") and ht not in ("id", "own") else [])


def agree(got, want, exact):
    if exact:
        return got == want
    return close(got, want, rel=1e-9, abs_=0.0)


def _sim_decrease_key(n, arcs):
    """label only: does a textbook Dijkstra from some source improve a node that was already discovered?"""
    out = [[] for _ in range(n)]
    for u, v, w in arcs:
        if u != v:
            out[u].append((v, w))
    for s in range(n):
        dist = {s: 0.0}
        done = set()
        while True:
            cand = [(d, k) for k, d in dist.items() if k not in done]
            if not cand:
                break
            d, u = min(cand)
            done.add(u)
            for v, w in out[u]:
                if v in done:
                    continue
                if v not in dist:
                    dist[v] = d + w
                elif d + w < dist[v]:
                    return True
    return False


def classify(case, n, arcs, D, exact):
    """class labels + the non-trivial rule of C06"""
    edges = case["edges"]
    cls = ["exact-weights" if exact else "float-weights",
           "n<=3" if n <= 3 else "n4-7" if n <= 7 else "n8-12",
           "m=0" if not edges else "m<=n" if len(edges) <= n else "m<=3n" if len(edges) <= 3 * n else "m>3n"] + how_labels(case)
    unreachable = any(d == INF for d in D.values())
    pairs_of = {}
    for j, e in enumerate(edges):
        pairs_of.setdefault(frozenset((e["src"], e["tgt"])), []).append(j)

    def tight(u, v, w):
        return u != v and agree(w, D[(u, v)], exact)

    rev = zero = par = False
    for j, e in enumerate(edges):
        s, t, w, o = e["src"], e["tgt"], e["w"], e["ori"]
        on_sp = (o >= 0 and tight(s, t, w)) or (o <= 0 and tight(t, s, w))
        if not on_sp:
            continue
        rev = rev or (o == -1)
        zero = zero or (w == 0)
        par = par or len(pairs_of[frozenset((s, t))]) > 1
    ties = False
    for (u, v), d in D.items():
        if u == v or d == INF:
            continue
        k = sum(1 for a, b, w in arcs if b == v and a != v and D[(u, a)] < INF and agree(D[(u, a)] + w, d, exact))
        if k > 1:
            ties = True
            break
    if unreachable:
        cls.append("unreachable-pair")
    if rev:
        cls.append("reverse-edge-on-sp")
    if zero:
        cls.append("zero-edge-on-sp")
    if par:
        cls.append("parallel-edge-on-sp")
    if ties:
        cls.append("tied-shortest-walks")
    if any(e["src"] == e["tgt"] for e in edges):
        cls.append("self-loop")
    if _sim_decrease_key(n, arcs):
        cls.append("decrease-key")
    return cls, (unreachable or rev or zero or par)


# ------------------------------------------------------------------------------------------------
# checks
def check_pair(case, net, s, t, D, exact):
    ids = case["ids"]
    got = net.shortest_distance(handle(net, case, s), handle(net, case, t, "t"))
    want = D[(s, t)]
    if want == INF:
        if not got < 0:
            raise Violation("unreachable-not-negative", "no permitted walk %s->%s but shortest_distance = %r"
                            % (ids[s], ids[t], got))
    elif got < 0:
        raise Violation("reachable-reported-unreachable", "%s->%s: true distance %r, shortest_distance = %r"
                        % (ids[s], ids[t], want, got))
    elif not agree(got, want, exact):
        raise Violation("distance-wrong", "%s->%s: true distance %r, shortest_distance = %r"
                        % (ids[s], ids[t], want, got))


def check_list(case, net, s, D, order, exact):
    ids = case["ids"]
    got = net.shortest_distance(handle(net, case, s))
    want = [UNREACHED if D[(s, t)] == INF else D[(s, t)] for t in order]
    if len(got) != len(order) or not all(agree(g, w, exact) for g, w in zip(got, want)):
        raise Violation("distance-list-wrong", "shortest_distance(%s) = %r, true %r (nodes %s)"
                        % (ids[s], got, want, [ids[t] for t in order]))


def check_pairs(case, net, n, D, exact, order=None):
    """every ordered pair of the nodes present (order = their insertion order; default: the complete network)"""
    order = node_order(case) if order is None else order
    for s in sorted(order):
        for t in sorted(order):
            check_pair(case, net, s, t, D, exact)
    for s in sorted(order):
        check_list(case, net, s, D, order, exact)


def resolve_cuts(case, D, exact):
    """concrete cut-off values: ("abs", v) literally; ("at"|"below"|"above", k) relative to the k-th distinct
    finite true distance.  On inexact weights 'at' becomes 'above' and every cut keeps a relative margin."""
    finite = sorted({d for d in D.values() if d < INF})
    out = []
    for kind, k in case.get("cuts", []):
        if kind == "abs":
            c = float(k)
        else:
            d = finite[int(k) % len(finite)]
            if exact:
                c = d if kind == "at" else d - 0.25 if kind == "below" else d + 0.25
            else:
                c = d * (1 - 1e-6) - 1e-7 if kind == "below" else d * (1 + 1e-6) + 1e-7
        if c in [x[1] for x in out]:
            continue
        # inexact weights: tracklib's sum may differ from the oracle's in the last bits, so the cut must keep clear of
        # every true distance (0 == 0 is safe: a sum of non-negative floats is 0 only if every term is)
        decidable = exact or not any(abs(c - d) <= 1e-9 * max(1.0, abs(d)) and not (c == 0 and d == 0) for d in finite)
        rel = "at" if c in finite else "below-all" if c < finite[0] else "above-all" if c > finite[-1] else "between"
        out.append((decidable, c, rel))
    return out


def _check_table(what, table, want, ids, cut, exact):
    got_keys = set(table.keys())
    want_keys = set(want.keys())
    if got_keys != want_keys:
        miss = sorted(want_keys - got_keys)
        extra = sorted(got_keys - want_keys, key=repr)
        if miss:
            raise Violation("table-missing-pair", "%s(cut=%r) lacks %s (true distance %r <= cut)"
                            % (what, cut, miss[0], want[miss[0]]))
        raise Violation("table-extra-pair", "%s(cut=%r) contains %r = %r, true distance exceeds the cut or pair unreachable"
                        % (what, cut, extra[0], table[extra[0]]))
    for k in sorted(want_keys):
        if not agree(table[k], want[k], exact):
            raise Violation("table-wrong-value", "%s(cut=%r)[%s] = %r, true %r" % (what, cut, k, table[k], want[k]))


def check_tables(case, net, n, D, exact):
    ids = case["ids"]
    used = []
    for decidable, cut, rel in resolve_cuts(case, D, exact):
        if not decidable:
            continue
        used.append(rel)
        want = {(ids[s], ids[t]): D[(s, t)] for s in range(n) for t in range(n) if D[(s, t)] <= cut}
        table = net.all_shortest_distances(cut=cut)
        _check_table("all_shortest_distances", table, want, ids, cut, exact)
        net2 = build_network(case)
        net2.prepare(cut=cut, verbose=False)
        _check_table("prepare", net2.DISTANCES, want, ids, cut, exact)
        for s in range(n):
            for t in range(n):
                a, b = handle(net2, case, s), handle(net2, case, t, "t")
                inside = (ids[s], ids[t]) in want
                if bool(net2.has_prepared_shortest_distance(a, b)) != inside:
                    raise Violation("prepared-membership-wrong", "prepare(cut=%r): has_prepared_shortest_distance(%s,%s) = %r, "
                                    "true distance %r" % (cut, ids[s], ids[t], not inside, D[(s, t)]))
                got = net2.prepared_shortest_distance(a, b)
                if not agree(got, D[(s, t)] if inside else UNREACHED, exact):
                    raise Violation("prepared-wrong-value", "prepare(cut=%r): prepared_shortest_distance(%s,%s) = %r, true %r"
                                    % (cut, ids[s], ids[t], got, D[(s, t)]))
    return used


def _validate(case):
    n = len(case["ids"])
    assert n >= 1 and len(case["pos"]) == n and len(set(case["ids"])) == n
    for e in case["edges"]:
        assert 0 <= e["src"] < n and 0 <= e["tgt"] < n and e["ori"] in (0, 1, -1) and e["w"] >= 0


def body_pairs(case):
    case = expand_small(case)
    _validate(case)
    n, arcs, D = model(case)
    exact = is_exact(case)
    net = build_network(case)
    check_pairs(case, net, n, D, exact)
    cls, nt = classify(case, n, arcs, D, exact)
    return {"nt": nt, "cls": cls}


def body_tables(case):
    case = expand_small(case)
    _validate(case)
    n, arcs, D = model(case)
    exact = is_exact(case)
    net = build_network(case)
    used = check_tables(case, net, n, D, exact)
    if not used:
        return {"undef": True, "cls": ["no-decidable-cut"]}
    cls, nt = classify(case, n, arcs, D, exact)
    return {"nt": nt, "cls": cls + ["cut-" + r for r in sorted(set(used))]}


def body_small(case):
    full = expand_small(case)
    n, arcs, D = model(full)
    net = build_network(full)
    check_pairs(full, net, n, D, True)
    used = check_tables(full, net, n, D, True)
    cls, nt = classify(full, n, arcs, D, True)
    return {"nt": nt, "cls": [c for c in cls if c not in ("exact-weights", "n<=3")] + ["cut-" + r for r in sorted(set(used))]}


# ------------------------------------------------------------------------------------------------
# generators
SMALL_ALPHABET = [(s, t, o, w) for s in range(3) for t in range(3) for o in (0, 1, -1) for w in (0, 1, 2)]


def enum_small(tier):
    """every sequence of <= 2 (quick) / <= 3 (thorough) edges over 3 nodes x 3 nodes x 3 orientations x weights {0,1,2}"""
    for m in range((2 if tier == "quick" else 3) + 1):
        for combo in itertools.product(SMALL_ALPHABET, repeat=m):
            yield {"small": [list(e) for e in combo]}


def _weights(mode):
    if mode == "int012":
        return st.sampled_from([0.0, 1.0, 2.0])
    if mode == "dyadic":
        return st.sampled_from(DYADIC)
    fl = st.one_of(st.floats(0, 100, allow_nan=False, allow_infinity=False),
                   st.sampled_from([0.1, 0.3, 1e-3, 100.0]), st.integers(0, 400).map(lambda k: k / 4.0))
    if mode == "float":
        return fl
    return st.one_of(st.sampled_from(DYADIC), fl)          # "mixed"


@st.composite
def graph_cases(draw, geom=False, cuts=False, min_nodes=1, max_nodes=12, max_edges=40):
    n = draw(st.one_of(st.integers(min_nodes, 4), st.integers(2, max_nodes), st.integers(5, max_nodes)))
    m = draw(st.one_of(st.integers(1, min(max_edges, 2 * n)), st.integers(1, min(max_edges, 4 * n)), st.integers(0, max_edges)))
    wst = _weights(draw(st.sampled_from(["int012", "dyadic", "dyadic", "mixed", "float"])))
    omode = draw(st.sampled_from(["mixed", "mixed", "mixed", "oneway", "twoway-mostly"]))
    ost = {"mixed": st.sampled_from([0, 1, -1]), "oneway": st.sampled_from([1, -1]),
           "twoway-mostly": st.sampled_from([0, 0, 0, 1, -1])}[omode]
    node = st.integers(0, n - 1)
    quarter = st.integers(0, 28).map(lambda k: k / 4.0)
    edges = []
    for j in range(m):
        if edges and draw(st.integers(0, 4)) == 0:               # parallel (or anti-parallel) to an earlier edge
            prev = edges[draw(st.integers(0, len(edges) - 1))]
            s, t = (prev["src"], prev["tgt"]) if draw(st.booleans()) else (prev["tgt"], prev["src"])
        else:
            s, t = draw(node), draw(node)
        mid = draw(st.lists(st.tuples(quarter, quarter).map(list), max_size=2)) if geom else []
        edges.append({"src": s, "tgt": t, "ori": draw(ost), "w": draw(wst), "mid": mid})
    coord = st.integers(0, 7).map(float)
    case = {"ids": list(draw(st.permutations(list(LETTERS[:n])))),
            "pos": [[draw(coord), draw(coord)] for _ in range(n)],
            "edges": edges,
            "pre": draw(st.booleans()),
            "how": [draw(st.sampled_from(HANDLES)), draw(st.sampled_from(HANDLES))], "twin_src": draw(st.integers(0, 11)),
            "abscurv": draw(st.integers(0, 2)) == 0 if geom else False,
            "cuts": []}
    if cuts:
        rel = st.tuples(st.sampled_from(["at", "at", "below", "above"]), st.integers(0, 30)).map(list)
        ab = st.one_of(st.sampled_from([0.0, 1e300, 1e9, -1.0]), st.integers(0, 160).map(lambda k: k / 4.0),
                       st.floats(0, 300, allow_nan=False)).map(lambda v: ["abs", v])
        case["cuts"] = draw(st.lists(st.one_of(rel, rel, ab), min_size=1, max_size=4))
    return case


def strat_pairs():
    return graph_cases()


# A* routing: the heuristic is astar_wgt x straight-line distance to the target.  It is admissible and consistent
# (so A* is exact, also with a closed set) iff astar_wgt <= 1 and every weight >= the straight-line distance between
# the edge's end nodes - the situation of a road network whose weights are lengths.  Only such cases are generated.
@st.composite
def astar_cases(draw, geom=False):
    case = draw(graph_cases(geom=geom, min_nodes=2, max_nodes=10, max_edges=30))
    for e in case["edges"]:
        pts = edge_points(case, e)
        chord = math.dist(pts[0], pts[-1])
        length = sum(math.dist(a, b) for a, b in zip(pts, pts[1:]))
        kind = draw(st.sampled_from(["chord", "length", "plus", "times"]))
        if kind == "chord":
            w = chord
        elif kind == "length":
            w = length
        elif kind == "plus":
            w = chord + draw(st.sampled_from([0.25, 0.5, 1.0, 3.0]))
        else:
            w = chord * draw(st.sampled_from([1.0, 1.5, 2.0, 4.0]))
        e["w"] = max(w, chord)
    case["astar"] = draw(st.sampled_from([0.0, 0.25, 0.5, 1.0, 1.0]))
    return case


def _validate_astar(case):
    _validate(case)
    assert 0 <= case["astar"] <= 1
    for e in case["edges"]:
        assert e["w"] >= math.dist(case["pos"][e["src"]], case["pos"][e["tgt"]])


def body_astar(case):
    _validate_astar(case)
    n, arcs, D = model(case)
    net = build_network(case)
    check_pairs(case, net, n, D, False)
    cls, nt = classify(case, n, arcs, D, False)
    # the heuristic matters only if the straight line misleads: some node nearer to a target than its predecessor on
    # the shortest walk is
    cls = [c for c in cls if c != "float-weights"] + ["astar_wgt=%g" % case["astar"]]
    return {"nt": nt and case["astar"] > 0, "cls": cls}


def strat_astar():
    return astar_cases()


def strat_tables():
    return graph_cases(cuts=True)


# ------------------------------------------------------------------------------------------------
# histories: ONE Network object that is built in stages, with queries and interfering activity in between.
#
#   case["hist"] = [op, ...] executed in order on the same object (the network starts empty, or with all nodes declared
#   if case["pre"]):
#     ["add", k]                  Network.addEdge for the next k edges of case["edges"] (fewer if fewer are left)
#     ["nodes"]                   Network.addNode for every node of the model (declares the isolated ones)
#     ["all"]                     every ordered pair of the nodes present (C06: + the list forms)          judged
#     ["dist", s, t] ["list", s]  shortest_distance(s, t) / shortest_distance(s)                            judged by C06
#     ["path", s, t]              shortest_path(s, t)                                                       judged by C07
#     ["table", cut] ["prepare", cut]   all_shortest_distances(cut) / prepare(cut) on this very object      judged by C06
#     ["cutdist", s, t, cut] ["cutpath", s, t, cut]   single-pair queries with a cut-off                    executed only
#     ["sub", s, cut, mode]       sub = net.sub_network(node s | position of s, cut, "TOPOLOGIC" | "GEOMETRIC", verbose=False),
#                                 s among the nodes that have an edge at that time
#     ["subdist"|"subpath", s, t] ["sublist", s] ["suball"] ["subtable", cut]   the same queries on the latest sub-network
#   node arguments are integers taken modulo the number of nodes present in the (sub-)network at that time (the target of
#   a path query is moved to a different node than the source whenever two nodes are present);
#   cut = ["abs", v] | ["at"|"below"|"above", k] resolved by resolve_cuts() against the true distances of that time (for
#   "sub": against the distinct positive distances from the source node; what the sub-network holds is read back from it).
#   A module judges only its own kind of answer (C06 distances and tables, C07 paths); everything else is executed as
#   interfering activity.  Every judged answer is compared with Floyd-Warshall over the edges present AT THAT TIME; an
#   answer of a sub-network is compared with Floyd-Warshall over the edges that sub-network holds (it is a network).
def _one_cut(spec, D, present, exact):
    """(decidable, value) of a cut-off specification against the true distances among the nodes present"""
    Dp = {(u, v): D[(u, v)] for u in present for v in present}
    (decidable, c, _rel), = resolve_cuts({"cuts": [spec]}, Dp, exact)
    return decidable, c


def _pick(order, op, want_a, want_b, distinct):
    """node arguments of an operation among the nodes present; distinct: the second differs from the first if possible"""
    if not want_a:
        return None, None
    i = int(op[1]) % len(order)
    if not want_b:
        return order[i], None
    if distinct and len(order) > 1:
        return order[i], order[(i + 1 + int(op[2]) % (len(order) - 1)) % len(order)]
    return order[i], order[int(op[2]) % len(order)]


def _judge_table(what, table, ids, D, present, cut, exact, stale=()):
    """the table must hold exactly the pairs within the cut, with their true distance; pairs in `stale` (left by an
    earlier prepare into the same dictionary) are not constrained unless they are within the cut"""
    want = {(ids[s], ids[t]): D[(s, t)] for s in present for t in present if D[(s, t)] <= cut}
    if stale:
        table = {k: v for k, v in table.items() if k in want or k not in stale}
    _check_table(what, table, want, ids, cut, exact)
    return want


def _edge_order(view):
    out = []
    for e in view["edges"]:
        for k in (e["src"], e["tgt"]):
            if k not in out:
                out.append(k)
    return out


def _fresh(view, pre, declared, astar):
    """(network, insertion order of its nodes) built in one go from the edges of a view, never queried before"""
    v = dict(view, pre=pre, astar=astar)
    net = new_network(v)
    for j in range(len(v["edges"])):
        add_edge(net, v, j)
    if declared and not pre:
        declare_nodes(net, v)
    return net, (node_order(v) if pre or declared else _edge_order(v))


def _judge_prepared(net, view, order, D, cut, exact, stale):
    """net.prepare(cut) has just run.  Pairs in `stale` (left in net.DISTANCES by an earlier prepare of this object; the
    dictionary is documented to be incremented) are constrained only if they are within the cut now."""
    ids = view["ids"]
    want = _judge_table("prepare", net.DISTANCES, ids, D, order, cut, exact, stale=stale)
    for x in order:
        for y in order:
            key = (ids[x], ids[y])
            if key not in want and key in stale:
                continue
            ha, hb = handle(net, view, x), handle(net, view, y, "t")
            if bool(net.has_prepared_shortest_distance(ha, hb)) != (key in want):
                raise Violation("prepared-membership-wrong", "prepare(cut=%r): has_prepared_shortest_distance(%s,%s) = %r, "
                                "true distance %r" % (cut, ids[x], ids[y], key not in want, D[(x, y)]))
            got = net.prepared_shortest_distance(ha, hb)
            if not agree(got, D[(x, y)] if key in want else UNREACHED, exact):
                raise Violation("prepared-wrong-value", "prepare(cut=%r): prepared_shortest_distance(%s,%s) = %r, true %r"
                                % (cut, ids[x], ids[y], got, D[(x, y)]))
    return want


def guard_backward(net, on_cycle):
    """Non-termination guard without a clock: Network.run_routing_backward follows node.antecedent until it is "", so a
    cyclic predecessor chain means it never returns.  The method is wrapped ON THIS OBJECT so that such a chain is
    reported at once (on_cycle(message) is called, its result returned) instead of burning the CPU budget of the case.
    Nothing else is changed; if the internals are not as expected the guard does nothing."""
    orig = net.run_routing_backward

    def guarded(target):
        cyclic = False
        try:
            node = net.NODES[target.id if isinstance(target, Node) else target]
            for _ in range(len(net.NODES) + 2):
                if node.antecedent == "":
                    break
                node = node.antecedent
            else:
                cyclic = True
        except Exception:
            cyclic = False
        if cyclic:
            return on_cycle("the predecessor chain of target %r left by the forward search is cyclic: "
                            "run_routing_backward would never return" % (target.id if isinstance(target, Node) else target,))
        return orig(target)
    net.run_routing_backward = guarded
    return net


def run_history(case, path_judge=None):
    """Executes case["hist"].  path_judge is None: C06 mode (distances / tables judged); else C07 mode: only paths are
    judged, through path_judge(view_case, net, s, t, D, exact) -> None | set of labels.
    A judged answer that is rejected is asked again from a network built in one go from the same edges: if that one is
    right, the violation is reported under the single key 'answer-depends-on-history' (one root cause, whatever the symptom).
    Returns (labels, number of judged answers of the main network, path labels, case view of the final state)."""
    ids, n = case["ids"], len(case["ids"])
    dist_mode = path_judge is None
    exact = is_exact(case) and case.get("astar") is None
    labels, plabels = set(), set()

    def on_cycle(msg):
        if dist_mode:                 # paths are not C06's business: the backward phase is skipped
            labels.add("cyclic-predecessor-chain-skipped")
            return None
        raise Violation("predecessor-chain-cyclic", msg)

    net = guard_backward(new_network(case), on_cycle)
    order = list(range(n)) if case.get("pre") else []
    st_ = {"cnt": 0, "judged": 0, "searched": False, "phase": 0, "declared": False}
    cache = {}
    late = {}                         # edge index -> orientation, for edges added after a search on this object
    stale = set()                     # keys a prepare() left in net.DISTANCES
    sub = None

    def cur():
        c = st_["cnt"]
        if c not in cache:
            view = dict(case, edges=case["edges"][:c])
            cache[c] = (view, model(view)[2])
        return cache[c]

    def main_search(judged):
        """bookkeeping of a search on the main network"""
        st_["searched"] = True
        if judged:
            st_["judged"] += 1
            if st_["phase"] == 3:
                labels.add("judged-after-sub-search")
            view, D = cur()
            for j, o in late.items():
                e = case["edges"][j]
                if e["src"] != e["tgt"] and ((o >= 0 and agree(e["w"], D[(e["src"], e["tgt"])], exact))
                                             or (o <= 0 and agree(e["w"], D[(e["tgt"], e["src"])], exact))):
                    labels.add("late-edge-on-sp:ori=%+d" % o)
            if late:
                labels.add("judged-after-late-edge")
        if st_["phase"] in (1, 3):
            st_["phase"] = 2

    def judge(fn, nt, od, view, is_sub):
        """fn(network, node order) obtains and judges one answer (Violation, or an exception escaping tracklib)"""
        try:
            fn(nt, od)
        except (Violation, Exception, SystemExit) as v:
            try:
                fnet, forder = _fresh(view, False if is_sub else bool(case.get("pre")), False if is_sub else st_["declared"],
                                      None if is_sub else case.get("astar"))
                fn(guard_backward(fnet, on_cycle), forder)
            except (Violation, Exception, SystemExit):
                raise v
            what = "[%s] %s" % (v.key, v.msg) if isinstance(v, Violation) else "[%s] %s: %s" % (exc_key(v), type(v).__name__, v)
            raise Violation("answer-depends-on-history", "%s -- but a network built in one go from the same %d edges answers "
                            "correctly" % (what[:600], len(view["edges"])))

    def jpath(view, nt, s, t, D):
        r = path_judge(view, nt, s, t, D, exact)
        plabels.update({"unreachable-pair"} if r is None else r)

    def all_pairs(view, D):
        if dist_mode:
            return lambda nt, od: check_pairs(view, nt, n, D, exact, order=od)
        return lambda nt, od: [jpath(view, nt, x, y, D) for x in sorted(od) for y in sorted(od) if x != y]

    for op in case["hist"]:
        kind = op[0]
        if kind == "add":
            for _ in range(int(op[1])):
                j = st_["cnt"]
                if j >= len(case["edges"]):
                    break
                add_edge(net, case, j)
                st_["cnt"] += 1
                for k in (case["edges"][j]["src"], case["edges"][j]["tgt"]):
                    if k not in order:
                        order.append(k)
                if st_["searched"]:
                    late[j] = case["edges"][j]["ori"]
            continue
        if kind == "nodes":
            declare_nodes(net, case)
            order.extend(k for k in range(n) if k not in order)
            st_["declared"] = True
            continue
        if kind.startswith("sub") and kind != "sub":
            if sub is None or not sub["order"]:
                labels.add("sub-query-without-sub-network")
                continue
            sview, snet, sorder, sD = sub["view"], sub["net"], sub["order"], sub["D"]
            a, b = _pick(sorder, op, kind != "subtable" and len(op) > 1, len(op) > 2, kind == "subpath")
            if st_["phase"] == 2:
                st_["phase"] = 3
            if kind == "subdist":
                if dist_mode:
                    judge(lambda nt, od: check_pair(sview, nt, a, b, sD, exact), snet, sorder, sview, True)
                else:
                    snet.shortest_distance(handle(snet, sview, a), handle(snet, sview, b, "t"))
            elif kind == "sublist":
                if dist_mode:
                    judge(lambda nt, od: check_list(sview, nt, a, sD, od, exact), snet, sorder, sview, True)
                else:
                    snet.shortest_distance(handle(snet, sview, a))
            elif kind == "subpath":
                if dist_mode:
                    snet.shortest_path(handle(snet, sview, a), handle(snet, sview, b, "t"))
                elif a == b:
                    judge(lambda nt, od: nt.shortest_path(handle(nt, sview, a), handle(nt, sview, b, "t")), snet, sorder, sview, True)
                else:
                    judge(lambda nt, od: jpath(sview, nt, a, b, sD), snet, sorder, sview, True)
            elif kind == "suball":
                judge(all_pairs(sview, sD), snet, sorder, sview, True)
            elif kind == "subtable":
                decidable, c = _one_cut(op[1], sD, sorder, exact)
                if dist_mode and decidable:
                    judge(lambda nt, od: _judge_table("sub_network.all_shortest_distances", nt.all_shortest_distances(cut=c),
                                                      ids, sD, od, c, exact), snet, sorder, sview, True)
                else:
                    snet.all_shortest_distances(cut=c)
            else:
                raise AssertionError("unknown op %r" % (op,))
            labels.add("sub-network-searched")
            continue
        if not order:
            labels.add("query-on-empty-network")
            continue
        view, D = cur()
        a, b = _pick(order, op, kind in ("dist", "list", "path", "cutdist", "cutpath", "sub"),
                     kind in ("dist", "path", "cutdist", "cutpath"), kind in ("path", "cutpath"))
        if kind == "all":
            main_search(True)
            judge(all_pairs(view, D), net, order, view, False)
        elif kind == "dist":
            main_search(dist_mode)
            if dist_mode:
                judge(lambda nt, od: check_pair(view, nt, a, b, D, exact), net, order, view, False)
            else:
                net.shortest_distance(handle(net, view, a), handle(net, view, b, "t"))
        elif kind == "list":
            main_search(dist_mode)
            if dist_mode:
                judge(lambda nt, od: check_list(view, nt, a, D, od, exact), net, order, view, False)
            else:
                net.shortest_distance(handle(net, view, a))
        elif kind == "path":
            if dist_mode:
                main_search(False)
                net.shortest_path(handle(net, view, a), handle(net, view, b, "t"))
            elif a == b:                  # nothing is demanded of the answer, but it must come
                main_search(False)
                judge(lambda nt, od: nt.shortest_path(handle(nt, view, a), handle(nt, view, b, "t")), net, order, view, False)
            else:
                main_search(True)
                judge(lambda nt, od: jpath(view, nt, a, b, D), net, order, view, False)
        elif kind in ("cutdist", "cutpath"):
            _, c = _one_cut(op[3], D, order, exact)
            main_search(False)
            if kind == "cutdist":
                net.shortest_distance(handle(net, view, a), handle(net, view, b, "t"), cut=c)
            elif dist_mode:
                net.shortest_path(handle(net, view, a), handle(net, view, b, "t"), cut=c)
            else:
                judge(lambda nt, od: nt.shortest_path(handle(nt, view, a), handle(nt, view, b, "t"), cut=c), net, order, view, False)
            labels.add("single-pair-cut-in-between")
        elif kind == "table":
            decidable, c = _one_cut(op[1], D, order, exact)
            main_search(dist_mode and decidable)
            if dist_mode and decidable:
                judge(lambda nt, od: _judge_table("all_shortest_distances", nt.all_shortest_distances(cut=c), ids, D, od, c, exact),
                      net, order, view, False)
                labels.add("table-after-late-edge" if late else "table")
            else:
                net.all_shortest_distances(cut=c)
        elif kind == "prepare":
            decidable, c = _one_cut(op[1], D, order, exact)
            if not decidable:
                labels.add("prepare-undecidable-skipped")
                continue
            main_search(dist_mode)
            if dist_mode:
                got = []

                def prep(nt, od):
                    nt.prepare(cut=c, verbose=False)
                    got.append(_judge_prepared(nt, view, od, D, c, exact, stale))
                judge(prep, net, order, view, False)
                labels.add("prepare-again" if stale else "prepare")
                stale |= set(got[0])
            else:
                net.prepare(cut=c, verbose=False)
        elif kind == "sub":
            ends = [k for k in order if any(k in (e["src"], e["tgt"]) for e in view["edges"])]
            a = (ends or order)[int(op[1]) % len(ends or order)]        # around a node that has an edge, if there is one
            if op[2][0] == "abs":
                c = float(op[2][1])
            else:                         # relative to the k-th distinct positive distance FROM that node (what is kept is read back)
                pos_d = sorted({D[(a, v)] for v in order if 0 < D[(a, v)] < INF}) or [0.0]
                c = pos_d[int(op[2][1]) % len(pos_d)]
                c = c if exact and op[2][0] == "at" else c + 0.25 if exact else c * (1 + 1e-6) + 1e-7
            mode = op[3]
            if mode == "TOPOLOGIC":
                main_search(False)
                snet = net.sub_network(handle(net, view, a), c, mode, verbose=False)
            else:
                snet = net.sub_network(ENUCoords(case["pos"][a][0], case["pos"][a][1], 0), c, mode, verbose=False)
            guard_backward(snet, on_cycle)
            held = [int(str(i)[1:]) for i in snet.getEdgesId()]
            sview = dict(case, edges=[case["edges"][j] for j in held])
            sub = {"net": snet, "view": sview, "order": _edge_order(sview), "D": model(sview)[2]}
            st_["phase"] = 1
            labels.add("sub-network:" + ("empty" if not held else "whole" if len(held) == st_["cnt"] else "proper"))
            labels.add("sub-network:" + mode.lower())
        else:
            raise AssertionError("unknown op %r" % (op,))
    labels.add("build=staged" if late else "build=whole-before-first-search")
    return labels, st_["judged"], plabels, cur()[0]


def _validate_hist(case):
    _validate(case)
    if case.get("astar") is not None:
        _validate_astar(case)
    for op in case["hist"]:
        assert isinstance(op, list) and op and isinstance(op[0], str)


def body_history(case):
    _validate_hist(case)
    labels, judged, _, view = run_history(case)
    if not judged:
        return {"undef": True, "cls": ["no-judged-answer"]}
    n, arcs, D = model(view)
    exact = is_exact(case) and case.get("astar") is None
    cls, nt = classify(view, n, arcs, D, exact)
    if case.get("astar") is not None:
        cls = [c for c in cls if c != "float-weights"] + ["astar"]
    return {"nt": nt, "cls": cls + sorted(labels)}


_NODE = st.integers(0, 11)


def _cut_specs():
    rel = st.tuples(st.sampled_from(["at", "at", "below", "above"]), st.integers(0, 30)).map(list)
    ab = st.one_of(st.sampled_from([0.0, 1e300, 1e9, -1.0]), st.integers(0, 160).map(lambda k: k / 4.0)).map(lambda v: ["abs", v])
    return st.one_of(rel, rel, ab)


def _sub_cut_specs():
    """cut-offs that tend to keep a proper part of the network"""
    rel = st.tuples(st.sampled_from(["at", "above"]), st.integers(0, 8)).map(list)
    ab = st.one_of(st.sampled_from([0.0, 1e300]), st.integers(1, 40).map(lambda k: k / 4.0), st.integers(1, 40).map(lambda k: k / 4.0))
    return st.one_of(rel, rel, ab.map(lambda v: ["abs", v]))


@st.composite
def _segments(draw, paths, has_sub):
    """a short run of operations between two stages of the construction; paths: path queries prevail (C07)"""
    cut = _cut_specs()
    dist = st.tuples(st.just("dist"), _NODE, _NODE).map(list)
    path = st.tuples(st.just("path"), _NODE, _NODE).map(list)
    single = st.one_of(path, path, path, dist) if paths else st.one_of(dist, dist, dist, path)
    mainq = st.one_of(single, single, single, st.just(["all"]), st.tuples(st.just("list"), _NODE).map(list))
    other = st.one_of(st.tuples(st.just("table"), cut), st.tuples(st.just("prepare"), cut),
                      st.tuples(st.just("cutdist"), _NODE, _NODE, cut), st.tuples(st.just("cutpath"), _NODE, _NODE, cut)).map(list)
    subx = st.tuples(st.just("sub"), _NODE, _sub_cut_specs(), st.sampled_from(["TOPOLOGIC", "TOPOLOGIC", "GEOMETRIC"])).map(list)
    subdist = st.tuples(st.just("subdist"), _NODE, _NODE).map(list)
    subpath = st.tuples(st.just("subpath"), _NODE, _NODE).map(list)
    subsingle = st.one_of(subpath, subpath, subpath, subdist) if paths else st.one_of(subdist, subdist, subdist, subpath)
    subq = st.one_of(subsingle, subsingle, st.just(["suball"]), st.tuples(st.just("sublist"), _NODE).map(list),
                     st.tuples(st.just("subtable"), cut).map(list))
    k = draw(st.integers(0, 9))
    if k <= 2:
        return [draw(mainq)]
    if k <= 4:
        return [draw(other)]
    # the network and one of its sub-networks in turns
    seg = [draw(subx)] if not has_sub or k <= 6 else []
    return seg + draw(st.lists(st.one_of(mainq, mainq, subq, subq, other), min_size=1, max_size=5)) + [draw(single)]


@st.composite
def history_cases(draw, geom=False, astar=False, paths=False):
    if astar:
        case = draw(astar_cases(geom=geom))
    else:
        case = draw(graph_cases(geom=geom, min_nodes=2, max_nodes=8, max_edges=16))
    m = len(case["edges"])
    style = draw(st.sampled_from(["whole", "prefix", "prefix", "groups", "groups", "one-by-one"]))
    if style == "whole" or m == 0:
        sizes = [m]
    elif style == "prefix":
        k = draw(st.integers(0, m))
        sizes = [k, m - k]
    elif style == "groups":
        cuts = sorted(draw(st.lists(st.integers(0, m), min_size=2, max_size=3)))
        sizes = [b - a for a, b in zip([0] + cuts, cuts + [m])]
    else:
        k = draw(st.integers(1, min(m, 4)))
        sizes = [m - k] + [1] * k
    declare_after = draw(st.sampled_from([0, 0, len(sizes) - 1, len(sizes) - 1, len(sizes)]))     # only if not case["pre"]
    hist = []
    has_sub = False
    for i, k in enumerate(sizes):
        last = i == len(sizes) - 1
        hist.append(["add", k])
        if not case["pre"] and i == declare_after:
            hist.append(["nodes"])
        for _ in range(draw(st.integers(1 if last else 0, 3))):
            seg = draw(_segments(paths, has_sub))
            has_sub = has_sub or any(op[0] == "sub" for op in seg)
            hist.extend(seg)
        if draw(st.integers(0, 3)) > 0 and (last or draw(st.booleans())):
            hist.append(["all"])
    case["hist"] = hist
    return case


def strat_history():
    return st.one_of(history_cases(), history_cases(), history_cases(), history_cases(astar=True))


def body_small_staged(case):
    """the enumerated space, built edge by edge on one object with every pair (+ tables) queried after every edge"""
    full = expand_small(case)
    m = len(full["edges"])
    cuts = [["abs", -1.0], ["abs", 1e300]] + [[kind, k] for k in range(4) for kind in ("at", "above")]
    hist = [["all"]]
    for j in range(m):
        hist += [["add", 1], ["all"]] + [["table", c] for c in cuts[(j % 2)::2]]
    full["hist"] = hist
    labels, judged, _, view = run_history(full)
    n, arcs, D = model(view)
    cls, nt = classify(view, n, arcs, D, True)
    return {"nt": nt and m >= 1, "cls": [c for c in cls if c not in ("exact-weights", "n<=3")] + sorted(labels)}


RULE = ("pairs/tables: Hypothesis multigraphs of 1..12 nodes and 0..40 edges (self-loops, parallel and anti-parallel edges, "
        "orientations 0/+1/-1, weights from {0,1,2} / {0,.5,1,2,3.5} / floats in [0,100], isolated nodes, permuted ids, "
        "nodes declared before or through the edges; sources and targets independently handed over as id / the network's Node "
        "object / a fresh equal Node / the Node object of a later edge row / the Node object of a searched twin network, labels "
        "src-as=*, tgt-as=*; in the enumerated spaces the combination is a fixed function of the edge sequence); pairs: every ordered (s,t) incl. s=t through "
        "shortest_distance(s,t) and the list form shortest_distance(s); tables: 1..4 cut-offs at / just below / just above a "
        "true distance, 0, negative, 1e9, 1e300, through all_shortest_distances(cut) and prepare(cut)+has_/prepared_shortest_distance; "
        "small: every edge sequence of length <= 2 (quick) / <= 3 (thorough) over 3 nodes, pairs + tables at every distinct "
        "distance, 0.25 above it, negative and 1e300. "
        "history: the same multigraphs (2..8 nodes, <= 16 edges; 1 in 4: A* on admissible weights, <= 10 nodes / 30 edges) as a "
        "program run on ONE Network object: edges added whole / as prefix + rest / in 2-4 groups / the last 1-4 one by one, "
        "isolated nodes declared before, early or late; between the stages and at the end 0..3 segments of: a judged query "
        "(pair, list form, all pairs), a table / prepare / single-pair query with cut-off / shortest_path, or a sub_network "
        "extraction (TOPOLOGIC around a node, GEOMETRIC around its position; cut-off at / above a distance from that node "
        "or absolute) followed by 1..5 operations alternating between the network and the sub-network (pair / list / all / "
        "table queries on the sub-network are judged as well) and a final single query. small-staged: the enumerated space "
        "built edge by edge on one object with all pairs + list forms + half of the cut-offs after every addEdge. "
        "Non-trivial: some reverse-oriented, zero-weight or parallel edge lies on a shortest walk (of the final state), or "
        "some ordered pair is unreachable. Distinct = hash of the case.")

SUBCHECKS = [
    SubCheck("pairs", body_pairs, strategy=strat_pairs, quick=6000, thorough=240000, qshards=6,
             rule="random multigraphs, all ordered pairs + list form"),
    SubCheck("tables", body_tables, strategy=strat_tables, quick=4500, thorough=160000, qshards=6,
             rule="random multigraphs x cut-offs, all-pairs table and prepared distances"),
    SubCheck("astar", body_astar, strategy=strat_astar, quick=3000, thorough=100000, qshards=4,
             rule="A* routing method on multigraphs whose weights are >= the straight-line distance of their end nodes "
                  "(admissible heuristic, astar weight in {0, .25, .5, 1}): every ordered pair + list form against Floyd-Warshall"),
    SubCheck("history", body_history, strategy=strat_history, quick=2400, thorough=100000, qshards=8,
             rule="one Network object built in stages (whole / prefix + rest / 2-4 groups / last edges one by one; isolated "
                  "nodes declared early or late) with judged queries, tables, prepare, cut-off queries, sub_network "
                  "extraction and searches on the sub-network in between; every judged answer against Floyd-Warshall over "
                  "the edges present at that time; 1 in 4 with A* routing on admissible weights"),
    SubCheck("small-staged", body_small_staged, enum=enum_small,
             rule="the enumerated space built edge by edge on one object: all pairs + list forms + tables after every addEdge",
             qshards=4),
    SubCheck("small", body_small, enum=enum_small,
             rule="all graphs on 3 nodes with <= 2 (quick) / <= 3 (thorough) edges, weights {0,1,2}", qshards=4),
]
