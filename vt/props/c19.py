"""C19 - grid summarising conserves observations and aggregates per cell.

Oracle: own footprint test for the cell returned by Raster.getCell (grid origin, resolution and the
row-from-the-top convention as drawn by AFMap.plotAsGraphic), own grouping of the fixes by that
cell, Python aggregates (len / sum / min / max / mean / statistics-style median) over the non-NaN
values of each group."""
import itertools
import math

import numpy as np
from hypothesis import strategies as st

from tracklib.core import ENUCoords, Bbox
from tracklib.core.obs_coords import GeoCoords, ECEFCoords

COORD_CLASSES = ["ENU", "ENU", "ENU", "GEO", "ECEF"]
from tracklib.core.raster import Raster, NO_DATA_VALUE
from tracklib.core.track_collection import TrackCollection
from tracklib.core.utils import co_count, co_sum, co_min, co_max, co_avg, co_median
from tracklib.algo.summarising import summarize

from vt import gen
from vt.core import SubCheck, Violation, close, same, isnan

NAN = float("nan")
OPS = [("co_count", co_count), ("co_sum", co_sum), ("co_min", co_min), ("co_max", co_max),
       ("co_avg", co_avg), ("co_median", co_median)]
OPF = dict(OPS)

HANG_IS_VIOLATION = False      # cost depends on generated grid / file sizes: a CPU budget hit is inconclusive here
ASSUMPTIONS = [
    "grid geometry is read from the raster (xmin, ymin, resolution, ncol, nrow); cell (col,row) has the closed footprint "
    "[xmin+col*rx, xmin+(col+1)*rx] x [ymin+(nrow-1-row)*ry, ymin+(nrow-row)*ry] (rows counted from the top, as "
    "AFMap.plotAsGraphic draws them); containment is tested to 1e-9 relative to the largest coordinate, so a fix that "
    "lies on a border within rounding may be given to either neighbour",
    "domain: ENU collections of 1..4 tracks / 2..12 fixes whose bounding box has positive width and height, resolutions > 0, "
    "margins >= 0, one numeric feature whose values are quarter-lattice numbers or NaN (sums are exact, so 1e-12 suffices)",
    "empty aggregate: 0 for count and sum, NO_DATA_VALUE for min/max/avg/median (a NaN returned by a cell operator is what "
    "Raster.computeAggregates turns into NO_DATA_VALUE; the operator sub-check applies the same one-line mapping)",
    "median of an even number of values = mean of the two middle values",
    "summarize may be asked for any subset of the six aggregates of a feature in any order, for a second feature as well, and "
    "Raster.computeAggregates() may be called again afterwards: every map is judged after every computation against the values "
    "of the fixes in the cell",
    "the tracks of a collection may have created their features in different orders, own an unrelated feature, or have removed "
    "and re-created the summarised feature; each observation contributes its own value of the NAMED feature "
    "(Track.getObsAnalyticalFeature); a requested feature that some track lacks is the documented AnalyticalFeatureError "
    "(not generated)",
    "consecutive fixes of a track may be exact duplicates or lie 1e-6 .. 9e-5 apart (less than the 1e-4 below which "
    "ENUCoords.__eq__ calls two positions equal) on either side of, or on, an inner cell border or corner, and the whole "
    "picture may be given in small units (resolutions and extents x 1e-3 / 1e-5 / 1e-6, whole collections inside 1e-4): "
    "every fix still belongs to the cell whose footprint contains it - the cell Raster.getCell returns for that fix alone, "
    "which is checked against the footprint (absolute tolerance as above, 1e-9 for data below 1)",
    "numeric type of the feature values handed to createAnalyticalFeature / to the cell operators: Python float (first version), "
    "Python int for integer-valued numbers, numpy float64 / float32 / float16 / longdouble scalars, NaN held in that type "
    "included, per track and per feature (operators: per list or per value); every generated value is exactly representable "
    "in its type (checked; otherwise undef). An aggregate may come back as a numpy scalar; it is compared by value. "
    "numpy adds / divides float32 / float16 scalars in that precision, so for cells holding such values sum, mean and median are "
    "demanded to n x eps(type) x sum|v| (the error bound of a sequential evaluation in the type; eps = 2^-23 / 2^-10) instead of "
    "1e-12 - the generated values are exactly summable, so in effect only the rounding of the mean's division is tolerated; "
    "count, minimum, maximum stay exact",
]


# ----------------------------------------------------------------------------------------------
# reference aggregates
def ref_aggregates(values):
    """expected cell content per operator for the list of feature values scattered into a cell"""
    v = [float(x) for x in values if not isnan(float(x))]
    n = len(v)
    out = {"co_count": n, "co_sum": math.fsum(v) if n else 0}
    if n == 0:
        for k in ("co_min", "co_max", "co_avg", "co_median"):
            out[k] = NO_DATA_VALUE
        return out
    s = sorted(v)
    out["co_min"] = s[0]
    out["co_max"] = s[-1]
    out["co_avg"] = math.fsum(v) / n
    out["co_median"] = s[n // 2] if n % 2 else 0.5 * (s[n // 2 - 1] + s[n // 2])
    return out


def _agg_key(op, values, got):
    """narrow key for the two NaN root causes, generic key otherwise"""
    vals = [float(x) for x in values]
    if op in ("co_min", "co_max") and vals and isnan(vals[0]) and any(not isnan(x) for x in vals) \
            and (isnan(got) or same(got, NO_DATA_VALUE)):
        return op + "-nan-first"
    return "agg-%s-wrong" % op


# numeric type in which a feature value is handed to tracklib.  The case holds plain numbers (or NaN) that are exactly
# representable in the type; 'float' = the number as the case holds it (Python float, a few Python ints), 'int' = integer-valued
# numbers as Python int (NaN stays a float NaN, there is no integer NaN), the others numpy scalars - NaN included
TYPES = {"float": None, "int": None, "float64": np.float64, "float32": np.float32, "float16": np.float16,
         "longdouble": np.longdouble}
TYPE_EPS = {"float32": 2.0 ** -23, "float16": 2.0 ** -10}      # arithmetic among such values is done by numpy in that precision


def _cast(v, typ):
    """the value as tracklib gets it, or None when the type cannot hold it exactly"""
    if typ == "float":
        return v
    if typ == "int":
        return v if isnan(float(v)) or math.isinf(float(v)) else gen.as_int_if_integral(v)
    out = TYPES[typ](v)
    return out if same(float(out), float(v)) else None


def _type_eps(types):
    return max([TYPE_EPS.get(t, 0.0) for t in types] or [0.0])


def _check_value(op, values, got, where, types=()):
    exp = ref_aggregates(values)[op]
    if isinstance(got, (bool, np.bool_)) or not isinstance(got, (int, float, np.integer, np.floating)):
        raise Violation("agg-%s-wrong" % op, "%s: %s gives %r (not a number) for values %r" % (where, op, got, values))
    got_f = float(got)
    eps = _type_eps(types)
    extra = 0.0
    if eps and op in ("co_sum", "co_avg", "co_median"):
        # values of a narrow numpy type are added / divided in that type: the aggregate is demanded to the precision of
        # a sequential evaluation in that type (all generated data are exactly summable, so this only matters for the mean)
        v = [abs(float(x)) for x in values if not isnan(float(x))]
        n, S = len(v), math.fsum(v)
        extra = {"co_sum": n * eps * S, "co_avg": (n + 1) * eps * S / max(n, 1), "co_median": eps * S}[op]
    ok = same(got_f, exp) if op == "co_count" else close(got_f, exp, rel=1e-12, abs_=1e-12 + extra)
    if not ok:
        tnote = " handed over as %s" % sorted(set(types)) if any(t != "float" for t in types) else ""
        raise Violation(_agg_key(op, values, got_f), "%s: %s over %r%s is %r, expected %r" % (where, op, values, tnote, got, exp))


# ----------------------------------------------------------------------------------------------
# footprint
def _tol(raster):
    rx, ry = raster.resolution
    return 1e-9 * max(1.0, abs(raster.xmin), abs(raster.xmax), abs(raster.ymin), abs(raster.ymax), abs(rx), abs(ry))


def _check_cell(raster, x, y):
    """getCell(x, y) is one in-range cell whose closed footprint contains (x, y); returns (col, row, on_border)"""
    cell = raster.getCell(ENUCoords(x, y, 0))
    if cell is None:
        raise Violation("cell-none", "getCell(%r, %r) is None for a point of the bounding box [%r,%r]x[%r,%r]" % (
            x, y, raster.xmin, raster.xmax, raster.ymin, raster.ymax))
    col, row = cell
    if int(col) != col or int(row) != row:
        raise Violation("cell-not-integer", "getCell(%r, %r) = %r" % (x, y, cell))
    col, row = int(col), int(row)
    if not (0 <= col < raster.ncol and 0 <= row < raster.nrow):
        raise Violation("cell-out-of-range", "getCell(%r, %r) = (col %d, row %d) in a %d x %d (ncol x nrow) grid; xmin=%r ymin=%r res=%r" % (
            x, y, col, row, raster.ncol, raster.nrow, raster.xmin, raster.ymin, raster.resolution))
    rx, ry = raster.resolution
    tol = _tol(raster)
    x0, x1 = raster.xmin + col * rx, raster.xmin + (col + 1) * rx
    y0, y1 = raster.ymin + (raster.nrow - 1 - row) * ry, raster.ymin + (raster.nrow - row) * ry
    if not (x0 - tol <= x <= x1 + tol):
        raise Violation("cell-footprint-x", "getCell(%r, %r) = col %d whose footprint is x in [%r, %r]; xmin=%r rx=%r ncol=%d" % (
            x, y, col, x0, x1, raster.xmin, rx, raster.ncol))
    if not (y0 - tol <= y <= y1 + tol):
        raise Violation("cell-footprint-y", "getCell(%r, %r) = row %d whose footprint is y in [%r, %r]; ymin=%r ry=%r nrow=%d" % (
            x, y, row, y0, y1, raster.ymin, ry, raster.nrow))
    bx = min(abs(x - x0), abs(x - x1)) <= tol
    by = min(abs(y - y0), abs(y - y1)) <= tol
    return col, row, bx, by


def _check_geometry(raster, res):
    if tuple(raster.resolution) != tuple(res):
        raise Violation("resolution-changed", "asked %r, raster has %r" % (res, raster.resolution))
    if not (isinstance(raster.ncol, int) and isinstance(raster.nrow, int) and raster.ncol >= 1 and raster.nrow >= 1):
        raise Violation("grid-size", "ncol=%r nrow=%r" % (raster.ncol, raster.nrow))


# ----------------------------------------------------------------------------------------------
# (i) summarize on generated collections
RES = [1, 2.5, 5, 2, 0.5, 0.3, 0.7, 3.3]
MARGINS = [0, 0.0, 0.05, 0.5, 0.25, 0.1]
ORIGINS = [0, 0.0, -3.5, 10, 1000.25, 651000.5, -0.1, 0.3]
MAPS = ["f"] * 6 + ["uid"]
AGGS = [f for _, f in OPS] + [co_count]


EXT_FRAC = [0, 0, 0, 0.5, 0.25, 0.1, 0.9]
_VALS = [k * 0.25 for k in range(-8, 9)] + [0, 1, 2, 3] + [0.0, 1.0, 2.0, 3.0]     # ties are frequent on purpose
_VAL_BY_MODE = [_VALS, _VALS + [NAN] * 10, _VALS + [NAN] * 10, _VALS + [NAN] * 50]  # none / some / some / heavy

# All strategies are static (building strategies per case costs more than running the body); a case is
# drawn as small integer codes and decoded into explicit coordinates by _decode_* below.
_CFG = st.tuples(st.sampled_from(RES), st.sampled_from([None] * 4 + RES), st.sampled_from(MARGINS),
                 st.integers(0, 6), st.sampled_from(EXT_FRAC), st.integers(0, 6), st.sampled_from(EXT_FRAC),
                 st.sampled_from(ORIGINS), st.sampled_from(ORIGINS))
_COORD = st.one_of(st.integers(0, 383), st.floats(0, 1))        # coded lattice position | fraction of the extent


UNITS = [1, 1, 1, 1, 1e-3, 1e-5, 1e-6]                          # the same picture in metres (as before) / mm / 10 um / um


def _decode_cfg(cfg, unit=1):
    rx, ry, m, kx, ex, ky, ey, ox, oy = cfg
    ry = rx if ry is None else ry
    if unit != 1:
        rx, ry, ox, oy = rx * unit, ry * unit, ox * unit, oy * unit
    W = (kx + ex) * rx if kx + ex > 0 else rx
    H = (ky + ey) * ry if ky + ey > 0 else ry
    return rx, ry, m, W, H, ox, oy


def _candidates(extent, r, m):
    g0 = -m * extent                                             # grid origin relative to the data minimum
    kmax = int(math.ceil((1 + 2 * m) * extent / r)) + 1
    borders = [g0 + k * r for k in range(kmax + 1) if 0 <= g0 + k * r <= extent]
    centres = [g0 + (k + 0.5) * r for k in range(kmax + 1) if 0 <= g0 + (k + 0.5) * r <= extent]
    return borders or [0.0, extent], centres or [extent / 2]


def _offset(code, extent, borders, centres):
    """offset in [0, extent] from the lower data bound: float / cell border (x3) / cell centre / eighth / end"""
    if isinstance(code, float):
        return code * extent
    kind, k = 1 + code % 6, code // 6
    if kind <= 3:
        return borders[k % len(borders)]
    if kind == 4:
        return centres[k % len(centres)]
    if kind == 5:
        return (k % 9) * extent / 8
    return (0.0, extent)[k % 2]


# per-track feature layouts: creation order of the features of ONE track ('f' is the judged feature, 'g' a second feature
# that is requested too when every track owns it, 'h' is never requested) and whether 'f' is removed and re-created at the end
LAYOUTS = [{"create": ["f"]}, {"create": ["f", "g"]}, {"create": ["g", "f"]}, {"create": ["h", "f"]},
           {"create": ["h", "g", "f"]}, {"create": ["f", "g"], "recreate": True}, {"create": ["f", "h"]},
           {"create": ["g", "h", "f"]}, {"create": ["f", "h", "g"], "recreate": True}, {"create": ["g", "f", "h"]}]
BASE_REQ = [["f", n] for n, _ in OPS] + [["uid", "co_count"]]
G_REQ = [["g", "co_sum"], ["g", "co_median"], ["g", "co_min"]]


def _perm(items, code):
    """the code-th permutation of items (factorial number system; code 0 = identity): every order is reachable"""
    items = list(items)
    out = []
    while items:
        code, k = divmod(code, len(items))
        out.append(items.pop(k))
    return out


# consecutive near-duplicate fixes (a receiver standing still / creeping): fix i+1 of the scatter order := fix i + (dx, dy),
# fix i itself first moved by (sx, sy) off its lattice position (so the two can straddle a cell border or corner on which fix i
# was generated, or sit on it).  All offsets are below the 1e-4 of ENUCoords.__eq__; 0 = exact duplicate in that axis
_OFF = [0, 1e-6, 3e-6, 1e-5, 3e-5, 5e-5, 9e-5]
OFFSETS = [0.0] + [sg * o for o in _OFF[1:] for sg in (1, -1)]
FTYPES = ["float64", "float32", "float32", "float16", "longdouble", "int"]
GTYPES = ["float64", "float32", "float32", "longdouble"]       # the values of 'g' (1000 + k/4) do not fit float16


def _decode_collection(t):
    (cfg, pts, anchors, nanmode, cuts), (perm, drop, recompute, lay, gmaps), (twins, unit, tmode, tcodes) = t
    case = _decode_collection0((cfg, pts, anchors, nanmode, cuts), twins, unit)
    ntr = len(case["tracks"])
    layouts = [dict(LAYOUTS[lay[k] % len(LAYOUTS)]) for k in range(ntr)]
    for k, l in enumerate(layouts):
        if tmode == 1:                                           # one numeric type for the whole collection
            l["ftype"], l["gtype"] = FTYPES[tcodes[0] % len(FTYPES)], GTYPES[tcodes[0] % len(GTYPES)]
        elif tmode == 2:                                         # per track / per feature; Python floats stay frequent
            cf, cg = tcodes[k] % (len(FTYPES) + 2), (tcodes[k] // 8) % (len(GTYPES) + 2)
            if cf < len(FTYPES):
                l["ftype"] = FTYPES[cf]
            if cg < len(GTYPES):
                l["gtype"] = GTYPES[cg]
    req = [r for i, r in enumerate(BASE_REQ) if not (drop >> i) & 1 or r[0] == "uid"]
    if gmaps and all("g" in l["create"] for l in layouts):
        req = req + G_REQ[:gmaps]
    case["req"] = _perm(req, perm)
    case["recompute"] = recompute
    case["layouts"] = layouts
    case["coord"] = COORD_CLASSES[perm % len(COORD_CLASSES)]    # class of the positions; the numbers are the same
    return case


def _clamp(v, hi):
    return min(max(v, 0.0), hi)


def _decode_collection0(t, twins=(), unit=1):
    cfg, pts, anchors, nanmode, cuts = t
    rx, ry, m, W, H, ox, oy = _decode_cfg(cfg, unit)
    n = len(pts)
    bx, cx = _candidates(W, rx, m)
    by, cy = _candidates(H, ry, m)
    us = [_offset(p[0], W, bx, cx) for p in pts]
    vs = [_offset(p[1], H, by, cy) for p in pts]
    i0, di, j0, dj = anchors
    i0, j0 = i0 % n, j0 % n
    i1, j1 = (i0 + 1 + di % (n - 1)) % n, (j0 + 1 + dj % (n - 1)) % n
    us[i0], us[i1] = 0.0, W                                      # the bounding box is exactly [ox, ox+W] x [oy, oy+H]
    vs[j0], vs[j1] = 0.0, H
    for (ic, sx, sy, dx, dy) in twins:
        i = ic % (n - 1)
        if i + 1 in (i0, i1, j0, j1):
            continue                                             # the follower would lose an anchor of the bounding box
        if i not in (i0, i1):
            us[i] = _clamp(us[i] + OFFSETS[sx], W)
        if i not in (j0, j1):
            vs[i] = _clamp(vs[i] + OFFSETS[sy], H)
        us[i + 1] = _clamp(us[i] + OFFSETS[dx], W)
        vs[i + 1] = _clamp(vs[i] + OFFSETS[dy], H)
    table = _VAL_BY_MODE[nanmode]
    fs = [table[p[2] % len(table)] for p in pts]
    cuts = sorted(set(1 + c % (n - 1) for c in cuts))
    rows = [[ox + u, oy + v, f] for u, v, f in zip(us, vs, fs)]
    return {"res": [rx, ry], "margin": m, "tracks": [rows[a:b] for a, b in zip([0] + cuts, cuts + [n])]}


def strat_collection():
    pts = st.lists(st.tuples(_COORD, _COORD, st.integers(0, 999)), min_size=2, max_size=12)
    anchors = st.tuples(*[st.integers(0, 11)] * 4)
    geo = st.tuples(_CFG, pts, anchors, st.integers(0, 3), st.lists(st.integers(0, 10), max_size=3))
    # order of the requested (feature, aggregate) pairs (any permutation), requested subset, computeAggregates() repeated,
    # feature layout of each track, maps of a second feature
    var = st.tuples(st.integers(0, 3628799), st.sampled_from([0, 0, 0, 1, 2, 4, 8, 16, 32, 6, 24, 33, 30, 62]),
                    st.sampled_from([0, 0, 0, 1, 1, 2]), st.tuples(*[st.integers(0, len(LAYOUTS) - 1)] * 4), st.sampled_from([0, 0, 1, 2, 3]))
    # consecutive near-duplicate fixes, unit of the coordinates, numeric type of the feature values
    off = st.integers(0, len(OFFSETS) - 1)
    twin = st.tuples(st.integers(0, 10), off, off, off, off)
    inp = st.tuples(st.lists(twin, max_size=3), st.sampled_from(UNITS), st.sampled_from([0, 0, 1, 1, 2, 2]),
                    st.tuples(*[st.integers(0, 63)] * 4))
    return st.tuples(geo, var, inp).map(_decode_collection)


DEFAULT_REQ = [["f", n] for n, _ in OPS] + [["uid", "co_count"]]


def _feature_values(pts, base):
    """own values of the three features of one track (base = number of fixes in the tracks before it): 'f' from the case,
    'g' and 'h' disjoint from the 'f' values (|f| <= 3) and from each other, so a value read from the wrong feature shows"""
    n = len(pts)
    return {"f": [p[2] for p in pts], "g": [1000 + 0.25 * (base + j) for j in range(n)],
            "h": [-500.0 - (base + j) for j in range(n)]}


def body_summarize(case):
    res = tuple(case["res"])
    m = case["margin"]
    req = [list(r) for r in (case.get("req") or DEFAULT_REQ)]
    layouts = case.get("layouts") or [{"create": ["f"]}] * len(case["tracks"])
    recompute = int(case.get("recompute") or 0)
    if len(layouts) != len(case["tracks"]) or not req or len(set(map(tuple, req))) != len(req) \
            or any(r[1] not in OPF or r[0] not in ("f", "g", "uid") or (r[0] == "uid" and r[1] != "co_count") for r in req) \
            or ["uid", "co_count"] not in req or any("f" not in l["create"] for l in layouts):
        return {"undef": True}
    if any(r[0] == "g" for r in req) and not all("g" in l["create"] for l in layouts):
        return {"undef": True}                                   # documented AnalyticalFeatureError: a track lacks the feature
    trks = []
    fixes = []                                                   # scatter order: track by track, fix by fix
    for k, pts in enumerate(case["tracks"]):
        t = gen.make_track([(p[0], p[1]) for p in pts])
        if case.get("coord", "ENU") != "ENU":                    # summarize() reads positions through getX()/getY() only
            kls = {"GEO": GeoCoords, "ECEF": ECEFCoords}[case["coord"]]
            for j, p in enumerate(pts):
                t.getObs(j).position = kls(p[0], p[1], 0.0)
        vals = _feature_values(pts, len(fixes))
        typ = {"f": layouts[k].get("ftype", "float"), "g": layouts[k].get("gtype", "float"), "h": "float"}
        if typ["f"] not in TYPES or typ["g"] not in TYPES:
            return {"undef": True}
        handed = {name: [_cast(v, typ[name]) for v in vals[name]] for name in vals}
        if any(v is None for name in handed for v in handed[name]):
            return {"undef": True}                               # a value the numeric type cannot hold exactly
        for name in layouts[k]["create"]:
            t.createAnalyticalFeature(name, list(handed[name]))
        if layouts[k].get("recreate"):                           # remove + re-create: 'f' moves behind the other features
            t.removeAnalyticalFeature("f")
            t.createAnalyticalFeature("f", list(handed["f"]))
        t.uid = k + 1
        trks.append(t)
        for j, p in enumerate(pts):
            fixes.append((p[0], p[1], {"f": vals["f"][j], "g": vals["g"][j]}, {"f": typ["f"], "g": typ["g"]}, k))
    xs, ys = [p[0] for p in fixes], [p[1] for p in fixes]
    if not (max(xs) > min(xs) and max(ys) > min(ys)):
        return {"undef": True}                                   # degenerate bounding box: no grid is defined

    raster = summarize(TrackCollection(trks), [r[0] for r in req], [OPF[r[1]] for r in req], res, m)
    _check_geometry(raster, res)

    groups = {}
    nbx = nby = ncorner = 0
    cells = []
    for x, y, f, ty, k in fixes:
        col, row, bx, by = _check_cell(raster, x, y)
        groups.setdefault((row, col), []).append((f, ty))
        cells.append((row, col))
        nbx += bx
        nby += by
        ncorner += bx and by

    names = [r[0] + "#" + r[1] for r in req]
    for rnd in range(1 + recompute):
        if rnd:
            raster.computeAggregates()                           # aggregates computed again from the same scattered values
        try:
            _judge_maps(raster, req, names, groups, fixes)
        except Violation as v:
            raise Violation(v.key, "%s [maps requested in the order %s; feature layouts %s; computeAggregates() run %d time(s)]" % (
                v.msg, names, layouts, rnd + 1))

    ncells = raster.nrow * raster.ncol
    multi = [[f["f"] for f, _ in v] for v in groups.values() if len(v) >= 2]
    allf = [[f["f"] for f, _ in v] for v in groups.values()]
    cls = ["cells-1" if ncells == 1 else "cells-2..8" if ncells <= 8 else "cells-9+",
           "square" if res[0] == res[1] else "nonsquare",
           "margin-0" if m == 0 else "margin>0"]
    wx = (max(xs) - min(xs)) * (1 + 2 * m) / res[0]
    cls.append("res-divides-x" if abs(wx - round(wx)) < 1e-9 else "res-nondividing-x")
    if multi:
        cls.append("cell-with-2+fixes")
    if len(groups) < ncells:
        cls.append("empty-cell")
    if nbx or nby:
        cls.append("fix-on-border")
    if ncorner:
        cls.append("fix-on-cell-corner")
    if any(isnan(float(p[2]["f"])) for p in fixes):
        cls.append("has-nan")
    if any(v and all(isnan(float(x)) for x in v) for v in allf):
        cls.append("cell-all-nan")
    if any(isnan(float(v[0])) and any(not isnan(float(x)) for x in v) for v in multi):
        cls.append("cell-nan-first")
    if any(sum(1 for x in v if not isnan(float(x))) in (2, 4, 6) for v in multi):
        cls.append("cell-even-median")
    if len(case["tracks"]) > 1:
        cls.append("multi-track")
    # the new dimensions
    cls.append("request-order-default" if req == DEFAULT_REQ else "request-order-permuted")
    fops = [r[1] for r in req if r[0] == "f"]
    if "co_median" in fops and fops.index("co_median") < len(fops) - 1:
        cls.append("median-before-other-aggregate-of-the-feature")
        if any(v and not any(isnan(float(x)) for x in v) for v in allf):
            cls.append("median-first+cell-without-nan")
    if len(fops) < len(OPS):
        cls.append("subset-of-aggregates")
    if any(r[0] == "g" for r in req):
        cls.append("two-features-requested")
    if recompute:
        cls.append("aggregates-recomputed-%d" % recompute)
    cls.append("coord-" + case.get("coord", "ENU"))
    orders = set(tuple(_final_order(l)) for l in layouts)
    if len(orders) > 1:
        cls.append("tracks-with-different-feature-layouts")
        pos = set(_final_order(l).index("f") for l in layouts)
        if len(pos) > 1:
            cls.append("judged-feature-at-different-positions")
    if any(l.get("recreate") for l in layouts):
        cls.append("feature-removed-and-recreated")
    if any("h" in l["create"] for l in layouts):
        cls.append("unrelated-feature-present")
    # consecutive fixes of one track closer than 1e-4 (what ENUCoords.__eq__ calls equal) in both axes
    for a in range(len(fixes) - 1):
        fa, fb = fixes[a], fixes[a + 1]
        if fa[4] != fb[4] or not (abs(fa[0] - fb[0]) < 1e-4 and abs(fa[1] - fb[1]) < 1e-4):
            continue
        if fa[0] == fb[0] and fa[1] == fb[1]:
            cls.append("consecutive-fixes-exact-duplicates")
            continue
        cls.append("consecutive-fixes-within-1e-4")
        if cells[a] != cells[a + 1]:
            dr, dc = cells[a][0] != cells[a + 1][0], cells[a][1] != cells[a + 1][1]
            cls.append("consecutive-fixes-within-1e-4-in-different-cells")
            cls.append("consecutive-fixes-within-1e-4-across-a-" + ("corner" if dr and dc else "row-border" if dr else "column-border"))
    if max(xs) - min(xs) < 1e-4 and max(ys) - min(ys) < 1e-4:
        cls.append("whole-collection-within-1e-4")
        if len(groups) > 1:
            cls.append("whole-collection-within-1e-4,several-cells-occupied")
    cls.append("unit-1" if min(res) >= 0.3 else "unit-small(res<0.01)" if max(res) < 0.01 else "unit-other")
    # numeric type of the feature values
    ftypes = set(f[3]["f"] for f in fixes)
    for t in sorted(ftypes):
        cls.append("f-values-as-" + t)
    if len(ftypes) > 1:
        cls.append("f-values-of-several-types")
    for t in sorted(ftypes - {"float", "int"}):
        if any(f[3]["f"] == t and isnan(float(f[2]["f"])) for f in fixes):
            cls.append("nan-held-as-" + t)
    if any(r[0] == "g" for r in req):
        for t in sorted(set(f[3]["g"] for f in fixes) - {"float"}):
            cls.append("g-values-as-" + t)
    cls = sorted(set(cls))
    return {"nt": ncells > 1 and bool(multi), "cls": cls}


def _final_order(layout):
    order = list(layout["create"])
    if layout.get("recreate"):
        order.remove("f")
        order.append("f")
    return order


def _judge_maps(raster, req, names, groups, fixes):
    grids = {}
    for name in names:
        g = raster.getAFMap(name).grid
        if len(g) != raster.nrow or any(len(r) != raster.ncol for r in g):
            raise Violation("grid-shape", "%s grid is not nrow x ncol = %d x %d" % (name, raster.nrow, raster.ncol))
        grids[name] = g

    # conservation
    total = sum(grids["uid#co_count"][r][c] for r in range(raster.nrow) for c in range(raster.ncol))
    if total != len(fixes):
        raise Violation("conservation", "counts over all cells sum to %r, collection has %d observations" % (total, len(fixes)))
    if "f#co_count" in grids:
        nn = sum(1 for p in fixes if not isnan(float(p[2]["f"])))
        total = sum(grids["f#co_count"][r][c] for r in range(raster.nrow) for c in range(raster.ncol))
        if total != nn:
            raise Violation("conservation-feature", "feature counts sum to %r, collection has %d non-NaN values" % (total, nn))

    # per-cell aggregates: each observation contributes ITS OWN value of the named feature
    for r in range(raster.nrow):
        for c in range(raster.ncol):
            members = groups.get((r, c), [])
            where = "cell row %d col %d" % (r, c)
            got = grids["uid#co_count"][r][c]
            if not same(got, len(members)):
                raise Violation("cell-count-wrong", "%s holds %r observations, %d fixes lie in its footprint" % (where, got, len(members)))
            for af, op in req:
                if af != "uid":
                    _check_value(op, [f[af] for f, _ in members], grids[af + "#" + op][r][c], where + " feature '%s'" % af,
                                 [ty[af] for _, ty in members])


# ----------------------------------------------------------------------------------------------
# (ii) Raster.getCell on its own: enumerated half-cell lattice + generated queries
def _raster_of(case):
    ll, ur = case["ll"], case["ur"]
    return Raster(Bbox(ENUCoords(ll[0], ll[1], 0), ENUCoords(ur[0], ur[1], 0)), tuple(case["res"]), case["margin"])


def body_getcell(case):
    ll, ur = case["ll"], case["ur"]
    if not (ur[0] > ll[0] and ur[1] > ll[1]):
        return {"undef": True}
    raster = _raster_of(case)
    _check_geometry(raster, tuple(case["res"]))
    nb = ncorner = nouter = 0
    for x, y in case["q"]:
        x = min(max(x, ll[0]), ur[0])                           # observations lie in the data bounding box
        y = min(max(y, ll[1]), ur[1])
        col, row, bx, by = _check_cell(raster, x, y)
        nb += bx or by
        ncorner += bx and by
        nouter += x in (raster.xmin, raster.xmax) or y in (raster.ymin, raster.ymax)
    cls = ["margin-0" if case["margin"] == 0 else "margin>0",
           "square" if case["res"][0] == case["res"][1] else "nonsquare",
           "unit-1" if min(case["res"]) >= 0.3 else "unit-small(res<0.01)" if max(case["res"]) < 0.01 else "unit-other"]
    if nb:
        cls.append("border-query")
    if ncorner:
        cls.append("corner-query")
    if nouter:
        cls.append("outer-border-query")
    return {"nt": nb > 0, "cls": cls}


def enum_getcell(tier):
    """every half-cell lattice point of the data bounding box, for a product of small grid configurations"""
    rs = (1, 2.5, 0.3) if tier == "quick" else (1, 2.5, 0.3, 5, 0.7)
    ks = (1, 2, 3) if tier == "quick" else (1, 2, 3, 4, 7)
    es = (0, 0.5) if tier == "quick" else (0, 0.5, 0.25, 0.1)
    for rx, ry in itertools.product(rs, rs):
        for kx, ex, ky, ey in itertools.product(ks, es, ks, es):
            W, H = (kx + ex) * rx, (ky + ey) * ry
            for m in (0, 0.5, 0.05, 0.25):
                for ox, oy in ((0, 0), (-3.5, 1000.25), (651000.5, -0.1)):
                    gx, gy = -m * W, -m * H
                    qx = [gx + i * rx / 2 for i in range(int(2 * (1 + 2 * m) * W / rx) + 3) if 0 <= gx + i * rx / 2 <= W] + [0, W]
                    qy = [gy + j * ry / 2 for j in range(int(2 * (1 + 2 * m) * H / ry) + 3) if 0 <= gy + j * ry / 2 <= H] + [0, H]
                    yield {"ll": [ox, oy], "ur": [ox + W, oy + H], "res": [rx, ry], "margin": m,
                           "q": [[ox + u, oy + v] for u in qx for v in qy]}


def _decode_getcell(t):
    cfg, qs, unit = t
    rx, ry, m, W, H, ox, oy = _decode_cfg(cfg, unit)
    bx, cx = _candidates(W, rx, m)
    by, cy = _candidates(H, ry, m)
    return {"ll": [ox, oy], "ur": [ox + W, oy + H], "res": [rx, ry], "margin": m,
            "q": [[ox + _offset(q[0], W, bx, cx), oy + _offset(q[1], H, by, cy)] for q in qs]}


def strat_getcell():
    return st.tuples(_CFG, st.lists(st.tuples(_COORD, _COORD), min_size=1, max_size=16), st.sampled_from(UNITS)).map(_decode_getcell)


# ----------------------------------------------------------------------------------------------
# (iii) the six cell operators called directly
def body_operators(case):
    values = case["values"]
    types = case.get("types") or "float"                         # one numeric type for the list, or one per value
    types = [types] * len(values) if isinstance(types, str) else list(types)
    if len(types) != len(values) or any(t not in TYPES for t in types):
        return {"undef": True}
    handed = [_cast(v, t) for v, t in zip(values, types)]
    if any(v is None for v in handed):
        return {"undef": True}                                   # a value the numeric type cannot hold exactly
    for op, f in OPS:
        got = f(list(handed))
        if isinstance(got, (float, np.floating)) and got != got:
            got = NO_DATA_VALUE                                  # what Raster.computeAggregates stores for NaN
        _check_value(op, values, got, "direct call", types)
    fl = [float(x) for x in values]
    nn = [x for x in fl if not isnan(x)]
    cls = ["len-%s" % (len(fl) if len(fl) < 3 else "3+")]
    if len(nn) < len(fl):
        cls.append("has-nan")
        if not nn:
            cls.append("all-nan")
        elif isnan(fl[0]):
            cls.append("nan-first")
    if len(set(nn)) < len(nn):
        cls.append("ties")
    if nn and len(nn) % 2 == 0:
        cls.append("even-median")
    for t in sorted(set(types)):
        cls.append("values-as-" + t)
        if t not in ("float", "int") and any(isnan(x) and tt == t for x, tt in zip(fl, types)):
            cls.append("nan-held-as-" + t)
    if len(set(types)) > 1:
        cls.append("values-of-several-types")
    return {"nt": len(fl) >= 2, "cls": cls}


def enum_operators(tier):
    alphabet = [NAN, -1, 0.5, 2.0]
    for typ in ("float", "float32", "float64", "float16", "longdouble", "int"):
        for n in range(0, (6 if typ in ("float", "float32") else 5) if tier == "quick" else 8):
            for t in itertools.product(alphabet, repeat=n):
                yield {"values": list(t), "types": typ} if typ != "float" else {"values": list(t)}


_OPTYPES = ["float", "float", "float64", "float32", "float32", "float16", "longdouble", "int"]


def _decode_operators(t):
    vals, mode, code = t
    case = {"values": [v for v, _ in vals]}
    if mode == 1:                                                # one numeric type for the whole list
        case["types"] = _OPTYPES[code % len(_OPTYPES)]
    elif mode == 2:                                              # one per value
        case["types"] = [_OPTYPES[c % len(_OPTYPES)] for _, c in vals]
    return case


def strat_operators():
    v = st.one_of(st.sampled_from(_VAL_BY_MODE[1]), st.integers(-1000, 1000).map(lambda k: k * 0.125))
    return st.tuples(st.lists(st.tuples(v, st.integers(0, 63)), max_size=14), st.sampled_from([0, 1, 1, 2]),
                     st.integers(0, 63)).map(_decode_operators)


RULE = ("summarize: Hypothesis collections of 1..4 tracks / 2..12 fixes whose bounding box is exactly [ox,ox+W]x[oy,oy+H] "
        "(W,H = whole or fractional numbers of cells), fix coordinates drawn from cell borders / cell centres / eighths of the "
        "extent / arbitrary floats, resolutions from {1,2.5,5,2,0.5,0.3,0.7,3.3}^2, margins {0,0.05,0.1,0.25,0.5}, feature values "
        "quarter-lattice numbers or NaN; the requested maps are a subset of the six aggregates of 'f' + uid count (+ 0..3 aggregates "
        "of a second feature 'g' when every track owns it) in ANY order (every permutation reachable; code 0 = the fixed order of "
        "the first version), 0..2 further computeAggregates() calls each followed by the complete judgement, and a feature "
        "layout per track out of 10 (creation orders of f / g / unrelated h, f removed and re-created); 0..3 'twins' (fix i moved by "
        "(sx, sy) off its generated border / corner / centre position, fix i+1 := fix i + (dx, dy), all offsets from {0, +-1e-6, +-3e-6, "
        "+-1e-5, +-3e-5, +-5e-5, +-9e-5}, clamped to the bounding box, anchors of the bounding box kept); unit of the picture "
        "{1 (4 in 7), 1e-3, 1e-5, 1e-6} applied to resolutions, extents and origin; numeric type of the feature values: all Python "
        "float (1 in 3), one type for the collection (1 in 3), per track and feature (1 in 3) out of float64 / float32 / "
        "float16 / longdouble / int. Non-trivial: grid has more than one cell and "
        "some cell receives two or more fixes. getcell: every half-cell lattice point of the data bounding box for a product of "
        "small grid configurations (enumerated) + generated queries; non-trivial: a query on a cell border. operators: every "
        "list of length <= 5 (quick) / 7 (thorough) over {NaN,-1,0.5,2}, handed over as Python floats and as float32 (further types: "
        "length <= 4 / 7) + generated lists up to 14 values with one numeric type per list or per value; getcell queries also in "
        "small units; non-trivial: two or "
        "more values. Distinct = hash of the case.")

SUBCHECKS = [
    SubCheck("summarize", body_summarize, strategy=strat_collection, quick=17000, thorough=600000, qshards=10,
             rule="collections through summarize(): footprint of every fix, conservation, requested aggregates per cell in any "
                  "request order, per-track feature layouts, aggregates recomputed"),
    SubCheck("getcell", body_getcell, strategy=strat_getcell, enum=enum_getcell, quick=8000, thorough=200000, qshards=4,
             rule="Raster.getCell footprint on half-cell lattices (enumerated) and generated queries"),
    SubCheck("operators", body_operators, strategy=strat_operators, enum=enum_operators, quick=8000, thorough=200000,
             qshards=4, rule="co_count/co_sum/co_min/co_max/co_avg/co_median against Python aggregates"),
]
