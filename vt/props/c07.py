"""C07 - a returned shortest path is a real, optimal, geometrically continuous route.
Oracle: Floyd-Warshall distance (vt/oracle.py) + a hop-by-hop matcher of the returned coordinate list against the
geometries of the edges that may carry each hop.  Case format, generator and network builder: vt/props/c06.py."""
from vt.core import SubCheck, Violation
from hypothesis import strategies as st

from vt.props.c06 import (INF, agree, astar_cases, build_network, edge_points, enum_small, expand_small, graph_cases, handle,
                          history_cases, how_labels, is_exact, model, run_history, _validate, _validate_astar, _validate_hist)

ASSUMPTIONS = [
    "oracle distance = Floyd-Warshall over arcs (src->tgt when orientation >= 0, tgt->src when orientation <= 0)",
    "networks are built the way NetworkReader builds them: every edge geometry runs stored source -> stored target, "
    "node positions are the geometry end points (so coincident nodes and interior vertices on a node are possible)",
    "source and target are handed over (independently, case field how of c06) as id, as the network's own Node object, as "
    "a Node(id, coord) constructed for the query, as the Node object created for a later edge row (not the one the network "
    "kept), or as the Node object of a twin network built from the same case and searched before: Node equality is id based "
    "and the signature says Union[int, Node], so each of them names the network's node and the same path is demanded",
    "any optimal route is accepted: the node list must be a permitted walk, and SOME choice of edges for its hops must "
    "have weight sum = true distance and chained geometries (each oriented along travel, first vertex dropped) equal "
    "to the returned coordinates exactly (coordinates are copied, never computed)",
    "nothing is demanded for target == source; weights compare exactly when all are multiples of 0.5, else 1e-9 relative",
    "astar sub-check: A* routing is judged only where its straight-line heuristic is admissible (astar weight <= 1, every "
    "edge weight >= distance between its end nodes); 1e-9 relative",
    "history / small-staged (program format and interpreter: c06.run_history): the property is taken to hold for a Network "
    "object at ANY moment of its life - after further addEdge / addNode calls and after interfering activity (distance "
    "queries, queries with cut-off, all_shortest_distances, prepare, sub_network extraction, searches on the sub-network, "
    "which shares Node and Edge objects with its parent). Every judged path is matched against Floyd-Warshall and the "
    "geometries of exactly the edges added so far; a path returned by a sub-network is judged against the edges that "
    "sub-network holds (read back with getEdgesId()); sub_network(mode='GEOMETRIC') only with a coordinate as source",
    "a rejected path of a history is asked again from a network built in one go from the same edges; if that one is "
    "accepted the key is 'answer-depends-on-history' (original key in the message). Network.run_routing_backward is wrapped "
    "on the tested object so that a cyclic predecessor chain (it would loop forever) is reported at once "
    "(key predecessor-chain-cyclic) instead of through the CPU budget of the case",
]


def _hop_candidates(case, u, v):
    """[(points oriented u->v, weight, stored_against_travel)] for every edge that may be traversed u->v"""
    out = []
    for e in case["edges"]:
        pts = edge_points(case, e)
        if e["src"] == u and e["tgt"] == v and e["ori"] >= 0:
            out.append((pts, e["w"], False))
        if e["tgt"] == u and e["src"] == v and e["ori"] <= 0:
            out.append((pts[::-1], e["w"], True))
    return out


def _coords(tr):
    return [[tr.getObs(i).position.getX(), tr.getObs(i).position.getY()] for i in range(tr.size())]


def check_path(case, net, s, t, D, exact):
    """returns None (nothing demanded / unreachable handled) or a set of labels describing the accepted path"""
    ids, pos = case["ids"], case["pos"]
    want = D[(s, t)]
    tr = net.shortest_path(handle(net, case, s), handle(net, case, t, "t"))
    name = "%s->%s" % (ids[s], ids[t])
    if want == INF:
        if tr is not None:
            raise Violation("path-for-unreachable", "%s: no permitted walk but a path %r is returned"
                            % (name, getattr(tr, "path", None)))
        return None
    if tr is None:
        raise Violation("no-path-for-reachable", "%s: true distance %r but shortest_path returns None" % (name, want))
    path = list(tr.path)
    if any(p not in ids for p in path) or not path:
        raise Violation("path-unknown-node", "%s: path %r" % (name, path))
    idx = [ids.index(p) for p in path]
    if idx[0] != s:
        if D[(s, idx[0])] == 0 and idx[-1] == t:          # a suffix of a route, cut where the distance becomes 0
            raise Violation("walkback-stops-at-zero-distance", "%s: path %r starts at %s (distance 0 from the source) "
                            "instead of the source" % (name, path, path[0]))
        raise Violation("path-start-wrong", "%s: path %r does not start at the source" % (name, path))
    if idx[-1] != t:
        raise Violation("path-end-wrong", "%s: path %r does not end at the target" % (name, path))
    xy = _coords(tr)
    if not xy or xy[0] != list(pos[s]):
        raise Violation("geometry-start-wrong", "%s: geometry starts at %r, source is at %r" % (name, xy[:1], pos[s]))
    if xy[-1] != list(pos[t]):
        raise Violation("geometry-end-wrong", "%s: geometry ends at %r, target is at %r" % (name, xy[-1:], pos[t]))
    # node list is a permitted walk; cheapest edge choice gives the true distance
    best = 0.0
    for u, v in zip(idx, idx[1:]):
        cands = _hop_candidates(case, u, v)
        if not cands:
            raise Violation("path-not-a-walk", "%s: path %r: no edge may be traversed %s->%s" % (name, path, ids[u], ids[v]))
        best += min(w for _, w, _ in cands)
    if not agree(best, want, exact):
        raise Violation("path-not-optimal", "%s: path %r costs at least %r, true distance %r" % (name, path, best, want))
    # geometry: states = {index of the last consumed coordinate: least accumulated weight}
    states = {0: 0.0}
    matched = []                       # per hop: candidates whose geometry fits at some live state
    for u, v in zip(idx, idx[1:]):
        nxt = {}
        fit = []
        for pts, w, rev in _hop_candidates(case, u, v):
            k = len(pts) - 1
            for i, acc in states.items():
                if xy[i + 1:i + 1 + k] == pts[1:]:
                    fit.append((w, rev, k))
                    if i + k not in nxt or acc + w < nxt[i + k]:
                        nxt[i + k] = acc + w
        states = nxt
        matched.append(fit)
        if not states:
            break
    last = len(xy) - 1
    if last not in states:
        raise Violation("geometry-not-edge-chain", "%s: path %r: coordinates %r are not the chained geometries of edges "
                        "joining these nodes (oriented along travel, junction vertices once)" % (name, path, xy))
    if not agree(states[last], want, exact):
        raise Violation("geometry-of-costlier-edges", "%s: path %r: the edges whose geometry is returned cost %r, true "
                        "distance %r" % (name, path, states[last], want))
    got = net.shortest_distance(handle(net, case, s), handle(net, case, t, "t"))
    if not agree(got, want, exact):
        raise Violation("distance-disagrees", "%s: shortest_distance = %r, path and oracle say %r" % (name, got, want))
    # labels for the non-trivial rule
    if len(idx) < 3:
        return {"single-hop"}
    labels = {"multi-hop"}
    for (u, v), fit in zip(zip(idx, idx[1:]), matched):
        cands = _hop_candidates(case, u, v)
        wmin = min(w for _, w, _ in cands)
        if any(rev for w, rev, _ in fit if w == wmin):
            labels.add("mh-against-storage")
        if wmin == 0:
            labels.add("mh-zero-weight")
        if len({w for _, w, _ in cands}) > 1:
            labels.add("mh-parallel-different-weight")
        if any(k > 1 for w, _, k in fit if w == wmin):
            labels.add("mh-interior-vertices")
    return labels


def body_graph(case):
    case = expand_small(case, geom=True)
    if case.get("astar") is not None:
        _validate_astar(case)
    else:
        _validate(case)
    n, arcs, D = model(case)
    if n == 1:
        return {"undef": True, "cls": ["single-node"]}
    exact = is_exact(case) and case.get("astar") is None
    net = build_network(case)
    labels = set()
    for s in range(n):
        for t in range(n):
            if s != t:
                r = check_path(case, net, s, t, D, exact)
                labels |= {"unreachable-pair"} if r is None else r
    return _finish(case, labels, exact, n)


def _finish(case, labels, exact, n):
    if len({tuple(p) for p in case["pos"]}) < n:
        labels.add("coincident-nodes")
    if case.get("abscurv"):
        labels.add("abs_curv-geometries")
    labels.add("exact-weights" if exact else "float-weights")
    labels.update(how_labels(case))
    if case.get("astar") is not None:
        labels.add("astar_wgt=%g" % case["astar"])
    nt = bool(labels & {"mh-against-storage", "mh-zero-weight", "mh-parallel-different-weight"})
    return {"nt": nt, "cls": sorted(labels)}


def body_history(case):
    """one Network object built in stages, paths judged between / after interfering activity (format: c06.run_history)"""
    _validate_hist(case)
    exact = is_exact(case) and case.get("astar") is None
    hlabels, judged, plabels, _ = run_history(case, path_judge=check_path)
    if not judged:
        return {"undef": True, "cls": ["no-judged-path"]}
    return _finish(case, set(hlabels) | set(plabels), exact, len(case["ids"]))


def body_small_staged(case):
    """the enumerated space built edge by edge on one object; after every addEdge all paths; then a sub-network is
    extracted around one node, a path is asked from another node, every path of the sub-network, every path of the network"""
    full = expand_small(case, geom=True)
    m = len(full["edges"])
    hist = [["all"]]
    for j in range(m):
        hist += [["add", 1], ["all"]]
    hist += [["sub", m, ["abs", 1.0], "TOPOLOGIC"], ["path", m + 1, m], ["suball"], ["all"]]
    full["hist"] = hist
    hlabels, judged, plabels, _ = run_history(full, path_judge=check_path)
    return _finish(full, set(hlabels) | set(plabels), True, 3)


def strat_history():
    return st.one_of(history_cases(geom=True, paths=True), history_cases(geom=True, paths=True),
                     history_cases(geom=True, paths=True), history_cases(geom=True, astar=True, paths=True))


def strat_paths():
    return graph_cases(geom=True, min_nodes=2)


def strat_astar():
    return astar_cases(geom=True)


RULE = ("paths: Hypothesis multigraphs of 1..12 nodes and 0..40 edges as for C06 (self-loops, parallel / anti-parallel edges, "
        "3 orientations, zero weights, exact and float weights) with 0..2 interior vertices per edge on a quarter lattice, "
        "node positions on an 8x8 lattice (coincidences allowed), with/without abs_curv; every ordered pair s != t through "
        "shortest_path, source and target handed over as id / own Node / fresh equal Node / Node of a later edge row / Node of "
        "a searched twin network (labels src-as=*, tgt-as=*; enumerated spaces: fixed function of the edge sequence). small: every edge sequence of length <= 2 (quick) / <= 3 (thorough) over 3 nodes, weights {0,1,2}, "
        "edge k carrying k%3 private interior vertices. Non-trivial: some returned path has >= 2 hops and a hop whose returned "
        "geometry is that of a cheapest edge stored against the direction of travel, or whose cheapest edge has zero weight, "
        "or that has parallel candidate edges of different weight. "
        "history: multigraphs of 2..8 nodes / <= 16 edges (1 in 4: A*, <= 10 nodes / 30 edges) as a program run on ONE Network "
        "object: edges added whole / prefix + rest / 2-4 groups / last 1-4 one by one, isolated nodes declared before, early "
        "or late; between the stages and at the end 0..3 segments of: a judged path query (one pair s != t, or all ordered "
        "pairs), an unjudged distance / list / table / prepare / cut-off query, or a sub_network extraction (TOPOLOGIC / "
        "GEOMETRIC) followed by 1..5 operations alternating between network and sub-network (paths of the sub-network are "
        "judged too) and a final single query. small-staged: the enumerated space built edge by edge with all paths after "
        "every addEdge, then sub_network around one node, a path query from another node, all paths of the sub-network, all "
        "paths of the network. Distinct = hash of the case.")

SUBCHECKS = [
    SubCheck("paths", body_graph, strategy=strat_paths, quick=4000, thorough=120000, qshards=12,
             rule="random multigraphs with geometries, all ordered pairs s != t"),
    SubCheck("astar", body_graph, strategy=strat_astar, quick=2500, thorough=80000, qshards=6,
             rule="A* routing method, weights >= straight-line distance of the end nodes (admissible heuristic), all ordered pairs s != t"),
    SubCheck("history", body_history, strategy=strat_history, quick=1200, thorough=60000, qshards=8,
             rule="one Network object built in stages with path queries between / after interfering activity (cut-off "
                  "queries, tables, prepare, sub_network extraction and searches on the sub-network); every judged path "
                  "against Floyd-Warshall and the geometries of the edges present at that time; 1 in 4 with A* routing"),
    SubCheck("small-staged", body_small_staged, enum=enum_small,
             rule="the enumerated space built edge by edge on one object: all paths after every addEdge, then a sub-network "
                  "searched between judged rounds", qshards=4),
    SubCheck("small", body_graph, enum=enum_small,
             rule="all graphs on 3 nodes with <= 2 (quick) / <= 3 (thorough) edges, weights {0,1,2}", qshards=4),
]
