"""C01 - the feature table stays aligned with the observations under any operation history.
Oracle: dict model name -> list, coordinates/timestamps snapshot; expression and operator results from
vt.exprs.evaluate.  A case is a JSON list of operations interpreted against the model inside the body (plus a pool of
expression templates with external variables that the operations evaluate repeatedly; the history may use two tracks)."""
import itertools

from hypothesis import strategies as st

from tracklib.core.operators import Operator
from tracklib.util.exceptions import AnalyticalFeatureError

from vt import exprs, gen
from vt.core import SubCheck, Violation, close, same
from vt.props.c02 import BINARY_VOID, NON_VOID, SCALAR_VOID, SHIFT_SCALAR, SHIFT_UNARY, UNARY_VOID, self_contained, shift_ref

ASSUMPTIONS = [
    "feature names from {a, b, c, k1}; values from {-2..3} and occasional NaN; tracks of 1..5 observations with distinct x, y, z, t",
    "create on an existing name is the documented no-op; operations whose arithmetic is undefined (vt.exprs.Undef) are not issued",
    "calls on a missing name are issued only for update / remove / item access, where AnalyticalFeatureError is the documented outcome",
    "expressions with external scalar variables (documented form operate('A=A/factor', {'factor': var})): a case carries a pool of <= 2 "
    "expression templates with externals k, w, factor; a history evaluates the same template repeatedly with different values (Python ints "
    "and floats); the values written are those of the dictionary passed to THAT call",
    "a history may run on two tracks of the same size (operation ['track', j] switches; the second one is fresh when first used); after "
    "every step the invariant is checked on both, so state shared between tracks or kept from an earlier call shows",
    "shift operator objects (SHIFT, SHIFT_REV, SHIFT_CIRCULAR, SHIFT_CIRCULAR_REV with integer k in -6..6, SHIFT_RIGHT/LEFT and circular "
    "forms) write the documented values y(t)=x(t-k) (NaN outside; circular: index modulo n); the output of a void operator is a drawn name "
    "(possibly the input itself) or omitted, which the docstring of Track.operate defines as the first input - issued only when that "
    "input is a real feature",
    "cases of one process share tracklib's class-level state on purpose; a violation is re-run after that state is put back to its "
    "import-time content: still failing = self-contained witness (plain key), else key + ':after-earlier-cases' (vt.props.c02.self_contained)",
]

FEATS = ["a", "b", "c", "k1"]
T0 = gen.ms_of_fields(2022, 5, 6, 7, 8, 9)
FUNCS = {"f_lin": lambda tr, i: 10.0 * i + 1.0, "f_x": lambda tr, i: tr.getObs(i).position.getX() * 2.0,
         "f_const": lambda tr, i: 0.5}


class Model:
    def __init__(self, n):
        self.n = n
        self.feat = {}
        self.x = [float(i) for i in range(n)]
        self.y = [10.0 + 2 * i for i in range(n)]
        self.z = [100.0 + 0.5 * i for i in range(n)]
        self.t = [T0 + 1000 * i for i in range(n)]

    def env(self):
        e = {"x": self.x, "y": self.y, "z": self.z, "t": [v / 1000.0 for v in self.t], "idx": [float(i) for i in range(self.n)]}
        e.update(self.feat)
        return e

    def vals(self, v):
        return [float(u) for u in v] if isinstance(v, list) else [float(v)] * self.n


def build(n):
    m = Model(n)
    tr = gen.make_track(list(zip(m.x, m.y, m.z)), m.t)
    return m, tr


def vec_ok(got, want, exact=True):
    if len(got) != len(want):
        return False
    for g, w in zip(got, want):
        try:
            ok = same(g, w) if exact else close(g, w, rel=1e-9, abs_=1e-9)
        except Exception:
            ok = False
        if not ok:
            return False
    return True


def invariant(m, tr, step, exact=True):
    listed = list(tr.getListAnalyticalFeatures())
    temps = [k for k in listed if k.startswith("#")]
    if temps:
        raise Violation("temp-left-listed", "after %s: evaluator temporaries %s stay listed" % (step, temps))
    if len(set(listed)) != len(listed) or set(listed) != set(m.feat):
        missing = sorted(set(m.feat) - set(listed))
        extra = sorted(set(listed) - set(m.feat))
        raise Violation("feature-removed" if missing else "feature-added",
                        "after %s: listed %s, written %s" % (step, listed, sorted(m.feat)))
    for i in range(tr.size()):
        k = len(tr.getObs(i).features)
        if k != len(listed):
            raise Violation("table-misaligned", "after %s: observation %d carries %d values for %d listed features" % (step, i, k, len(listed)))
    for name in listed:
        got = tr[name]
        if not vec_ok(got, m.feat[name], exact):
            raise Violation("read-differs-from-last-write", "after %s: %s reads %s, last written %s" % (step, name, got, m.feat[name]))
        for i in range(tr.size()):
            if not vec_ok([tr[name, i]], [m.feat[name][i]], exact) or not vec_ok([tr[i, name]], [m.feat[name][i]], exact):
                raise Violation("read-differs-from-last-write", "after %s: %s[%d] reads %s, last written %s" % (step, name, i, tr[name, i], m.feat[name][i]))
    for c, want in (("x", m.x), ("y", m.y), ("z", m.z)):
        got = tr.getAnalyticalFeature(c)
        if not vec_ok(got, want, exact):
            raise Violation("coordinate-changed", "after %s: %s reads %s, expected %s" % (step, c, got, want))
    ts = [gen.ms_of_obstime(tr.getObs(i).timestamp) for i in range(tr.size())]
    if ts != m.t:
        raise Violation("timestamp-changed", "after %s: timestamps changed" % (step,))
    if not exact:          # tolerant comparison passed: re-synchronise so that rounding does not accumulate
        for name in listed:
            m.feat[name] = [float(v) for v in tr[name]]
        m.x, m.y, m.z = tr.getX(), tr.getY(), tr.getZ()


def _src(m, name):
    """map a drawn source name onto something that exists in the current state"""
    if name in m.feat or name in ("x", "y", "z", "t", "idx"):
        return name
    keys = sorted(m.feat)
    return keys[(len(name) + ord(name[0])) % len(keys)] if keys else "idx"


def _remap(m, tree):
    if tree[0] == "n":
        return ["n", _src(m, tree[1])]
    if tree[0] in "le":
        return tree
    if tree[0] == "u":
        return ["u", _remap(m, tree[1])]
    if tree[0] == "f":
        return ["f", tree[1], _remap(m, tree[2])]
    return ["b", tree[1], _remap(m, tree[2]), _remap(m, tree[3])]


def _must_raise(fn, step):
    try:
        fn()
    except AnalyticalFeatureError:
        return
    raise Violation("missing-name-not-rejected", "%s on a missing feature did not raise AnalyticalFeatureError" % (step,))


def _out(m, src, dst, flags):
    """(arguments that name the output, effective output name): an omitted output (None) means the first input, and
    is issued only when that input is a real feature (a virtual one cannot be created); otherwise a name is given"""
    if dst is None and src not in m.feat:
        dst = "k1"
    if dst is None:
        flags.add("dst-omitted")
        return [], src
    if dst == src:
        flags.add("dst-is-input")
    return [dst], dst


def apply(m, tr, op, flags, ctx=None):
    """apply one operation to track and model; returns None when the operation was not issued, else whether
    the values written are exact.  ctx: {"pool": expression templates of the case, "seen": text -> externals of the
    earlier evaluations, "track": index of the current track}"""
    kind = op[0]
    exact = True
    ctx = ctx if ctx is not None else {"pool": [], "seen": {}, "track": 0}
    if kind == "create":
        name, val = op[1], op[2]
        tr.createAnalyticalFeature(name, list(val) if isinstance(val, list) else val)
        if name not in m.feat:
            m.feat[name] = m.vals(val)
        else:
            flags.add("create-existing")
    elif kind == "update":
        name, val = op[1], op[2]
        if name in m.feat:
            tr.updateAnalyticalFeature(name, list(val) if isinstance(val, list) else val)
            m.feat[name] = m.vals(val)
        else:
            _must_raise(lambda: tr.updateAnalyticalFeature(name, val), op)
            flags.add("missing-name")
    elif kind == "remove":
        name = op[1]
        if name in m.feat:
            order = list(tr.getListAnalyticalFeatures())
            if order and order[-1] != name:
                flags.add("delete-not-last")
            flags.add("delete")
            tr.removeAnalyticalFeature(name)
            del m.feat[name]
        else:
            _must_raise(lambda: tr.removeAnalyticalFeature(name), op)
            flags.add("missing-name")
    elif kind == "set":          # bracket assignment of a whole feature
        name, val = op[1], op[2]
        tr[name] = list(val) if isinstance(val, list) else val
        m.feat[name] = m.vals(val)
    elif kind == "del":          # bracket deletion
        name = op[1]
        if name in m.feat:
            order = list(tr.getListAnalyticalFeatures())
            if order and order[-1] != name:
                flags.add("delete-not-last")
            flags.add("delete")
            tr[name] = "#DELETE"
            del m.feat[name]
        else:
            def f():
                tr[name] = "#DELETE"
            _must_raise(f, op)
            flags.add("missing-name")
    elif kind == "seti":
        name, i, v, swap = op[1], op[2] % m.n, float(op[3]), op[4]
        if name in m.feat or name in ("x", "y", "z"):
            if swap:
                tr[i, name] = v
            else:
                tr[name, i] = v
            (m.feat[name] if name in m.feat else getattr(m, name))[i] = v
        else:
            def f():
                tr[name, i] = v
            _must_raise(f, op)
            flags.add("missing-name")
    elif kind == "addaf":
        name, fid = op[1], op[2]
        tr.addAnalyticalFeature(FUNCS[fid], name)
        m.feat[name] = [float(FUNCS[fid](tr, i)) for i in range(m.n)]
    elif kind in ("op_uv", "op_bv", "op_sv", "op_nv"):
        if kind == "op_uv":
            tree = ["f", op[1], ["n", _src(m, op[2])]]
            dst = op[3]
        elif kind == "op_nv":
            tree = ["f", op[1], ["n", _src(m, op[2])]]
            dst = None
        elif kind == "op_bv":
            tree = ["b", op[1], ["n", _src(m, op[2])], ["n", _src(m, op[3])]]
            dst = op[4]
        else:
            tree = ["b", op[1], ["n", _src(m, op[2])], ["l", op[3]]]
            dst = op[4]
        try:
            ref = exprs.evaluate(tree, m.env(), m.n)
        except exprs.Undef:
            return None
        if kind == "op_nv":
            tr.operate(getattr(Operator, NON_VOID[op[1]]), tree[2][1])
        else:
            out, dst = _out(m, tree[2][1], dst, flags)
            if kind == "op_uv":
                tr.operate(getattr(Operator, UNARY_VOID[op[1]]), tree[2][1], *out)
            elif kind == "op_bv":
                tr.operate(getattr(Operator, BINARY_VOID[op[1]]), tree[2][1], tree[3][1], *out)
            else:
                tr.operate(getattr(Operator, SCALAR_VOID[op[1]]), tree[2][1], op[3], *out)
            m.feat[dst] = list(ref.vec)
            exact = ref.exact
        flags.add("operator")
    elif kind in ("op_su", "op_sh"):        # shift operator objects: ["op_su", NAME, src, dst] / ["op_sh", NAME, src, k, dst]
        src = _src(m, op[2])
        val = exprs.evaluate(["n", src], m.env(), m.n)
        out, dst = _out(m, src, op[-1], flags)
        if kind == "op_su":
            tr.operate(getattr(Operator, op[1]), src, *out)
            m.feat[dst] = shift_ref(op[1], val.vec)
        else:
            tr.operate(getattr(Operator, op[1]), src, int(op[3]), *out)
            m.feat[dst] = shift_ref(op[1], val.vec, int(op[3]))
        exact = val.exact
        flags.add("operator")
        flags.add("shift")
        if dst == src:
            flags.add("shift-in-place")
    elif kind == "expr":
        lhs, tree = op[1], _remap(m, op[2])
        try:
            ref = exprs.evaluate(tree, m.env(), m.n)
        except exprs.Undef:
            return None
        s = exprs.render(tree)
        if op[3]:
            s = s.replace("+", " + ").replace("<", " < ")
        if lhs is None:
            tr.operate(s)
        else:
            tr.operate(lhs + "=" + s)
            if lhs in ("x", "y", "z"):
                setattr(m, lhs, list(ref.vec))
            else:
                m.feat[lhs] = list(ref.vec)
            exact = ref.exact
        flags.add("expr")
        if "delete" in flags:
            flags.add("expr-after-delete")
    elif kind == "exprx":        # ["exprx", index into the pool of templates, {external: value}]
        if not ctx["pool"]:
            return None
        lhs, tree, spaced = ctx["pool"][op[1] % len(ctx["pool"])]
        tree = _remap(m, tree)
        ext = dict(op[2])
        env = m.env()
        env.update(ext)
        try:
            ref = exprs.evaluate(tree, env, m.n)
        except exprs.Undef:
            return None
        s = exprs.render(tree)
        if spaced:
            s = s.replace("+", " + ").replace("<", " < ")
        s = s if lhs is None else lhs + "=" + s
        tr.operate(s, dict(ext))
        if lhs is not None:
            if lhs in ("x", "y", "z"):
                setattr(m, lhs, list(ref.vec))
            else:
                m.feat[lhs] = list(ref.vec)
            exact = ref.exact
        flags.add("ext-expr")
        used = sorted((k, float(ext[k])) for k in exprs.externals_of(tree))
        for vals, j in ctx["seen"].get(s, []):
            if vals != used:
                flags.add("ext-repeat-other-value")
                flags.add("ext-repeat-other-value-" + ("same-track" if j == ctx["track"] else "other-track"))
        ctx["seen"].setdefault(s, []).append((used, ctx["track"]))
        if "delete" in flags:
            flags.add("expr-after-delete")
    else:
        raise ValueError(op)
    return exact


@self_contained
def body_history(case):
    n = case["n"]
    tracks = {0: build(n)}
    cur = 0
    ctx = {"pool": case.get("pool") or [], "seen": {}, "track": 0}
    flags = set()
    deleted = {0: set(), 1: set()}
    recreated = False
    issued = 0
    for k, op in enumerate(case["ops"]):
        if op[0] == "track":           # switch to the other track (fresh when first used)
            cur = int(op[1]) % 2
            if cur not in tracks:
                tracks[cur] = build(n)
            ctx["track"] = cur
            if len(tracks) > 1:
                flags.add("two-tracks")
            continue
        m, tr = tracks[cur]
        before = set(m.feat)
        exact = apply(m, tr, op, flags, ctx)
        if exact is None:
            continue
        issued += 1
        step = "step %d %s" % (k, op)
        invariant(m, tr, step, exact)
        for j in sorted(tracks):
            if j != cur:
                invariant(tracks[j][0], tracks[j][1], step + " [on the other track]", True)
        gone = before - set(m.feat)
        deleted[cur] |= gone
        if (set(m.feat) - before) & deleted[cur]:
            recreated = True
    nt = ("delete-not-last" in flags) or recreated or ("expr-after-delete" in flags)
    cls = sorted(flags) + (["recreate"] if recreated else []) + ["len-%d" % min(10 * (issued // 10), 30)]
    return {"nt": nt, "cls": cls}


# ----------------------------------------------------------------------------------------------
def strat_history(max_ops=30):
    names = st.sampled_from(FEATS)
    srcs = st.sampled_from(FEATS + ["x", "y", "z", "idx"])

    def vals(n):
        v = st.one_of(*[st.sampled_from(exprs.VALUES)] * 9, st.just(float("nan")))
        return st.one_of(st.sampled_from(exprs.VALUES), st.lists(v, min_size=n, max_size=n))

    # output of a void operator: a drawn name (may be the input itself) or omitted (= first input)
    dsts = st.one_of(names, names, names, st.none())
    ext = exprs.ext_values(exprs.EXTERNALS)

    def ops(n):
        tree = exprs.trees(FEATS + ["x", "y", "z", "idx"], max_depth=3, max_ops=4)
        return st.one_of(
            st.tuples(st.just("create"), names, vals(n)),
            st.tuples(st.just("create"), names, vals(n)),
            st.tuples(st.just("update"), names, vals(n)),
            st.tuples(st.just("remove"), names),
            st.tuples(st.just("remove"), names),
            st.tuples(st.just("set"), names, vals(n)),
            st.tuples(st.just("del"), names),
            st.tuples(st.just("seti"), st.sampled_from(FEATS + FEATS + ["x", "y", "z"]), st.integers(0, 4), st.sampled_from(exprs.VALUES), st.booleans()),
            st.tuples(st.just("addaf"), names, st.sampled_from(sorted(FUNCS))),
            st.tuples(st.just("op_uv"), st.sampled_from(sorted(UNARY_VOID)), srcs, dsts),
            st.tuples(st.just("op_bv"), st.sampled_from(sorted(BINARY_VOID)), srcs, srcs, dsts),
            st.tuples(st.just("op_sv"), st.sampled_from(sorted(SCALAR_VOID)), srcs, st.sampled_from(exprs.LITERALS), dsts),
            st.tuples(st.just("op_nv"), st.sampled_from(sorted(NON_VOID)), srcs),
            st.tuples(st.just("op_su"), st.sampled_from(sorted(SHIFT_UNARY)), srcs, dsts),
            st.tuples(st.just("op_sh"), st.sampled_from(sorted(SHIFT_SCALAR)), srcs, st.integers(-6, 6), dsts),
            st.tuples(st.just("expr"), st.sampled_from(FEATS + ["x", "y", "z"]), tree, st.booleans()),
            st.tuples(st.just("expr"), st.sampled_from(FEATS), tree, st.booleans()),
            st.tuples(st.just("expr"), st.none(), tree, st.booleans()),
            st.tuples(st.just("exprx"), st.integers(0, 1), ext),
            st.tuples(st.just("exprx"), st.integers(0, 1), ext),
            st.tuples(st.just("exprx"), st.integers(0, 1), ext),
            st.tuples(st.just("exprx"), st.integers(0, 1), ext),
            st.tuples(st.just("exprx"), st.integers(0, 1), ext),
            st.tuples(st.just("track"), st.integers(0, 1)),
            st.tuples(st.just("track"), st.integers(0, 1)),
        ).map(list)

    # templates with externals: [lhs | None, tree, blanks?]; the same template is evaluated again and again in a history
    def with_external(t):        # every template has at least one external: (tree, op, external, on the left?)
        tree, op, name, left = t
        if exprs.externals_of(tree):
            return tree
        return ["b", op, ["e", name], tree] if left else ["b", op, tree, ["e", name]]

    xtree = st.tuples(exprs.trees(FEATS + ["x", "y", "z", "idx"], max_depth=3, max_ops=3, externals=exprs.EXTERNALS),
                      st.sampled_from(exprs.BINOPS), st.sampled_from(exprs.EXTERNALS), st.booleans()).map(with_external)
    template = st.tuples(st.sampled_from(FEATS + FEATS + ["x", "y", "z", None]), xtree, st.booleans()).map(list)
    pool = st.lists(template, min_size=1, max_size=2)

    return st.tuples(st.integers(1, 5), st.integers(1, max_ops), pool).flatmap(
        lambda nk: st.lists(ops(nk[0]), min_size=nk[1], max_size=nk[1]).map(lambda o: {"n": nk[0], "ops": o, "pool": nk[2]}))


# --- exhaustive: every sequence of <= 4 of 12 concrete operations on a 2-fix track -----------------
CONCRETE = [
    ["create", "a", [1.0, 2.0]], ["create", "b", [3.0, 0.5]], ["create", "c", -1.0],
    ["remove", "a"], ["remove", "b"], ["del", "c"],
    ["set", "a", [2.0, -2.0]], ["set", "b", 0.5],
    ["expr", "c", ["b", "+", ["n", "a"], ["n", "b"]], False],
    ["expr", "a", ["b", "*", ["n", "b"], ["l", 2]], False],
    ["expr", "b", ["l", 5], False],
    ["expr", None, ["b", "+", ["n", "a"], ["n", "b"]], False],
    ["exprx", 0, {"k": 2}], ["exprx", 0, {"k": 0.5}],          # the same text "b=a*k" with two values of the external
    ["op_su", "SHIFT_RIGHT", "a", None],                       # shift written over its input (omitted output)
]
CONCRETE_POOL = [["b", ["b", "*", ["n", "a"], ["e", "k"]], False]]


def enum_histories(tier):
    depth = 4 if tier == "thorough" else 3
    for d in range(1, depth + 1):
        for seq in itertools.product(range(len(CONCRETE)), repeat=d):
            yield {"n": 2, "ops": [CONCRETE[i] for i in seq], "pool": CONCRETE_POOL}


RULE = ("bfs: every sequence of length <= 3 (quick) / <= 4 (thorough) over 15 concrete create/delete/overwrite/expression operations "
        "(two of them the same external-variable expression with different values, one a shift written over its input) on a "
        "2-fix track; random: Hypothesis lists of <= 30 (quick) / <= 50 (thorough) operations (create, update, remove, bracket set/delete/item, "
        "addAnalyticalFeature, unary/binary/scalar/non-void and shift operator objects with virtual sources and the output a drawn name, the "
        "source itself or omitted, expressions with and without '=', expressions from a per-case pool of <= 2 templates with external scalar "
        "variables evaluated with a freshly drawn dictionary each time, switches between two tracks) on tracks of 1..5 fixes, invariant "
        "checked on every track after every step. Non-trivial: the history deletes a feature that is not the "
        "last created, or deletes and recreates a name, or evaluates an expression after a delete. Distinct = hash of the case.")

# coverage-guided stage of the thorough tier (vt/fuzz.py): sub-check -> libFuzzer executions
FUZZ = {'random_histories': 8000}

SUBCHECKS = [
    SubCheck("bfs", body_history, enum=enum_histories, rule="all short histories", qshards=8),
    SubCheck("random_histories", body_history, strategy=lambda: strat_history(30), quick=1500, thorough=40000),
    SubCheck("long_histories", body_history, strategy=lambda: strat_history(50), quick=300, thorough=16000),
]
