"""C01 - the feature table stays aligned with the observations under any operation history.
Oracle: dict model name -> list, coordinates/timestamps snapshot; expression and operator results from
vt.exprs.evaluate.  A case is a JSON list of operations interpreted against the model inside the body (plus a pool of
expression templates with external variables that the operations evaluate repeatedly; the history may use two tracks,
the coordinate class of the positions is a case field, and operations that copy observations / derive tracks are part
of the history)."""
import itertools

from hypothesis import strategies as st

from tracklib.core.operators import Operator
from tracklib.util.exceptions import AnalyticalFeatureError

from vt import exprs, gen
from vt.core import SubCheck, Violation, close, same
from vt.props.c02 import (BINARY_VOID, COORDS, GETTERS, NON_VOID, SCALAR_VOID, SHIFT_SCALAR, SHIFT_UNARY, UNARY_VOID, coord_valid,
                          coord_views, make_track, self_contained, shift_ref)

ASSUMPTIONS = [
    "feature names from {a, b, c, k1}; values from {-2..3} and occasional NaN; tracks of 1..5 observations with distinct x, y, z, t "
    "(a track may grow to 8 observations through added copies; list initialisers drawn for the initial size are fitted cyclically to the "
    "current size)",
    "coordinate class of the track is a case field: ENUCoords, GeoCoords or ECEFCoords; x, y, z are the three stored components of the class "
    "(no geodesy involved), read back through Track.getX/getY/getZ, Obs.position.getX/getY/getZ and the virtual features 'x' 'y' 'z'; a "
    "coordinate assignment / item write is issued on a GeoCoords track only when every value is finite with |lon| <= 180, |lat| <= 90",
    "provenance of the observations is part of the history: Track.loop(add=True) (appends a copy of the first observation), addObs / "
    "insertObs(obs, i) of Obs.copy() of an observation of the same track (or of the other track when both list the same <= 1 feature names, so "
    "that the column layout is the same by contract), and tracks derived from the current one with extractSpanTime(t_i, t_j) (bounds in "
    "either order) or Track.copy(), on which the history may continue while the source stays alive.  Read off the unchanged tree: Obs.copy "
    "and Track.copy are deep copies and extractSpanTime fills a new track with Obs.copy() of the observations in the span plus a copy of the "
    "name->column table, so a copied observation starts with the values of its source at that moment and shares nothing with it afterwards; "
    "source and derived track are both judged against their own model after every step.  Track.extract(i, j) and slices hand over the SAME "
    "observation objects (sharing is their behaviour) and are not part of the domain",
    "create on an existing name is the documented no-op; operations whose arithmetic is undefined (vt.exprs.Undef) are not issued",
    "calls on a missing name are issued only for update / remove / item access, where AnalyticalFeatureError is the documented outcome",
    "expressions with external scalar variables (documented form operate('A=A/factor', {'factor': var})): a case carries a pool of <= 2 "
    "expression templates with externals k, w, factor; a history evaluates the same template repeatedly with different values (Python ints "
    "and floats); the values written are those of the dictionary passed to THAT call",
    "a history may run on two tracks of the same size (operation ['track', j] switches; the second one is fresh when first used); after "
    "every step the invariant is checked on both, so state shared between tracks or kept from an earlier call shows",
    "shift operator objects (SHIFT, SHIFT_REV, SHIFT_CIRCULAR, SHIFT_CIRCULAR_REV with integer k in -6..6, SHIFT_RIGHT/LEFT and circular "
    "forms) write the documented values y(t)=x(t-k) (NaN outside; circular: index modulo n); the output of a void operator is a drawn name "
    "(possibly the input itself) or omitted, which the docstring of Track.operate defines as the first input - issued only when that "
    "input is a real feature",
    "cases of one process share tracklib's class-level state on purpose; a violation is re-run after that state is put back to its "
    "import-time content: still failing = self-contained witness (plain key), else key + ':after-earlier-cases' (vt.props.c02.self_contained)",
]

FEATS = ["a", "b", "c", "k1"]
T0 = gen.ms_of_fields(2022, 5, 6, 7, 8, 9)
FUNCS = {"f_lin": lambda tr, i: 10.0 * i + 1.0, "f_x": lambda tr, i: tr.getObs(i).position.getX() * 2.0,
         "f_const": lambda tr, i: 0.5}


MAXN = 8          # observations a track may grow to through loop(add=True) / added copies of observations


class Model:
    """what the history has written: coordinates, timestamps and features per observation (lists of equal length)"""

    def __init__(self, n, coords="ENU"):
        self.coords = coords
        self.feat = {}              # name -> values; insertion order = order of creation
        self.x = [float(i) for i in range(n)]
        self.y = [10.0 + 2 * i for i in range(n)]
        self.z = [100.0 + 0.5 * i for i in range(n)]
        self.t = [T0 + 1000 * i for i in range(n)]
        self.copies = False         # the track holds observations that came through Obs.copy()

    @property
    def n(self):
        return len(self.t)

    def env(self):
        e = {"x": self.x, "y": self.y, "z": self.z, "t": [v / 1000.0 for v in self.t], "idx": [float(i) for i in range(self.n)]}
        e.update(self.feat)
        return e

    def arg(self, v):
        """the initialiser handed to tracklib: a list drawn for the initial size is fitted (cyclically) to the current size"""
        return [v[i % len(v)] for i in range(self.n)] if isinstance(v, list) else v

    def vals(self, v):
        return [float(u) for u in self.arg(v)] if isinstance(v, list) else [float(v)] * self.n

    def record(self, i):
        return (self.x[i], self.y[i], self.z[i], self.t[i], {k: v[i] for k, v in self.feat.items()})

    def insert(self, j, rec):
        self.x.insert(j, rec[0])
        self.y.insert(j, rec[1])
        self.z.insert(j, rec[2])
        self.t.insert(j, rec[3])
        for k in self.feat:
            self.feat[k].insert(j, rec[4][k])

    def subset(self, idx, copies=True):
        """independent model of the observations idx (same coordinate class, same features in the same order)"""
        m = Model(0, self.coords)
        m.x, m.y, m.z, m.t = ([v[i] for i in idx] for v in (self.x, self.y, self.z, self.t))
        m.feat = {k: [v[i] for i in idx] for k, v in self.feat.items()}
        m.copies = copies
        return m


def build(n, coords="ENU"):
    m = Model(n, coords)
    tr = make_track(list(zip(m.x, m.y, m.z)), m.t, coords)
    return m, tr


def vec_ok(got, want, exact=True):
    if len(got) != len(want):
        return False
    for g, w in zip(got, want):
        try:
            ok = same(g, w) if exact else close(g, w, rel=1e-9, abs_=1e-9)
        except Exception:
            ok = False
        if not ok:
            return False
    return True


def invariant(m, tr, step, exact=True):
    listed = list(tr.getListAnalyticalFeatures())
    temps = [k for k in listed if k.startswith("#")]
    if temps:
        raise Violation("temp-left-listed", "after %s: evaluator temporaries %s stay listed" % (step, temps))
    if len(set(listed)) != len(listed) or set(listed) != set(m.feat):
        missing = sorted(set(m.feat) - set(listed))
        extra = sorted(set(listed) - set(m.feat))
        raise Violation("feature-removed" if missing else "feature-added",
                        "after %s: listed %s, written %s" % (step, listed, sorted(m.feat)))
    if tr.size() != m.n:
        raise Violation("size-changed", "after %s: the track has %d observations, expected %d" % (step, tr.size(), m.n))
    for i in range(tr.size()):
        k = len(tr.getObs(i).features)
        if k != len(listed):
            raise Violation("table-misaligned", "after %s: observation %d carries %d values for %d listed features" % (step, i, k, len(listed)))
    for name in listed:
        got = tr[name]
        if not vec_ok(got, m.feat[name], exact):
            raise Violation("read-differs-from-last-write", "after %s: %s reads %s, last written %s" % (step, name, got, m.feat[name]))
        for i in range(tr.size()):
            if not vec_ok([tr[name, i]], [m.feat[name][i]], exact) or not vec_ok([tr[i, name]], [m.feat[name][i]], exact):
                raise Violation("read-differs-from-last-write", "after %s: %s[%d] reads %s, last written %s" % (step, name, i, tr[name, i], m.feat[name][i]))
    for c, want in (("x", m.x), ("y", m.y), ("z", m.z)):
        for label, got in coord_views(tr, c):          # track.getX(), position.getX(), feature 'x'
            if not vec_ok(got, want, exact):
                raise Violation("coordinate-changed", "after %s on %s positions: %s reads %s, expected %s" % (step, m.coords, label, got, want))
    ts = [gen.ms_of_obstime(tr.getObs(i).timestamp) for i in range(tr.size())]
    if ts != m.t:
        raise Violation("timestamp-changed", "after %s: timestamps changed" % (step,))
    if not exact:          # tolerant comparison passed: re-synchronise so that rounding does not accumulate
        for name in listed:
            m.feat[name] = [float(v) for v in tr[name]]
        m.x, m.y, m.z = tr.getX(), tr.getY(), tr.getZ()


def _src(m, name):
    """map a drawn source name onto something that exists in the current state"""
    if name in m.feat or name in ("x", "y", "z", "t", "idx"):
        return name
    keys = sorted(m.feat)
    return keys[(len(name) + ord(name[0])) % len(keys)] if keys else "idx"


def _remap(m, tree):
    if tree[0] == "n":
        return ["n", _src(m, tree[1])]
    if tree[0] in "le":
        return tree
    if tree[0] == "u":
        return ["u", _remap(m, tree[1])]
    if tree[0] == "f":
        return ["f", tree[1], _remap(m, tree[2])]
    return ["b", tree[1], _remap(m, tree[2]), _remap(m, tree[3])]


def _must_raise(fn, step):
    try:
        fn()
    except AnalyticalFeatureError:
        return
    raise Violation("missing-name-not-rejected", "%s on a missing feature did not raise AnalyticalFeatureError" % (step,))


def _out(m, src, dst, flags):
    """(arguments that name the output, effective output name): an omitted output (None) means the first input, and
    is issued only when that input is a real feature (a virtual one cannot be created); otherwise a name is given"""
    if dst is None and src not in m.feat:
        dst = "k1"
    if dst is None:
        flags.add("dst-omitted")
        return [], src
    if dst == src:
        flags.add("dst-is-input")
    return [dst], dst


def apply(m, tr, op, flags, ctx=None):
    """apply one operation to track and model; returns None when the operation was not issued, else whether
    the values written are exact.  ctx: {"pool": expression templates of the case, "seen": text -> externals of the
    earlier evaluations, "track": index of the current track}"""
    kind = op[0]
    exact = True
    ctx = ctx if ctx is not None else {"pool": [], "seen": {}, "track": 0}
    if kind == "create":
        name, val = op[1], op[2]
        tr.createAnalyticalFeature(name, m.arg(val))
        if name not in m.feat:
            m.feat[name] = m.vals(val)
        else:
            flags.add("create-existing")
    elif kind == "update":
        name, val = op[1], op[2]
        if name in m.feat:
            tr.updateAnalyticalFeature(name, m.arg(val))
            m.feat[name] = m.vals(val)
        else:
            _must_raise(lambda: tr.updateAnalyticalFeature(name, val), op)
            flags.add("missing-name")
    elif kind == "remove":
        name = op[1]
        if name in m.feat:
            order = list(tr.getListAnalyticalFeatures())
            if order and order[-1] != name:
                flags.add("delete-not-last")
            flags.add("delete")
            tr.removeAnalyticalFeature(name)
            del m.feat[name]
        else:
            _must_raise(lambda: tr.removeAnalyticalFeature(name), op)
            flags.add("missing-name")
    elif kind == "set":          # bracket assignment of a whole feature
        name, val = op[1], op[2]
        tr[name] = m.arg(val)
        m.feat[name] = m.vals(val)
    elif kind == "del":          # bracket deletion
        name = op[1]
        if name in m.feat:
            order = list(tr.getListAnalyticalFeatures())
            if order and order[-1] != name:
                flags.add("delete-not-last")
            flags.add("delete")
            tr[name] = "#DELETE"
            del m.feat[name]
        else:
            def f():
                tr[name] = "#DELETE"
            _must_raise(f, op)
            flags.add("missing-name")
    elif kind == "seti":
        name, i, v, swap = op[1], op[2] % m.n, float(op[3]), op[4]
        if name in ("x", "y", "z") and not coord_valid(m.coords, name, [v]):
            return None
        if name in m.feat or name in ("x", "y", "z"):
            if name not in m.feat:
                flags.add("coord-write")
                flags.add("coord-write-" + m.coords)
            if swap:
                tr[i, name] = v
            else:
                tr[name, i] = v
            (m.feat[name] if name in m.feat else getattr(m, name))[i] = v
        else:
            def f():
                tr[name, i] = v
            _must_raise(f, op)
            flags.add("missing-name")
    elif kind == "addaf":
        name, fid = op[1], op[2]
        tr.addAnalyticalFeature(FUNCS[fid], name)
        m.feat[name] = [float(FUNCS[fid](tr, i)) for i in range(m.n)]
    elif kind in ("op_uv", "op_bv", "op_sv", "op_nv"):
        if kind == "op_uv":
            tree = ["f", op[1], ["n", _src(m, op[2])]]
            dst = op[3]
        elif kind == "op_nv":
            tree = ["f", op[1], ["n", _src(m, op[2])]]
            dst = None
        elif kind == "op_bv":
            tree = ["b", op[1], ["n", _src(m, op[2])], ["n", _src(m, op[3])]]
            dst = op[4]
        else:
            tree = ["b", op[1], ["n", _src(m, op[2])], ["l", op[3]]]
            dst = op[4]
        try:
            ref = exprs.evaluate(tree, m.env(), m.n)
        except exprs.Undef:
            return None
        if kind == "op_nv":
            tr.operate(getattr(Operator, NON_VOID[op[1]]), tree[2][1])
        else:
            out, dst = _out(m, tree[2][1], dst, flags)
            if kind == "op_uv":
                tr.operate(getattr(Operator, UNARY_VOID[op[1]]), tree[2][1], *out)
            elif kind == "op_bv":
                tr.operate(getattr(Operator, BINARY_VOID[op[1]]), tree[2][1], tree[3][1], *out)
            else:
                tr.operate(getattr(Operator, SCALAR_VOID[op[1]]), tree[2][1], op[3], *out)
            m.feat[dst] = list(ref.vec)
            exact = ref.exact
        flags.add("operator")
    elif kind in ("op_su", "op_sh"):        # shift operator objects: ["op_su", NAME, src, dst] / ["op_sh", NAME, src, k, dst]
        src = _src(m, op[2])
        val = exprs.evaluate(["n", src], m.env(), m.n)
        out, dst = _out(m, src, op[-1], flags)
        if kind == "op_su":
            tr.operate(getattr(Operator, op[1]), src, *out)
            m.feat[dst] = shift_ref(op[1], val.vec)
        else:
            tr.operate(getattr(Operator, op[1]), src, int(op[3]), *out)
            m.feat[dst] = shift_ref(op[1], val.vec, int(op[3]))
        exact = val.exact
        flags.add("operator")
        flags.add("shift")
        if dst == src:
            flags.add("shift-in-place")
    elif kind == "expr":
        lhs, tree = op[1], _remap(m, op[2])
        # optional 5th element: the augmented spelling  lhs op= rhs  (documented meaning lhs = lhs op (rhs)) when lhs exists
        aug = op[4] if len(op) > 4 and lhs is not None and (lhs in m.feat or lhs in ("x", "y", "z")) else None
        try:
            ref = exprs.evaluate(["b", aug, ["n", lhs], tree] if aug else tree, m.env(), m.n)
        except exprs.Undef:
            return None
        if lhs in ("x", "y", "z") and not coord_valid(m.coords, lhs, ref.vec):
            return None              # not a value the coordinate class can hold
        s = exprs.render(tree)
        if op[3]:
            s = s.replace("+", " + ").replace("<", " < ")
        if lhs is None:
            tr.operate(s)
        else:
            tr.operate(lhs + (aug or "") + "=" + s)
            if aug:
                flags.add("expr-augmented")
            if lhs in ("x", "y", "z"):
                setattr(m, lhs, list(ref.vec))
                flags.add("coord-assign")
                flags.add("coord-assign-" + m.coords)
            else:
                m.feat[lhs] = list(ref.vec)
            exact = ref.exact
        flags.add("expr")
        if "delete" in flags:
            flags.add("expr-after-delete")
    elif kind == "exprx":        # ["exprx", index into the pool of templates, {external: value}]
        if not ctx["pool"]:
            return None
        lhs, tree, spaced = ctx["pool"][op[1] % len(ctx["pool"])]
        tree = _remap(m, tree)
        ext = dict(op[2])
        env = m.env()
        env.update(ext)
        try:
            ref = exprs.evaluate(tree, env, m.n)
        except exprs.Undef:
            return None
        if lhs in ("x", "y", "z") and not coord_valid(m.coords, lhs, ref.vec):
            return None
        s = exprs.render(tree)
        if spaced:
            s = s.replace("+", " + ").replace("<", " < ")
        s = s if lhs is None else lhs + "=" + s
        tr.operate(s, dict(ext))
        if lhs is not None:
            if lhs in ("x", "y", "z"):
                setattr(m, lhs, list(ref.vec))
                flags.add("coord-assign")
                flags.add("coord-assign-" + m.coords)
            else:
                m.feat[lhs] = list(ref.vec)
            exact = ref.exact
        flags.add("ext-expr")
        used = sorted((k, float(ext[k])) for k in exprs.externals_of(tree))
        for vals, j in ctx["seen"].get(s, []):
            if vals != used:
                flags.add("ext-repeat-other-value")
                flags.add("ext-repeat-other-value-" + ("same-track" if j == ctx["track"] else "other-track"))
        ctx["seen"].setdefault(s, []).append((used, ctx["track"]))
        if "delete" in flags:
            flags.add("expr-after-delete")
    else:
        raise ValueError(op)
    return exact


def provenance(tracks, cur, op, flags):
    """operations that change where the observations of a track come from (none of them is a feature operation; what
    each does is read off the unchanged tree: Obs.copy / Track.copy are deep copies, extractSpanTime returns copies of
    the observations in the span with its own name->column table, so a derived track shares nothing with its source).
    Returns None when not issued, else the index of the track the history continues on."""
    m, tr = tracks[cur]
    kind = op[0]
    if kind == "loop":               # Track.loop(add=True) appends a copy of the first observation
        if m.n >= MAXN:
            return None
        tr.loop(add=True)
        m.insert(m.n, m.record(0))
        m.copies = True
        flags.add("prov-loop")
        return cur
    if kind == "dup":                # ["dup", i, j, other?, how]: obs.copy() of observation i added / inserted at j
        if m.n >= MAXN:
            return None
        sm, str_ = m, tr
        if op[3] and (1 - cur) in tracks:
            # an observation of the other track fits when both tracks list the same <= 1 feature names (then the column
            # layout is the same whatever order the columns were created in); otherwise it is taken from this track
            om = tracks[1 - cur][0]
            if len(m.feat) <= 1 and sorted(om.feat) == sorted(m.feat):
                sm, str_ = tracks[1 - cur]
        i = op[1] % sm.n
        rec = sm.record(i)
        obs = (str_[i] if op[4] % 2 else str_.getObs(i)).copy()
        if op[4] < 2:
            j = m.n
            tr.addObs(obs)
        else:
            j = op[2] % (m.n + 1)
            tr.insertObs(obs, j)
        m.insert(j, rec)
        m.copies = True
        flags.add("prov-dup-other-track" if sm is not m else "prov-dup-same-track")
        return cur
    if kind == "derive":             # ["derive", how, i, j, switch?]: the other slot receives a track derived from this one
        how = op[1]
        if how == "span":
            ta, tb = m.t[op[2] % m.n], m.t[op[3] % m.n]
            new = tr.extractSpanTime(gen.obstime_of_ms(ta), gen.obstime_of_ms(tb))      # bounds in either order
            idx = [i for i in range(m.n) if min(ta, tb) <= m.t[i] <= max(ta, tb)]
            nm = m.subset(idx)
            flags.add("prov-span-part" if len(idx) < m.n else "prov-span-whole")
        elif how == "copy":
            new = tr.copy()
            nm = m.subset(list(range(m.n)), copies=m.copies)
            flags.add("prov-track-copy")
        else:
            raise ValueError(op)
        tracks[1 - cur] = (nm, new)
        flags.add("prov-derived")
        flags.add("two-tracks")
        return (1 - cur) if op[4] else cur
    raise ValueError(op)


MUTATING = ("create", "update", "remove", "set", "del", "seti", "addaf", "op_uv", "op_bv", "op_sv", "op_su", "op_sh", "expr", "exprx")


@self_contained
def body_history(case):
    n = case["n"]
    coords = case.get("coords", "ENU")
    tracks = {0: build(n, coords)}
    cur = 0
    ctx = {"pool": case.get("pool") or [], "seen": {}, "track": 0}
    flags = set()
    deleted = {0: set(), 1: set()}
    recreated = False
    issued = 0
    for k, op in enumerate(case["ops"]):
        step = "step %d %s" % (k, op)
        if op[0] == "track":           # switch to the other track (fresh when first used)
            cur = int(op[1]) % 2
            if cur not in tracks:
                tracks[cur] = build(n, coords)
            ctx["track"] = cur
            if len(tracks) > 1:
                flags.add("two-tracks")
            continue
        if op[0] in ("loop", "dup", "derive"):
            nxt = provenance(tracks, cur, op, flags)
            if nxt is None:
                continue
            if op[0] == "derive":
                deleted[1 - cur] = set(deleted[cur])
            cur = ctx["track"] = nxt
            for j in sorted(tracks):       # the source and the derived track read what was last written on each
                invariant(tracks[j][0], tracks[j][1], step + (" [track %d]" % j), True)
            continue
        m, tr = tracks[cur]
        before = set(m.feat)
        size = m.n
        exact = apply(m, tr, op, flags, ctx)
        if exact is None:
            continue
        issued += 1
        if op[0] in MUTATING:
            if m.copies:
                flags.add("mutation-on-copied-observations")
            if "prov-derived" in flags:
                flags.add("mutation-with-derived-track-alive")
        if size != n:
            flags.add("size-changed-by-provenance")
        invariant(m, tr, step, exact)
        for j in sorted(tracks):
            if j != cur:
                invariant(tracks[j][0], tracks[j][1], step + " [on the other track]", True)
        gone = before - set(m.feat)
        deleted[cur] |= gone
        if (set(m.feat) - before) & deleted[cur]:
            recreated = True
    nt = ("delete-not-last" in flags) or recreated or ("expr-after-delete" in flags)
    cls = sorted(flags) + (["recreate"] if recreated else []) + ["len-%d" % min(10 * (issued // 10), 30), "coords-" + coords]
    return {"nt": nt, "cls": cls}


# ----------------------------------------------------------------------------------------------
def strat_history(max_ops=30):
    names = st.sampled_from(FEATS)
    srcs = st.sampled_from(FEATS + ["x", "y", "z", "idx"])

    def vals(n):
        v = exprs.weighted((9, st.sampled_from(exprs.VALUES)), (1, st.just(float("nan"))))
        return st.one_of(st.sampled_from(exprs.VALUES), st.lists(v, min_size=n, max_size=n))

    # output of a void operator: a drawn name (may be the input itself) or omitted (= first input)
    dsts = exprs.weighted((3, names), (1, st.none()))
    ext = exprs.ext_values(exprs.EXTERNALS)

    def ops(n):
        tree = exprs.trees(FEATS + ["x", "y", "z", "idx"], max_depth=3, max_ops=4)
        return st.one_of(
            st.tuples(st.just("create"), names, vals(n)),
            st.tuples(st.just("create"), names, vals(n)),
            st.tuples(st.just("update"), names, vals(n)),
            st.tuples(st.just("remove"), names),
            st.tuples(st.just("remove"), names),
            st.tuples(st.just("set"), names, vals(n)),
            st.tuples(st.just("del"), names),
            st.tuples(st.just("seti"), st.sampled_from(FEATS + FEATS + ["x", "y", "z"]), st.integers(0, 4), st.sampled_from(exprs.VALUES), st.booleans()),
            st.tuples(st.just("addaf"), names, st.sampled_from(sorted(FUNCS))),
            st.tuples(st.just("op_uv"), st.sampled_from(sorted(UNARY_VOID)), srcs, dsts),
            st.tuples(st.just("op_bv"), st.sampled_from(sorted(BINARY_VOID)), srcs, srcs, dsts),
            st.tuples(st.just("op_sv"), st.sampled_from(sorted(SCALAR_VOID)), srcs, st.sampled_from(exprs.LITERALS), dsts),
            st.tuples(st.just("op_nv"), st.sampled_from(sorted(NON_VOID)), srcs),
            st.tuples(st.just("op_su"), st.sampled_from(sorted(SHIFT_UNARY)), srcs, dsts),
            st.tuples(st.just("op_sh"), st.sampled_from(sorted(SHIFT_SCALAR)), srcs, st.integers(-6, 6), dsts),
            st.tuples(st.just("expr"), st.sampled_from(FEATS + ["x", "y", "z"]), tree, st.booleans(),
                      st.sampled_from([None, None, None, "+", "-", "*", "/", "^"])),
            st.tuples(st.just("expr"), st.sampled_from(FEATS), tree, st.booleans()),
            st.tuples(st.just("expr"), st.none(), tree, st.booleans()),
            st.tuples(st.just("exprx"), st.integers(0, 1), ext),
            st.tuples(st.just("exprx"), st.integers(0, 1), ext),
            st.tuples(st.just("exprx"), st.integers(0, 1), ext),
            st.tuples(st.just("exprx"), st.integers(0, 1), ext),
            st.tuples(st.just("exprx"), st.integers(0, 1), ext),
            st.tuples(st.just("track"), st.integers(0, 1)),
            st.tuples(st.just("track"), st.integers(0, 1)),
            # provenance of the observations: copies of observations, tracks derived from the current one
            st.just(("loop",)),
            st.tuples(st.just("dup"), st.integers(0, MAXN - 1), st.integers(0, MAXN), st.booleans(), st.integers(0, 3)),
            st.tuples(st.just("dup"), st.integers(0, MAXN - 1), st.integers(0, MAXN), st.just(True), st.integers(0, 3)),
            st.tuples(st.just("derive"), st.just("span"), st.integers(0, MAXN - 1), st.integers(0, MAXN - 1), st.booleans()),
            st.tuples(st.just("derive"), st.just("span"), st.integers(0, MAXN - 1), st.integers(0, MAXN - 1), st.booleans()),
            st.tuples(st.just("derive"), st.just("copy"), st.just(0), st.just(0), st.booleans()),
        ).map(list)

    # templates with externals: [lhs | None, tree, blanks?]; the same template is evaluated again and again in a history
    def with_external(t):        # every template has at least one external: (tree, op, external, on the left?)
        tree, op, name, left = t
        if exprs.externals_of(tree):
            return tree
        return ["b", op, ["e", name], tree] if left else ["b", op, tree, ["e", name]]

    xtree = st.tuples(exprs.trees(FEATS + ["x", "y", "z", "idx"], max_depth=3, max_ops=3, externals=exprs.EXTERNALS),
                      st.sampled_from(exprs.BINOPS), st.sampled_from(exprs.EXTERNALS), st.booleans()).map(with_external)
    template = st.tuples(st.sampled_from(FEATS + FEATS + ["x", "y", "z", None]), xtree, st.booleans()).map(list)
    pool = st.lists(template, min_size=1, max_size=2)

    return st.tuples(st.integers(1, 5), st.integers(1, max_ops), pool, st.sampled_from(COORDS)).flatmap(
        lambda nk: st.lists(ops(nk[0]), min_size=nk[1], max_size=nk[1]).map(
            lambda o: {"n": nk[0], "ops": o, "pool": nk[2], "coords": nk[3]}))


# --- exhaustive: every sequence of <= 4 of 12 concrete operations on a 2-fix track -----------------
CONCRETE = [
    ["create", "a", [1.0, 2.0]], ["create", "b", [3.0, 0.5]], ["create", "c", -1.0],
    ["remove", "a"], ["remove", "b"], ["del", "c"],
    ["set", "a", [2.0, -2.0]], ["set", "b", 0.5],
    ["expr", "c", ["b", "+", ["n", "a"], ["n", "b"]], False],
    ["expr", "a", ["b", "*", ["n", "b"], ["l", 2]], False],
    ["expr", "b", ["l", 5], False],
    ["expr", None, ["b", "+", ["n", "a"], ["n", "b"]], False],
    ["exprx", 0, {"k": 2}], ["exprx", 0, {"k": 0.5}],          # the same text "b=a*k" with two values of the external
    ["op_su", "SHIFT_RIGHT", "a", None],                       # shift written over its input (omitted output)
    ["expr", "x", ["b", "+", ["n", "x"], ["n", "a"]], False],  # a coordinate assignment (x=x+a, or x=x+idx without a)
    ["loop"],                                                  # the track gets a copy of its first observation
    ["derive", "span", 0, 1, True],                            # continue on extractSpanTime(t0, t1), the source stays alive
]
CONCRETE_POOL = [["b", ["b", "*", ["n", "a"], ["e", "k"]], False]]


def enum_histories(tier):
    depth = 4 if tier == "thorough" else 3
    for d in range(1, depth + 1):
        for seq in itertools.product(range(len(CONCRETE)), repeat=d):
            # the coordinate class goes round with the sequence (every sequence is run, on one of the three classes)
            yield {"n": 2, "ops": [CONCRETE[i] for i in seq], "pool": CONCRETE_POOL, "coords": COORDS[sum(seq) % 3]}


RULE = ("bfs: every sequence of length <= 3 (quick) / <= 4 (thorough) over 18 concrete create/delete/overwrite/expression operations "
        "(two of them the same external-variable expression with different values, one a shift written over its input, one a coordinate "
        "assignment, loop(add=True), and continuing on extractSpanTime of the whole track) on a 2-fix track, the coordinate class going "
        "round the three classes with the sequence; random: Hypothesis lists of <= 30 (quick) / <= 50 (thorough) operations (create, update, remove, bracket set/delete/item, "
        "addAnalyticalFeature, unary/binary/scalar/non-void and shift operator objects with virtual sources and the output a drawn name, the "
        "source itself or omitted, expressions with and without '=', expressions from a per-case pool of <= 2 templates with external scalar "
        "variables evaluated with a freshly drawn dictionary each time, switches between two tracks, and provenance operations: "
        "loop(add=True), added / inserted Obs.copy() of an observation of the same or the other track, continuing on (or keeping aside) an "
        "extractSpanTime / Track.copy() of the current track) on tracks of 1..5 fixes whose positions are ENUCoords, GeoCoords or ECEFCoords "
        "(case field), invariant (incl. size, and x y z through track, position and feature readings) "
        "checked on every track after every step. Non-trivial: the history deletes a feature that is not the "
        "last created, or deletes and recreates a name, or evaluates an expression after a delete. Distinct = hash of the case.")

# coverage-guided stage of the thorough tier (vt/fuzz.py): sub-check -> libFuzzer executions
FUZZ = {'random_histories': 8000}

SUBCHECKS = [
    SubCheck("bfs", body_history, enum=enum_histories, rule="all short histories", qshards=8),
    SubCheck("random_histories", body_history, strategy=lambda: strat_history(30), quick=1500, thorough=40000),
    SubCheck("long_histories", body_history, strategy=lambda: strat_history(50), quick=300, thorough=16000),
]
