"""C20 - projecting a point on a polyline returns its nearest point.

Code under test: tracklib.util.geometry.proj_segment / proj_polyligne, tracklib.algo.mapping.mapOnTrack
(coordinate and track form).  Oracle: clamped-parameter nearest point of every proper segment
(vt.oracle.pt_seg_nearest, which never calls tracklib), minimum over the polyline.

A case is {"pts": [[x, y], ...], "qs": [[x, y], ...], "kinds": [str, ...]}: the polyline, 1..5 query
points (each judged on its own) and the generator's label of each query (labels only feed the
histogram).  Optional fields (absent = the old behaviour): "off": [ox, oy] - the whole case (polyline
and queries) is translated by that offset before tracklib sees it (pts / qs are the local coordinates);
"zs": [z, ...] heights of the vertices of the reference track and "qz": height of the queries (mapOnTrack
sub-checks; the property is planimetric, nothing is demanded of heights); "ints": integer-valued
coordinates are handed over as Python ints."""
import math
import numbers

from hypothesis import strategies as st

from tracklib.algo.mapping import mapOnTrack
from tracklib.core.obs_coords import ENUCoords
from tracklib.util.geometry import proj_polyligne, proj_segment

from vt import gen, oracle
from vt.core import SubCheck, Violation, exc_key

REL_TOL = 1e-9            # x local extent (largest |coordinate - offset| of polyline and query, at least 1)
ARITH = 16 * 2.0 ** -52   # x magnitude (largest |coordinate|, offset included) x (1 + steepest |dy/dx| of a segment):
                          # rounding of the library's line equation a x + b y + c = 0 / point (0, -c/b) at that magnitude
DEGENERATE = 1e-9         # |dx| < DEGENERATE*|dy| (dx != 0) etc.: rounding decides, nothing demanded

ASSUMPTIONS = [
    "oracle = clamped-parameter nearest point per proper segment in float64 (vt.oracle.pt_seg_nearest), minimum over segments",
    "domain: 2..8 vertices, local coordinates n/100000 with n integer (1/8 lattice of [-16,16]^2 plus offsets 0.1, 0.3, +-0.001; "
    "'short' steps of 1e-3..0.04 and 'micro' steps of 1e-5..1e-3 per coordinate), "
    "at least one segment of non-zero length; exactly horizontal / vertical / zero-length segments are made by copying coordinates; "
    "apart from the micro steps non-zero coordinate differences are >= 1e-3, so no segment is 'almost' axis-parallel or 'almost' "
    "zero-length (such inputs in a replay are answered undef)",
    "translation (case['off']): the whole case - polyline and queries - is shifted by (ox, oy), each 0 or a multiple of 2^10 up to "
    "7.3e6 in magnitude (projected-grid coordinates, E ~ 6.5e5, N ~ 6.86e6 among them); the shifted float64 numbers ARE the case "
    "(the oracle works on them), equal local coordinates stay equal; with an offset the short / micro steps are 0.1..10 long, so "
    "segments are 0.1..45 long",
    "tolerance on every length compared = 1e-9 x max(1, largest |local coordinate|) + 16 ulp-units (16 x 2^-52) x max(1, largest "
    "|coordinate| offset included) x (1 + steepest |dy/dx| of a non-vertical segment): the second term is the rounding of the "
    "library's own arithmetic (line a x + b y + c = 0 through points of that magnitude, foot computed from the point (0, -c/b)); "
    "at E/N ~ 7e6 it is 2.5e-8 x (1 + slope), i.e. micrometres for ordinary slopes and < 1 mm for the steepest generated "
    "segment (dx = 1e-3, dy = 32), far below the segment lengths (>= 0.1); without offset it adds < 6% to the first term",
    "mapOnTrack sub-checks: the reference track may carry heights (case['zs']: flat / different at every fix, repeated "
    "horizontal positions included / differing by less than ENUCoords' 1e-4 equality tolerance / large) and the query a "
    "height (case['qz']); the property is planimetric (x, y of the returned point, 2D distance), nothing is demanded of z. "
    "Reference track and query are ENUCoords: mapOnTrack on GeoCoords / ECEFCoords runs on getX()/getY() (degrees / metres "
    "from the geocentre) and returns an ENUCoords of those numbers, while the library's own distance between GeoCoords is "
    "metric - which distance 'the minimum distance' would be is not defined there, so nothing is demanded (not generated)",
    "case['ints']: integer-valued coordinates are handed over as Python ints (lists of proj_segment / proj_polyligne, "
    "gen.make_track(ints=True), the query ENUCoords)",
    "proj_segment is only called on a segment of non-zero length (proj_polyligne skips the others itself)",
    "any segment that carries the returned point is accepted as 'the index' (ties at a shared vertex are free)",
    "a case carries 1..5 query points for one polyline; every query is judged on its own (mapOnTrack(track, track) "
    "gets them in one call); a query whose failure has a recorded vertical-segment key never hides another query's failure",
]


# ------------------------------------------------------------------------------------------------
# oracle
def _segs(pts):
    return [(pts[i][0], pts[i][1], pts[i + 1][0], pts[i + 1][1]) for i in range(len(pts) - 1)]


def _orient(s):
    x1, y1, x2, y2 = s
    if x1 == x2 and y1 == y2:
        return "zero"
    if x1 == x2:
        return "vertical"
    if y1 == y2:
        return "horizontal"
    return "oblique"


def _ill_conditioned(pts):
    for x1, y1, x2, y2 in _segs(pts):
        dx, dy = abs(x2 - x1), abs(y2 - y1)
        if dx == 0 and dy == 0:
            continue
        if (0 < dx < DEGENERATE * dy) or (0 < dy < DEGENERATE * dx):
            return True
        if dx + dy < DEGENERATE * max(1.0, abs(x1), abs(y1)):
            return True
    return False


class Ref:
    """everything the oracle knows about one (polyline, query)"""

    def __init__(self, pts, q, off=(0.0, 0.0)):
        self.pts, self.q = pts, q
        self.segs = _segs(pts)
        self.orient = [_orient(s) for s in self.segs]
        self.proper = [i for i, o in enumerate(self.orient) if o != "zero"]
        self.scale = max([1.0, abs(q[0]), abs(q[1])] + [abs(c) for p in pts for c in p[:2]])
        self.local = max([1.0, abs(q[0] - off[0]), abs(q[1] - off[1])] + [abs(p[k] - off[k]) for p in pts for k in (0, 1)])
        self.slope = max([abs((s[3] - s[1]) / (s[2] - s[0])) for s in self.segs if s[2] != s[0]] or [0.0])
        self.tol = REL_TOL * self.local + ARITH * self.scale * (1.0 + self.slope)
        self.near = {i: oracle.pt_seg_nearest(q[0], q[1], *self.segs[i]) for i in self.proper}
        self.dmin = min(n[3] for n in self.near.values())
        self.argmin = [i for i in self.proper if self.near[i][3] <= self.dmin + self.tol]

    def length(self, i):
        x1, y1, x2, y2 = self.segs[i]
        return math.hypot(x2 - x1, y2 - y1)

    def interior(self, i):
        """the nearest point of segment i is a foot strictly inside it (by more than the tolerance)"""
        t, L = self.near[i][2], self.length(i)
        return min(t, 1.0 - t) * L > self.tol

    def end_dist(self, i):
        x1, y1, x2, y2 = self.segs[i]
        return min(math.hypot(self.q[0] - x1, self.q[1] - y1), math.hypot(self.q[0] - x2, self.q[1] - y2))

    def aligned_vertical(self):
        """exactly vertical segments whose line carries the query and for which projection_droite's
        (x, a) answer passes the inclusion test (the way the recorded crash arises)"""
        out = []
        for i in self.proper:
            x1, y1, x2, y2 = self.segs[i]
            if self.orient[i] == "vertical" and self.q[0] == x1 and min(y1, y2) <= (y2 - y1) <= max(y1, y2):
                out.append(i)
        return out


def _judge(ref, dist, px, py, idx, what):
    """the four demands of the property on one answer; raises Violation with a root-cause key"""
    q, tol = ref.q, ref.tol
    for v in (dist, px, py):
        if not isinstance(v, numbers.Real) or isinstance(v, bool) or not math.isfinite(v):
            raise Violation("non-finite-result", "%s = (%r, %r, %r)" % (what, dist, px, py))
    failed = []
    msg = []
    if idx is not None:
        ok = isinstance(idx, numbers.Real) and not isinstance(idx, bool) and math.isfinite(idx) \
            and idx == int(idx) and 0 <= idx < len(ref.segs) and ref.orient[int(idx)] != "zero"
        if not ok:
            raise Violation("bad-index", "%s returns segment index %r for %d vertices %s" % (what, idx, len(ref.pts), ref.pts))
        carrier = int(idx)
        off = oracle.pt_seg_dist(px, py, *ref.segs[carrier])
        if off > tol:
            alt = min(oracle.pt_seg_dist(px, py, *ref.segs[i]) for i in ref.proper)
            if alt <= tol:
                failed.append("wrong-index")
                msg.append("returned point (%r, %r) is on the polyline but %.3g away from returned segment %d" % (px, py, off, carrier))
            else:
                failed.append("point-off-polyline")
                msg.append("returned point (%r, %r) is %.3g away from returned segment %d and %.3g from the polyline" % (px, py, off, carrier, alt))
    else:
        off = oracle.pt_seg_dist(px, py, *ref.segs[0])
        if off > tol:
            failed.append("point-off-polyline")
            msg.append("returned point (%r, %r) is %.3g away from the segment" % (px, py, off))
    dq = math.hypot(q[0] - px, q[1] - py)
    if abs(dist - dq) > tol:
        failed.append("dist-inconsistent")
        msg.append("returned distance %r but |q - returned point| = %r" % (dist, dq))
    if abs(dist - ref.dmin) > tol:
        failed.append("not-nearest")
        msg.append("returned distance %r, minimum distance to the polyline is %r" % (dist, ref.dmin))
    if not failed:
        return
    text = "%s on %s, q=%s -> (%r, %r, %r, %r): %s" % (what, ref.pts, q, dist, px, py, idx, "; ".join(msg))
    if failed == ["not-nearest"] and dist > ref.dmin:
        raise Violation(_classify_not_nearest(ref, dist, px, py), text)
    raise Violation(failed[0], text)


def _classify_not_nearest(ref, dist, px, py):
    """The answer is a genuine point of the polyline with a consistent distance, only it is not the
    nearest one.  Root cause by the orientation of the segment(s) that carry the true nearest point."""
    tol = ref.tol
    kinds = set(ref.orient[i] for i in ref.argmin)
    feet = all(ref.interior(i) for i in ref.argmin)
    if kinds == {"vertical"} and feet:
        # recorded defect: an exactly vertical segment answers with its nearer end point.  The key is
        # given only if that model explains the answer completely: every other segment exact.
        model = min(ref.end_dist(i) if ref.orient[i] == "vertical" else ref.near[i][3] for i in ref.proper)
        if abs(dist - model) <= tol:
            for i in ref.argmin:
                x1, y1, x2, y2 = ref.segs[i]
                for ex, ey in ((x1, y1), (x2, y2)):
                    if math.hypot(px - ex, py - ey) <= tol and abs(ref.end_dist(i) - math.hypot(ref.q[0] - ex, ref.q[1] - ey)) <= tol:
                        return "vertical-segment-foot"
            return "vertical-segment-foot-runner-up"
        return "not-nearest-beside-vertical"
    if kinds == {"horizontal"} and feet:
        return "horizontal-segment-foot"
    if kinds <= {"horizontal", "vertical"} and feet:
        return "axis-parallel-corner-foot"
    return "not-nearest"


def _call(refs, fn):
    """run the tracklib call; a ZeroDivisionError gets the recorded key only when a query lies exactly
    on the line of an exactly vertical segment in the way that makes proj_segment divide by b == 0"""
    try:
        return fn()
    except ZeroDivisionError as e:
        if exc_key(e) == "exc:ZeroDivisionError:proj_segment":
            for ref in refs:
                al = ref.aligned_vertical()
                if al:
                    raise Violation("vertical-segment-aligned-zerodiv",
                                    "ZeroDivisionError: q=%s lies on the line of vertical segment %d of %s" % (ref.q, al[0], ref.pts))
        raise


def _info(refs, kinds, P=None):
    cls = []
    nt = False
    if P is not None:
        cls.extend(P.labels())
    for ref, kind in zip(refs, kinds):
        cls.append("q-" + kind)
        foot = any(ref.interior(i) for i in ref.argmin)
        nt = nt or foot
        cls.append("nearest-is-foot" if foot else "nearest-is-vertex")
        for o in sorted(set(ref.orient[i] for i in ref.argmin)):
            cls.append("nearest-on-" + o + ("-foot" if foot else "-vertex"))
        if ref.dmin <= ref.tol:
            cls.append("query-on-polyline")
        if len(ref.argmin) > 1:
            cls.append("tie-2+segments")
        if any(ref.orient[i] == "vertical" and ref.q[0] == ref.segs[i][0] for i in ref.proper):
            cls.append("query-on-line-of-vertical")
        if any(ref.orient[i] == "horizontal" and ref.interior(i) and (ref.segs[i][1] * 8) != int(ref.segs[i][1] * 8)
               for i in ref.argmin):
            cls.append("nearest-on-horizontal-nondyadic-y")
        if any(ref.length(i) < 0.1 for i in ref.argmin):
            cls.append("nearest-on-short-segment")
        if any(ref.length(i) < 1e-3 for i in ref.argmin):
            cls.append("nearest-on-micro-segment" + ("-foot" if foot else "-vertex"))
    ref = refs[0]
    for o in ("vertical", "horizontal", "zero", "oblique"):
        if o in ref.orient:
            cls.append("has-" + o)
    if any(ref.length(i) < 0.1 for i in ref.proper):
        cls.append("has-short")
    if any(ref.length(i) < 1e-3 for i in ref.proper):
        cls.append("has-micro")
        if all(ref.length(i) < 1e-3 for i in ref.proper):
            cls.append("all-proper-segments-micro")
    cls.append("nseg-%d" % len(ref.segs))
    return {"nt": nt, "cls": cls}


class Prep:
    """the case as tracklib gets it: translated polyline and queries, heights, number type"""

    def __init__(self, case):
        off = case.get("off") or [0.0, 0.0]
        self.off = (float(off[0]), float(off[1]))
        self.pts = [[float(p[0]) + self.off[0], float(p[1]) + self.off[1]] for p in case["pts"]]
        self.qs = [[float(q[0]) + self.off[0], float(q[1]) + self.off[1]] for q in case["qs"]]
        self.kinds = list(case.get("kinds") or ["?"] * len(self.qs))
        zs = case.get("zs")
        self.zs = [float(z) for z in zs] if zs else [0.0] * len(self.pts)
        self.qz = float(case.get("qz") or 0.0)
        self.ints = bool(case.get("ints"))

    def ok(self):
        pts, qs = self.pts, self.qs
        if len(pts) < 2 or not qs or len(self.zs) != len(pts) or all(o == "zero" for o in (_orient(s) for s in _segs(pts))):
            return False
        if not all(math.isfinite(c) for p in pts + qs + [self.zs, [self.qz]] for c in p) or _ill_conditioned(pts):
            return False
        return True

    def num(self, v):
        return gen.as_int_if_integral(v) if self.ints else v

    def refs(self, pts=None):
        return [Ref(pts or self.pts, q, self.off) for q in self.qs]

    def pts3(self):
        return [(p[0], p[1], z) for p, z in zip(self.pts, self.zs)]

    def labels(self):
        m = max(abs(self.off[0]), abs(self.off[1]))
        cls = ["off:none" if m == 0 else "off:<1e5" if m < 1e5 else "off:1e5..1e6" if m < 1e6 else "off:>=1e6"]
        if self.off[0] != 0 and self.off[1] != 0 and m >= 1e5:
            cls.append("off:both-axes>=1e5")
        if any(z != 0 for z in self.zs):
            cls.append("ref-z:varies")
            rep = [i for i in range(len(self.pts) - 1) if self.pts[i] == self.pts[i + 1]]
            if any(self.zs[i] != self.zs[i + 1] for i in rep):
                cls.append("ref-z:differs-at-repeated-xy" + ("-by<1e-4" if all(abs(self.zs[i] - self.zs[i + 1]) < 1e-4 for i in rep) else ""))
        else:
            cls.append("ref-z:flat")
        if self.qz != 0:
            cls.append("query-z!=0")
        if self.ints:
            cls.append("ints:all-xy-int" if all(c == int(c) for p in self.pts + self.qs for c in p) else "ints:some-xy-int"
                       if any(c == int(c) for p in self.pts + self.qs for c in p) else "ints:no-integer-valued-xy")
        return cls


def _prep(case):
    P = Prep(case)
    return P if P.ok() else None


# ------------------------------------------------------------------------------------------------
# bodies
RECORDED = ("vertical-segment-foot", "vertical-segment-foot-runner-up", "vertical-segment-aligned-zerodiv")


def _each(refs, one):
    """apply one(ref) to every query of the case; a violation of a query does not hide the others:
    a key outside the recorded vertical-segment family is raised in preference"""
    bad = []
    for ref in refs:
        try:
            one(ref)
        except Violation as v:
            bad.append(v)
    for v in bad:
        if v.key not in RECORDED:
            raise v
    if bad:
        raise bad[0]


def body_segment(case):
    P = _prep(case)
    if P is None:
        return {"undef": True}
    pts = P.pts[:2]
    if _orient(_segs(pts)[0]) == "zero":
        return {"undef": True}
    refs = P.refs(pts)
    seg = [P.num(pts[0][0]), P.num(pts[0][1]), P.num(pts[1][0]), P.num(pts[1][1])]

    def one(ref):
        r = _call([ref], lambda: proj_segment(list(seg), P.num(ref.q[0]), P.num(ref.q[1])))
        if not (isinstance(r, tuple) and len(r) == 3):
            raise Violation("bad-shape", "proj_segment returns %r" % (r,))
        _judge(ref, r[0], r[1], r[2], None, "proj_segment")
    _each(refs, one)
    return _info(refs, P.kinds, P)


def body_polyline(case):
    P = _prep(case)
    if P is None:
        return {"undef": True}
    refs = P.refs()
    X, Y = [P.num(a[0]) for a in P.pts], [P.num(a[1]) for a in P.pts]

    def one(ref):
        r = _call([ref], lambda: proj_polyligne(list(X), list(Y), P.num(ref.q[0]), P.num(ref.q[1])))
        if not (isinstance(r, tuple) and len(r) == 4):
            raise Violation("bad-shape", "proj_polyligne returns %r" % (r,))
        _judge(ref, r[0], r[1], r[2], r[3], "proj_polyligne")
    _each(refs, one)
    return _info(refs, P.kinds, P)


def body_map_coord(case):
    P = _prep(case)
    if P is None:
        return {"undef": True}
    refs = P.refs()
    tr = gen.make_track(P.pts3(), ints=P.ints)

    def one(ref):
        r = _call([ref], lambda: mapOnTrack(ENUCoords(P.num(ref.q[0]), P.num(ref.q[1]), P.num(P.qz)), tr))
        if not (isinstance(r, tuple) and len(r) == 3 and hasattr(r[0], "getX")):
            raise Violation("bad-shape", "mapOnTrack(coord, track) returns %r" % (r,))
        _judge(ref, r[1], r[0].getX(), r[0].getY(), r[2], "mapOnTrack(coord, track)")
    _each(refs, one)
    if [o[:3] for o in gen.track_records(tr)] != P.pts3():
        raise Violation("map-mutates-track", "mapOnTrack changed the track it projects on")
    return _info(refs, P.kinds, P)


def body_map_track(case):
    P = _prep(case)
    if P is None:
        return {"undef": True}
    qs, kinds = P.qs, P.kinds
    refs = P.refs()
    tr = gen.make_track(P.pts3(), ints=P.ints)
    qt = gen.make_track([(q[0], q[1], P.qz) for q in qs], ints=P.ints)
    out = _call(refs, lambda: mapOnTrack(qt, tr))
    if not hasattr(out, "size") or out.size() != len(qs):
        raise Violation("map-track-size", "mapOnTrack(track, track): %d queries, result %r" % (len(qs), out))
    order = {id(ref): k for k, ref in enumerate(refs)}

    def one(ref):
        k = order[id(ref)]
        pos = out.getObs(k).position
        _judge(ref, out.getObsAnalyticalFeature("dist", k), pos.getX(), pos.getY(),
               out.getObsAnalyticalFeature("edge", k), "mapOnTrack(track, track)[%d]" % k)
    _each(refs, one)
    if [o[:3] for o in gen.track_records(qt)] != [(q[0], q[1], P.qz) for q in qs]:
        raise Violation("map-mutates-track", "mapOnTrack changed the projected track")
    if [o[:3] for o in gen.track_records(tr)] != P.pts3():
        raise Violation("map-mutates-track", "mapOnTrack changed the track it projects on")
    return _info(refs, kinds, P)


def _readback(tr):
    """the polyline as the track holds it now, read observation by observation"""
    return [[tr.getObs(i).position.getX(), tr.getObs(i).position.getY()] for i in range(tr.size())]


def _explained_by(earlier, refs, got):
    """an earlier polyline of the same track against which every answer of this projection is right
    (or wrong only in the recorded vertical-segment way); None if there is none.  Only consulted after
    an unrecorded violation against the current polyline, so it cannot raise an alarm of its own."""
    for P in earlier:
        if all(_orient(g) == "zero" for g in _segs(P)):
            continue
        ok = True
        for ref in refs:
            try:
                _judge(Ref(P, ref.q), *got[id(ref)], "earlier")
            except Violation as v:
                if v.key not in RECORDED:
                    ok = False
                    break
        if ok:
            return P
    return None


def body_map_sequence(case):
    """project, edit the reference track in place (same size) or copy-then-edit, project again ...:
    every projection is judged against the polyline the track holds at that moment"""
    from tracklib.core.obs import Obs
    pts0 = [[float(p[0]), float(p[1])] for p in case["pts"]]
    if len(pts0) < 2:
        return {"undef": True}
    tracks = [gen.make_track([(a[0], a[1]) for a in pts0])]
    act = 0
    bad, cls = [], ["nseg-%d" % (len(pts0) - 1)]
    nt = False
    seen, dirty = [False], [False]     # per track: projected on before (itself or its source); edited since then
    past = [[]]                        # per track: the polylines it (or its source) held at earlier projections
    judged = 0
    for op in case["ops"]:
        name, tr = op[0], tracks[act]
        if name == "translate":
            tr.translate(float(op[1]), float(op[2]))
            dirty[act] = seen[act]
        elif name == "move":
            k = int(op[1]) % tr.size()
            tr.getObs(k).position.setX(float(op[2]))
            tr.getObs(k).position.setY(float(op[3]))
            dirty[act] = seen[act]
        elif name == "setobs":
            k = int(op[1]) % tr.size()
            tr.setObs(k, Obs(ENUCoords(float(op[2]), float(op[3]), 0), tr.getObs(k).timestamp))
            dirty[act] = seen[act]
        elif name == "copy":
            tracks.append(tr.copy())
            seen.append(seen[act])
            dirty.append(dirty[act])
            past.append(list(past[act]))
            act = len(tracks) - 1
        elif name == "switch":
            act = int(op[1]) % len(tracks)
        elif name in ("coord", "track"):
            pts = _readback(tr)
            qs = [[float(q[0]), float(q[1])] for q in op[1]]
            kinds = list(op[2]) if len(op) > 2 else ["?"] * len(qs)
            if len(pts) != len(pts0) or not qs or all(_orient(g) == "zero" for g in _segs(pts)) \
                    or not all(math.isfinite(c) for a in pts + qs for c in a) or _ill_conditioned(pts):
                cls.append("projection-skipped-outside-domain")
                continue
            refs = [Ref(pts, q) for q in qs]
            judged += 1
            edited = dirty[act]
            seen[act] = True
            earlier = [P for P in past[act] if P != pts]
            if pts not in past[act]:
                past[act].append(pts)
            got = {}
            try:
                if name == "coord":
                    def one(ref):
                        r = _call([ref], lambda: mapOnTrack(ENUCoords(ref.q[0], ref.q[1], 0), tr))
                        if not (isinstance(r, tuple) and len(r) == 3 and hasattr(r[0], "getX")):
                            raise Violation("bad-shape", "mapOnTrack(coord, track) returns %r" % (r,))
                        got[id(ref)] = (r[1], r[0].getX(), r[0].getY(), r[2])
                        _judge(ref, r[1], r[0].getX(), r[0].getY(), r[2], "mapOnTrack(coord, track)")
                    _each(refs, one)
                else:
                    qt = gen.make_track([(q[0], q[1]) for q in qs])
                    out = _call(refs, lambda: mapOnTrack(qt, tr))
                    if not hasattr(out, "size") or out.size() != len(qs):
                        raise Violation("map-track-size", "mapOnTrack(track, track): %d queries, result %r" % (len(qs), out))
                    order = {id(ref): k for k, ref in enumerate(refs)}

                    def one(ref):
                        k = order[id(ref)]
                        pos = out.getObs(k).position
                        got[id(ref)] = (out.getObsAnalyticalFeature("dist", k), pos.getX(), pos.getY(),
                                        out.getObsAnalyticalFeature("edge", k))
                        _judge(ref, *got[id(ref)], "mapOnTrack(track, track)[%d]" % k)
                    _each(refs, one)
            except Violation as v:
                if v.key not in RECORDED and len(got) == len(refs):
                    old = _explained_by(earlier, refs, got)
                    if old is not None:
                        v = Violation("stale-geometry", "answers fit the polyline %s that the track held at an earlier "
                                      "projection, not the current one: %s" % (old, v.msg))
                bad.append(v)
                continue
            if _readback(tr) != pts:
                raise Violation("map-mutates-track", "mapOnTrack changed the track it projects on")
            info = _info(refs, kinds)
            cls.append("proj-%s-%s" % (name, "after-edit" if edited else "fresh"))
            if edited and info["nt"]:
                nt = True
        else:
            return {"undef": True}
        if name not in ("coord", "track"):
            cls.append("op-" + name)
    for v in bad:
        if v.key not in RECORDED:
            raise v
    if bad:
        raise bad[0]
    if judged == 0:
        return {"undef": True}
    return {"nt": nt, "cls": cls}


# ------------------------------------------------------------------------------------------------
# generator.  Local coordinates are n / 100000.0 with integer n ("cu" = 1e-5), so equal values are equal floats; two
# different values differ by >= 1e-3 (100 cu) except across a micro step.  (n/1000.0 of the earlier milli-unit generator
# and (100 n)/100000.0 are the same float: both are the correctly rounded quotient.)  Few draws per case: Hypothesis'
# per-draw cost dominates.
CU = 100000
LAT = CU // 8                                  # the 1/8 lattice
MILLI = CU // 1000
OFFSETS = [0, 0, 0, 0, CU // 10, 3 * CU // 10, MILLI, -MILLI]

# translations of the whole case: multiples of 2^10 (lattice coordinates stay exact up to 2^23 x 2^10); projected-grid
# magnitudes (E ~ 6.5e5, N ~ 6.86e6) on one or both axes, both signs
K = 1024
TRANSLATIONS = [(0, 0)] * 6 + [(K, -2 * K), (64 * K, 128 * K), (-512 * K, 1024 * K), (636 * K, 6700 * K), (-636 * K, -6700 * K),
                               (6700 * K, 636 * K), (0, 6700 * K), (636 * K, 0), (4096 * K, -4096 * K), (7168 * K, 7168 * K)]


def _coord():
    """cu: (1/8 lattice index) * LAT + offset; one draw, shrinks to 0"""
    return st.integers(-128 * 8, 128 * 8 + 7).map(lambda v: (v >> 3) * LAT + OFFSETS[v & 7])


def _step():
    obl = st.tuples(st.just("obl"), _coord(), _coord())
    hor = st.tuples(st.just("hor"), _coord(), st.just(0))
    ver = st.tuples(st.just("ver"), st.just(0), _coord())
    zero = st.just(("zero", 0, 0))
    short = st.tuples(st.just("short"), st.integers(-40, 40), st.integers(-40, 40))       # x 1e-3
    micro = st.tuples(st.just("micro"), st.integers(-100, 100), st.integers(-100, 100))   # x 1e-5
    return st.one_of(obl, obl, obl, hor, hor, ver, ver, zero, short, micro)


def _qspec():
    isel = st.integers(0, 6)
    jsel = st.integers(0, 7)
    tin = st.integers(1, 7)
    tout = st.sampled_from([-8, -4, -1, 9, 12, 16])
    s = st.integers(-16, 16)
    far = st.integers(-901, 900).map(lambda v: v + 100 if v >= 0 else v - 99)      # +-[100, 1000] whole units
    beside = st.tuples(st.just("beside"), isel, tin, s)
    beyond = st.tuples(st.just("beyond"), isel, tout, s)
    on = st.tuples(st.just("on"), isel, tin)
    vertex = st.tuples(st.just("vertex"), jsel)
    farq = st.tuples(st.just("far"), far, st.integers(-1000, 1000), st.integers(0, 1))
    free = st.tuples(st.just("free"), _coord(), _coord())
    aligned = st.tuples(st.just("aligned"), jsel, _coord(), st.integers(0, 1))
    return st.one_of(beside, beside, beyond, beyond, on, vertex, farq, free, aligned)


def _vertices(start, steps, big=False):
    """integer (cu) vertices; segment classes are made by construction.  A target coordinate closer than 1e-3 to the
    current one (equal, or next to it after a micro step) is moved one lattice step away, so that only the micro steps
    themselves have coordinate differences below 1e-3.  big (the case is translated): short and micro steps are 0.1 x
    the drawn integers (0.1..10), the segment lengths stay far above the rounding at the translated magnitude."""
    vs = [start]
    if all(s[0] == "zero" for s in steps):
        steps = steps[:-1] + [("obl", LAT, 2 * LAT)]
    for cls, a, b in steps:
        px, py = vs[-1]
        if cls == "obl":
            nx = a if abs(a - px) >= MILLI else px + LAT
            ny = b if abs(b - py) >= MILLI else py + LAT
        elif cls == "hor":
            nx, ny = (a if abs(a - px) >= MILLI else px + LAT), py
        elif cls == "ver":
            nx, ny = px, (b if abs(b - py) >= MILLI else py + LAT)
        elif cls == "zero":
            nx, ny = px, py
        else:
            if a == 0 and b == 0:
                a = 1
            u = CU // 10 if big else MILLI if cls == "short" else 1
            nx, ny = px + a * u, py + b * u
        vs.append((nx, ny))
    return vs


def _query(vs, spec):
    """query in 1/8 cu (integers), relative to a proper segment for the first three kinds"""
    kind = spec[0]
    if kind in ("beside", "beyond", "on"):
        proper = [i for i in range(len(vs) - 1) if vs[i] != vs[i + 1]]
        i = proper[spec[1] % len(proper)]
        (x1, y1), (x2, y2) = vs[i], vs[i + 1]
        dx, dy = x2 - x1, y2 - y1
        t = spec[2]
        s = 0 if kind == "on" else spec[3]
        if kind == "beside" and s == 0:
            s = 1
        return (8 * x1 + t * dx - s * dy, 8 * y1 + t * dy + s * dx)
    if kind == "vertex":
        j = spec[1] % len(vs)
        return (8 * vs[j][0], 8 * vs[j][1])
    if kind == "far":
        a, b = spec[1] * 8 * CU, spec[2] * 8 * CU
        return (a, b) if spec[3] == 0 else (b, a)
    if kind == "aligned":
        j = spec[1] % len(vs)
        if spec[3] == 0:
            return (8 * vs[j][0], 8 * spec[2])
        return (8 * spec[2], 8 * vs[j][1])
    return (8 * spec[1], 8 * spec[2])


ZMODES = ["flat", "flat", "each-fix-differs", "below-eq-tolerance", "large"]


def _heights(mode, n):
    if mode == "each-fix-differs":
        return [100.0 + 0.4 * i for i in range(n)]           # a repeated (x, y) has another z
    if mode == "below-eq-tolerance":
        return [(i % 2) * 3e-5 for i in range(n)]            # ... that ENUCoords.__eq__ (1e-4) does not tell apart
    if mode == "large":
        return [(-1000.0) ** (i % 2) * (i + 1) for i in range(n)]
    return None


def _build(t):
    start, steps, specs, var = t
    off = TRANSLATIONS[var % 16]
    zmode = ZMODES[(var // 16) % 5]
    ints = var // 80 == 1
    vs = _vertices(start, list(steps), big=off != (0, 0))
    qs = [_query(vs, s) for s in specs]
    case = {"pts": [[x / float(CU), y / float(CU)] for x, y in vs],
            "qs": [[a / (8.0 * CU), b / (8.0 * CU)] for a, b in qs],
            "kinds": [s[0] for s in specs]}
    if off != (0, 0):
        case["off"] = [float(off[0]), float(off[1])]
    zs = _heights(zmode, len(vs))
    if zs:
        case["zs"] = zs
        case["qz"] = [0.0, 12.5][var % 2]
    if ints:
        case["ints"] = True
    return case


def _strategy(min_seg, max_seg, max_q, no_zero=False):
    step = _step()
    if no_zero:
        step = step.map(lambda s: ("obl", LAT, 2 * LAT) if s[0] == "zero" else s)
    return st.tuples(st.tuples(_coord(), _coord()),
                     st.lists(step, min_size=min_seg, max_size=max_seg),
                     st.lists(_qspec(), min_size=1, max_size=max_q),
                     st.integers(0, 159)).map(_build)


def strat_segment():
    return _strategy(1, 1, 4, no_zero=True)


def strat_polyline():
    return _strategy(1, 7, 4)


def strat_map_track():
    return _strategy(1, 7, 5)


# sequences: 1/8 lattice only, so that translations, moves and queries are exact in binary
def _lat():
    return st.integers(-128, 128).map(lambda k: k * LAT)


def _lat_step():
    obl = st.tuples(st.just("obl"), _lat(), _lat())
    hor = st.tuples(st.just("hor"), _lat(), st.just(0))
    ver = st.tuples(st.just("ver"), st.just(0), _lat())
    zero = st.just(("zero", 0, 0))
    return st.one_of(obl, obl, obl, hor, hor, ver, zero)


def _edit_spec():
    sh = st.integers(-16, 16)
    jsel = st.integers(0, 7)
    return st.one_of(
        st.tuples(st.just("translate"), sh, sh),
        st.tuples(st.just("move"), jsel, _lat(), _lat()),
        st.tuples(st.just("setobs"), jsel, _lat(), _lat()),
        st.tuples(st.just("copy_translate"), sh, sh),
        st.tuples(st.just("copy_move"), jsel, _lat(), _lat()),
        st.tuples(st.just("switch"), jsel, sh, sh),
        st.tuples(st.just("switch"), jsel, sh, sh),
        st.tuples(st.just("switch"), jsel, sh, sh))


def _proj_spec():
    return st.tuples(st.sampled_from(["coord", "coord", "track"]), st.lists(_qspec(), min_size=1, max_size=3))


def _seq_queries(vs, specs):
    out = []
    for sp in specs:
        if sp[0] in ("beside", "beyond", "on") and all(vs[i] == vs[i + 1] for i in range(len(vs) - 1)):
            sp = ("free", vs[0][0] + LAT * sp[2], vs[0][1] + LAT)
        a, b = _query(vs, sp)
        out.append([a / (8.0 * CU), b / (8.0 * CU)])
    return out


def _build_seq(t):
    start, steps, first, rounds = t
    tracks = [_vertices(start, list(steps))]
    act = 0
    case = {"pts": [[x / float(CU), y / float(CU)] for x, y in tracks[0]], "ops": []}

    def project(ps):
        case["ops"].append([ps[0], _seq_queries(tracks[act], ps[1]), [q[0] for q in ps[1]]])

    def translate(k, l):
        if k == 0 and l == 0:
            k = 1
        tracks[act] = [(x + LAT * k, y + LAT * l) for x, y in tracks[act]]
        case["ops"].append(["translate", k * LAT / float(CU), l * LAT / float(CU)])

    def move(name, j, x, y):
        j %= len(tracks[act])
        if tracks[act][j] == (x, y):
            x += LAT
        vs = list(tracks[act])
        vs[j] = (x, y)
        tracks[act] = vs
        case["ops"].append([name, j, x / float(CU), y / float(CU)])

    project(first)
    for ed, ps in rounds:
        kind = ed[0]
        if kind == "switch" and len(tracks) > 1:
            act = (act + 1 + ed[1] % (len(tracks) - 1)) % len(tracks)
            case["ops"].append(["switch", act])
        elif kind in ("translate", "switch"):
            translate(ed[-2], ed[-1])
        elif kind in ("move", "setobs"):
            move(kind, ed[1], ed[2], ed[3])
        else:
            tracks.append(list(tracks[act]))
            act = len(tracks) - 1
            case["ops"].append(["copy"])
            if kind == "copy_translate":
                translate(ed[1], ed[2])
            else:
                move("move", ed[1], ed[2], ed[3])
        project(ps)
    return case


def strat_sequence():
    return st.tuples(st.tuples(_lat(), _lat()),
                     st.lists(_lat_step(), min_size=1, max_size=4),
                     _proj_spec(),
                     st.lists(st.tuples(_edit_spec(), _proj_spec()), min_size=1, max_size=4)).map(_build_seq)


RULE = ("Hypothesis: start vertex + 1..7 steps of class oblique / horizontal / vertical / zero-length / short (1e-3..0.04 per "
        "coordinate) / micro (1e-5..1e-3 per coordinate), "
        "local coordinates n/100000 (1/8 lattice of [-16,16]^2 with offsets 0.1, 0.3, +-0.001); one more draw decides three "
        "dimensions the earlier generator held constant: the translation of the whole case (10 in 16: one of 10 offsets, "
        "multiples of 2^10 from 1e3 to 7.3e6 on one or both axes, grid values E 651264 / N 6860800 included; short and micro "
        "steps are then 0.1..10), the heights of the reference track (flat / another z at every fix / z differing by 3e-5 / "
        "large, and a query height 0 or 12.5 - used by the mapOnTrack sub-checks) and the number type (half of the cases hand "
        "integer-valued coordinates over as Python ints); query relative to a proper segment "
        "(beside: foot at k/8 of the segment, off by s/8 segment lengths; beyond: parameter -1..2 outside [0,1]; on: s = 0), "
        "at a vertex, far (100..1000 away), free in the box, or sharing x or y with a vertex; 1..4 queries per polyline "
        "(1..5 for mapOnTrack(track, track)).  "
        "Non-trivial: for at least one query the true nearest point is a foot strictly inside a segment (by more than the "
        "tolerance), not a vertex.  "
        "map_sequence: 1/8 lattice only; project, then 1..4 rounds of (edit the reference track in place without changing its "
        "size: translate / setX+setY of one vertex / setObs / copy-then-edit / switch back to an earlier track; project again), "
        "every projection judged against the polyline read back from the track at that moment; non-trivial there = a projection "
        "after an edit whose nearest point is an interior foot.  "
        "Distinct = hash of the case.")

# coverage-guided stage of the thorough tier (vt/fuzz.py): sub-check -> libFuzzer executions
FUZZ = {'polyline': 15000}

SUBCHECKS = [
    SubCheck("segment", body_segment, strategy=strat_segment, quick=10000, thorough=300000,
             rule="proj_segment on one proper segment, 1..4 queries"),
    SubCheck("polyline", body_polyline, strategy=strat_polyline, quick=10000, thorough=300000,
             rule="proj_polyligne(X, Y, x, y) on 2..8 vertices, 1..4 queries"),
    SubCheck("map_coord", body_map_coord, strategy=strat_polyline, quick=6000, thorough=150000,
             rule="mapOnTrack(ENUCoords, track), 1..4 queries"),
    SubCheck("map_track", body_map_track, strategy=strat_map_track, quick=6000, thorough=150000,
             rule="mapOnTrack(track, track), 1..5 queries in one call"),
    SubCheck("map_sequence", body_map_sequence, strategy=strat_sequence, quick=6000, thorough=150000,
             rule="project / edit the reference track in place or copy-then-edit / project again (2..5 projections per case)"),
]
