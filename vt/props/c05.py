"""C05 - linear resampling returns the piecewise-linear interpolant of the track.

Oracle: own bisection + linear weights in exact rational arithmetic (fractions.Fraction) on the case
data; tracklib is only called to produce the result that is judged.

A case carries the fixes as [x, y, z] and integer-millisecond time increments, so it is plain JSON.
Times of tracklib are float seconds (~1.6e9, ulp 2.4e-7 s): when all instants are multiples of 1/8 s
the library's arithmetic is exact and the comparison is tight (1e-9 relative); otherwise the oracle
allows the returned point to be the interpolant at an instant / abscissa that differs from the
requested one by the stated float uncertainty (position slack = steepest leg slope x uncertainty).
"""
import math
from fractions import Fraction as Fr

import numpy as np
from hypothesis import strategies as st

import tracklib.algo.interpolation as interp
from tracklib.algo.cinematics import computeAbsCurv
from tracklib.core.obs import Obs
from tracklib.core.obs_coords import ENUCoords
from tracklib.core.obs_time import ObsTime
from tracklib.core.track import Track

from vt import gen
from vt.core import HarnessError, SubCheck, Violation

ASSUMPTIONS = [
    "ENU tracks of 2..10 fixes with strictly increasing integer-millisecond timestamps in 1970..2099; repeated positions allowed",
    "temporal: numeric step > 0 (int or float), sorted list of ObsTime, or reference track with sorted stamps; "
    "through Track.resample(mode=2), interpolation.resample, //, and npts= / factor= / ** (regular step duration/npts)",
    "timestamps of the result are judged to +-1 ms (+ float uncertainty of the requested instant); positions to 1e-9*(1+max|coord|) "
    "+ steepest slope x instant uncertainty (0 when every instant is a multiple of 1/8 s, else (k+2)*2.5e-7 s for the k-th numeric step, "
    "5e-7 s for listed instants, + 2e-8 relative for npts)",
    "a numeric-step instant closer to the last timestamp than that uncertainty may be present or absent",
    "spatial exact: all leg lengths and ds are dyadic rationals (axis-parallel or 3-4-5 legs) so floor(L/ds) is decided exactly; "
    "spatial float: cases with |L/ds - round(L/ds)| < 1e-9 are outside the domain (count decided by rounding)",
    "at an abscissa that coincides with a repeated fix either copy's height and timestamp is accepted",
    "pre-history (case['pre']): before the resampling call the Track object may have had its abs_curv computed (fresh), "
    "or computed and then a fix moved back / the first fix dropped (out of date), or its speed estimated; the fixes "
    "themselves are always those of the case.  With via='algo' (interpolation.resample called directly) the feature "
    "table is not demanded to be reset",
    "coordinate type (case['ints']): floats, or Python ints wherever the value is integer-valued (gen.make_track(ints=True)); "
    "the oracle works on the same numbers.  spatial_float also draws tracks on the integer grid with oblique legs, so that "
    "every coordinate is an int while the leg lengths are irrational",
    "reference track re-use (temporal_instants, case['refpre']): the reference Track OBJECT of the judged call may have served "
    "1..2 earlier temporal resampling calls (linear, thin-spline or B-spline, on other track objects built from the case "
    "data, possibly shifted in time), its timestamps being set in place (obs.timestamp assigned or setObs, same number of "
    "fixes) before each use and before the judged call.  Every linear call of the history is judged in full against the "
    "reference's timestamps at the time of that call; the spline calls are not judged (not the subject of the property) and "
    "may fail - they only must not affect the later calls",
    "spatial timestamps: +-1 ms + 5e-3 ms (float seconds ~1.6e9 weighted by two rounded weights) + time slope x abscissa uncertainty",
    "time-zone label (case['zone'], case['zonehow']): the timestamps of the track may carry a non-zero zone, given to the ObsTime "
    "constructor (zone=z), set with Track.setTimeZone(z), or obtained with Track.convertToTimeZone(z) from a track built z hours "
    "earlier (only when every timestamp is a multiple of 1/8 s, so that the conversion is exact; the fixes after the conversion "
    "are those of the case).  In tracklib the zone is a label: the fields of an ObsTime are the instant (toAbsTime, -, the "
    "comparisons ignore the zone), so 'the requested instant' / 'the linearly interpolated timestamp' are judged on the fields "
    "(year..ms -> epoch ms), whatever the labels of the track, of the reference (case['refzone']: instants of a list / "
    "reference track labelled with a zone of their own) and of the result; nothing is demanded of the label of the result",
    "number types (case['tnum'], case['cnum']): the timestamp fields of the track are Python ints, or the seconds field / all "
    "seven fields numpy int64 or int32 scalars (int32 only for tracks ending before 2038-01-18: epoch seconds must fit the "
    "field's type, else undef); the coordinates are Python floats, Python ints where integer-valued (case['ints']) or numpy "
    "float64 scalars.  The oracle works on the plain numbers of the case.  (numpy float32 coordinates are not generated: the "
    "library's weights x coordinates would be float32 products and the 1e-9 comparison meaningless)",
    "type of the numeric step (case['stepnum'], temporal_step and spatial_exact): a Python int / float as before, or the same "
    "number as numpy float64, int64 / int32 (whole numbers) or float32 (steps exactly representable in float32) scalar - "
    "'steps given as a number'; the expectation is that of the plain number",
]

BASE_TOL = 1e-9
TICK = 125                      # ms; 1/8 s is exact in binary


# --- building -----------------------------------------------------------------------------------
def _times(case):
    t = [case["t0"]]
    for d in case["dt"]:
        t.append(t[-1] + d)
    return t


def _valid_track(case):
    pts, dt = case["pts"], case["dt"]
    if len(pts) < 2 or len(dt) != len(pts) - 1 or any((not isinstance(d, int)) or d < 1 for d in dt):
        return False
    T = _times(case)
    if T[0] < 0 or T[-1] > gen.MAX_MS:
        return False
    return all(len(p) == 3 and all(math.isfinite(c) for c in p) for p in pts)


INT32_MAX_MS = (2 ** 31 - 86400) * 1000
TNUMS = ("py", "int64:sec", "int64:all", "int32:sec", "int32:all")
ZONEHOWS = ("ctor", "set", "convert")
HOUR = 3600000


def _obstime(ms, tnum="py", zone=0):
    f = gen.fields_of_ms(ms)
    if tnum != "py":
        typ = np.int64 if tnum.startswith("int64") else np.int32
        f = [typ(v) for v in f] if tnum.endswith(":all") else [f[0], f[1], f[2], f[3], f[4], typ(f[5]), f[6]]
    return ObsTime(*f, zone=zone) if zone else ObsTime(*f)


def _ms_of(t):
    return gen.ms_of_fields(int(t.year), int(t.month), int(t.day), int(t.hour), int(t.min), int(t.sec), int(t.ms))


def _make_track(case, pts, T, feats):
    """the fixes pts / T (epoch ms) as a Track, with the number types and the time-zone label of the case"""
    ints, np64 = bool(case.get("ints")), case.get("cnum") == "np64"
    tnum, zone, how = case.get("tnum", "py"), int(case.get("zone") or 0), case.get("zonehow", "ctor")
    convert = zone != 0 and how == "convert"

    def co(v):
        return np.float64(v) if np64 else gen.as_int_if_integral(v) if ints else v

    tr = Track([], 1)
    for p, t in zip(pts, T):
        ts = _obstime(t - HOUR * zone, tnum) if convert else _obstime(t, tnum, zone if how == "ctor" else 0)
        tr.addObs(Obs(ENUCoords(co(p[0]), co(p[1]), co(p[2])), ts))
    for name, vals in feats.items():
        tr.createAnalyticalFeature(name, list(vals))
    if convert:
        tr.convertToTimeZone(zone)
    elif zone and how == "set":
        tr.setTimeZone(zone)
    return tr


def _zone_ok(case, T):
    """False: the case asks for something outside the domain (see ASSUMPTIONS)"""
    tnum, zone, how = case.get("tnum", "py"), case.get("zone") or 0, case.get("zonehow", "ctor")
    if tnum not in TNUMS or how not in ZONEHOWS or not isinstance(zone, int) or abs(zone) > 14:
        return False
    if case.get("cnum") not in (None, "float", "np64"):
        return False
    if tnum.startswith("int32") and T[-1] > INT32_MAX_MS:
        return False
    if zone and how == "convert":
        if any(t % TICK for t in T) or T[0] - 1000 - HOUR * zone < 0 or T[-1] - HOUR * zone > gen.MAX_MS:
            return False
    return True


def _cls_types(case):
    zone = case.get("zone") or 0
    cls = ["zone:0" if not zone else "zone:%s-by-%s" % ("east" if zone > 0 else "west", case.get("zonehow", "ctor"))]
    cls.append("time-fields:" + case.get("tnum", "py"))
    if case.get("cnum") == "np64":
        cls.append("coords:np64")
    rz = case.get("refzone")
    if rz is not None:
        cls.append("ref-zone:" + ("0" if rz == 0 else "same-as-track" if rz == zone else "other"))
    return cls


PRES = [None, None, "abscurv-fresh", "abscurv-stale-moved", "abscurv-stale-dropped-first-gt",
        "abscurv-stale-dropped-first-remove", "speed"]


def _build(case):
    """the track of the case; case["pre"] names what happened to the Track object BEFORE the resampling call.  The
    pre-history never changes the fixes the case describes (positions, timestamps): it only leaves derived
    state behind (a fresh or an out-of-date abs_curv feature, a speed feature), which resampling must not use
    in place of the track's geometry."""
    T = _times(case)
    pts = [tuple(p) for p in case["pts"]]
    pre = case.get("pre")
    if not _zone_ok(case, T):
        raise _Outside()

    def feats(n):
        return {"f%d" % c: [10.0 * c + i for i in range(n)] for c in range(case.get("nf", 0))}

    ints = bool(case.get("ints"))
    if pre in ("abscurv-stale-dropped-first-gt", "abscurv-stale-dropped-first-remove") and T[0] >= 1000:
        tr = _make_track(case, [(pts[0][0] + 3.0, pts[0][1] - 4.0, pts[0][2])] + pts, [T[0] - 1000] + T, feats(len(T) + 1))
        computeAbsCurv(tr)
        if pre.endswith("gt"):
            tr = tr > 1
        else:
            tr.removeObsList([0])
    else:
        tr = _make_track(case, pts, T, feats(len(T)))
        if pre == "abscurv-fresh":
            computeAbsCurv(tr)
        elif pre == "abscurv-stale-moved":
            k = len(pts) // 2
            pos = tr.getObs(k).position
            pos.setX(pts[k][0] + 2.5)
            pos.setY(pts[k][1] + 6.0)
            computeAbsCurv(tr)
            pos.setX(gen.as_int_if_integral(pts[k][0]) if ints else pts[k][0])
            pos.setY(gen.as_int_if_integral(pts[k][1]) if ints else pts[k][1])
        elif pre == "speed":
            tr.estimate_speed()
    if tr.size() != len(pts):
        raise HarnessError("pre-history %r changed the track size" % pre)
    if [_ms_of(tr.getObs(i).timestamp) for i in range(tr.size())] != T:
        raise HarnessError("the track does not carry the timestamps of the case (zone %r by %s)" % (case.get("zone"), case.get("zonehow")))
    return tr, T


STEPNUMS = ("py", "np.float64", "np.int64", "np.int32", "np.float32")


def _step_as(v, stepnum):
    """the step (s or m) handed over as the numpy scalar named by the case; None if that type cannot hold the value"""
    if stepnum in (None, "py"):
        return v
    if stepnum == "np.float64":
        return np.float64(v)
    if stepnum in ("np.int64", "np.int32"):
        return (np.int64 if stepnum == "np.int64" else np.int32)(v) if float(v) == int(v) and 0 < v < 2 ** 31 else None
    if stepnum == "np.float32":
        return np.float32(v) if float(np.float32(v)) == float(v) else None
    return None


class _Outside(Exception):
    """the case is outside the stated domain (number type / zone combination): answered undef"""


def _guard(body):
    def run(case):
        try:
            return body(case)
        except _Outside:
            return {"undef": True, "cls": ["outside:number-type-or-zone"]}
    run.__name__ = body.__name__
    run.__doc__ = body.__doc__
    return run


def _read(tr):
    out = []
    lst = tr.getObsList()
    if len(lst) != tr.size():
        raise Violation("size-inconsistent", "size() %d, getObsList() %d" % (tr.size(), len(lst)))
    for i in range(tr.size()):
        o = tr.getObs(i)
        ts = o.timestamp
        ok = (1 <= ts.month <= 12 and 1 <= ts.day <= 31 and 0 <= ts.hour <= 23 and 0 <= ts.min <= 59
              and 0 <= ts.sec <= 59 and 0 <= ts.ms <= 999)
        if not ok:
            raise Violation("malformed-timestamp", "obs %d stamped %s" % (i, (ts.year, ts.month, ts.day, ts.hour, ts.min, ts.sec, ts.ms)))
        out.append((o.position.getX(), o.position.getY(), o.position.getZ(), _ms_of(ts), o))
    return out


def _check_no_features(tr, got, key):
    if tr.getListAnalyticalFeatures():
        raise Violation(key, "feature table after resample: %s" % tr.getListAnalyticalFeatures())
    for i, g in enumerate(got):
        if g[4].features:
            raise Violation(key, "obs %d carries features %s after resample" % (i, g[4].features))


def _maxabs(pts):
    return max(abs(c) for p in pts for c in p)


# --- temporal oracle ----------------------------------------------------------------------------
def _interp_time(T, pts, r):
    """exact: position at instant r (Fraction ms), T[0] < r <= T[-1]; returns (x, y, z, leg)"""
    lo, hi = 0, len(T) - 1              # invariant T[lo] < r <= T[hi]
    while hi - lo > 1:
        mid = (lo + hi) // 2
        if T[mid] < r:
            lo = mid
        else:
            hi = mid
    w = Fr(r - T[lo]) / (T[hi] - T[lo])
    p, q = pts[lo], pts[hi]
    return tuple(float(Fr(p[c]) + w * (Fr(q[c]) - Fr(p[c]))) for c in range(3)) + (lo,)


def _lipschitz_t(T, pts):
    """max |dc|/dt per coordinate, per second"""
    return [max(abs(pts[i + 1][c] - pts[i][c]) / ((T[i + 1] - T[i]) / 1000.0) for i in range(len(T) - 1)) for c in range(3)]


def _judge_temporal(case, tr, T, expected, what):
    """expected: list of (r_ms Fraction, err_ms float, optional bool) in order, optional ones last"""
    pts = case["pts"]
    got = _read(tr)
    must = [e for e in expected if not e[2]]
    if len(got) != len(must) and len(got) != len(expected):
        rel = [float(e[0] - T[0]) for e in expected]
        raise Violation("temporal-count", "%s: %d observations returned for %d requested instants in (tini, tfin] "
                        "(offsets ms %s, duration %d ms); returned offsets %s" % (
                            what, len(got), len(must), rel[:30], T[-1] - T[0], [g[3] - T[0] for g in got][:30]))
    lip = _lipschitz_t(T, pts)
    scale = 1.0 + _maxabs(pts)
    legs = set()
    for k, (g, (r, err, _opt)) in enumerate(zip(got, expected)):
        if abs(g[3] - float(r)) > 1.0 + err + 1e-6:
            raise Violation("temporal-stamp", "%s: observation %d stamped %+d ms from tini, requested instant is %+.4f ms" % (
                what, k, g[3] - T[0], float(r - T[0])))
        rc = min(max(r, Fr(T[0]) + Fr(1, 1000000)), Fr(T[-1]))
        ex = _interp_time(T, pts, rc)
        legs.add(ex[3])
        for c in range(3):
            tol = BASE_TOL * scale + lip[c] * (err / 1000.0)
            if not abs(g[c] - ex[c]) <= tol:
                raise Violation("temporal-position", "%s: observation %d (instant %+.4f ms from tini, leg %d) has %s=%r, interpolant is %r (tol %.3g)" % (
                    what, k, float(r - T[0]), ex[3], "xyz"[c], g[c], ex[c], tol))
    return got, legs


def _dyadic(T, *more):
    return all(t % TICK == 0 for t in T) and all(Fr(m) % TICK == 0 for m in more)


def _numeric_expected(T, step_ms, relerr):
    """instants tini + k*step (k >= 1) up to tfin; step_ms Fraction"""
    exact = relerr == 0 and _dyadic(T, step_ms)
    out = []
    k = 1
    while True:
        r = T[0] + k * step_ms
        err = 0.0 if exact else (relerr * float(k * step_ms) + (k + 2) * 2.5e-4)
        if r > T[-1] + Fr(err):
            break
        opt = (not exact) and abs(float(r - T[-1])) <= err
        if out and out[-1][2]:
            opt = True
        out.append((r, err, opt))
        k += 1
        if k > 5000:
            break
    return out


def _listed_expected(T, offs):
    exact = _dyadic(T, *offs)
    err = 0.0 if exact else 5e-4
    return [(Fr(T[0] + o), err, False) for o in offs if T[0] < T[0] + o <= T[-1]]


def _cls_track(case, T):
    cls = []
    dts = set(case["dt"])
    cls.append("irregular-dt" if len(dts) > 1 else "regular-dt")
    pts = case["pts"]
    if any(pts[i][:2] == pts[i + 1][:2] for i in range(len(pts) - 1)):
        cls.append("repeated-position")
    cls.append("dyadic-times" if _dyadic(T) else "ms-times")
    cls.append(_cls_ints(case))
    return cls + _cls_types(case)


def _cls_ints(case):
    integral = all(float(c) == int(c) for p in case["pts"] for c in p[:2])
    if case.get("ints"):
        return "ints:all-xy-handed-over-as-int" if integral else "ints:some-xy-not-integer-valued"
    return "floats:integer-valued-xy" if integral else "floats"


def _set_ref_stamps(ref, t0, offs, how, zone=0):
    """in-place change of the timestamps of a reference track (number of fixes unchanged)"""
    for i, o in enumerate(offs):
        ts = _obstime(t0 + o, "py", zone)
        if how == "setobs":
            ref.setObs(i, Obs(ENUCoords(-float(i), 7.0, 1.0), ts))
        else:
            ref.getObs(i).timestamp = ts


def _apply_temporal(tr, arg, via):
    if via == "resample":
        tr.resample(arg, mode=2)
        return tr
    if via == "resample-kw":
        tr.resample(delta=arg, algo=1, mode=interp.MODE_TEMPORAL)
        return tr
    if via == "algo":
        interp.resample(tr, arg, interp.ALGO_LINEAR, interp.MODE_TEMPORAL)
        return tr
    if via == "floordiv":
        return tr // arg
    raise ValueError(via)


def body_temporal_step(case):
    if not _valid_track(case):
        return {"undef": True}
    step = case["step"]
    if not (isinstance(step, (int, float)) and not isinstance(step, bool) and step > 0 and math.isfinite(step)):
        return {"undef": True}
    tr, T = _build(case)
    step_ms = Fr(step) * 1000
    if (T[-1] - T[0]) / step_ms > 2000:
        return {"undef": True}
    expected = _numeric_expected(T, step_ms, 0.0)
    via = case.get("via", "resample")
    stepnum = case.get("stepnum", "py")
    arg = _step_as(step, stepnum)
    if arg is None:
        return {"undef": True}
    res = _apply_temporal(tr, arg, via)
    what = "resample(%r, temporal) via %s" % (arg, via)
    if stepnum not in ("py", "np.float64") and res.size() == 0 and any(not e[2] for e in expected):
        # narrow key: a step that is a number but neither a Python int nor a (subclass of) Python float selects no instant at all
        raise Violation("temporal-numpy-step-no-instants", "%s: empty track returned, %d instants tini + k*step lie in (tini, tfin]" % (
            what, len([e for e in expected if not e[2]])))
    got, legs = _judge_temporal(case, res, T, expected, what)
    if via != "algo":
        _check_no_features(res, got, "features-not-reset")
    cls = _cls_track(case, T) + ["via-" + via, "int-step" if isinstance(step, int) else "float-step", "step-type:" + stepnum]
    D = T[-1] - T[0]
    divides = (D / step_ms).denominator == 1
    cls.append("step-divides-duration" if divides else "step-does-not-divide")
    if step_ms > D:
        cls.append("step>duration")
    if any(e[0] in T[1:-1] for e in expected):
        cls.append("instant-on-interior-fix")
    if not got:
        cls.append("empty-result")
    return {"nt": len(set(case["dt"])) > 1 and len(legs) >= 2, "cls": cls}


def body_temporal_instants(case):
    if not _valid_track(case):
        return {"undef": True}
    offs = case["offs"]
    if offs != sorted(offs) or any(not isinstance(o, int) for o in offs):
        return {"undef": True}
    kind, via = case.get("kind", "list"), case.get("via", "resample")
    tr, T = _build(case)
    if any(T[0] + o < 0 or T[0] + o > gen.MAX_MS for o in offs):
        return {"undef": True}
    refzone = case.get("refzone") or 0
    if not isinstance(refzone, int) or abs(refzone) > 14:
        return {"undef": True}
    stamps = [_obstime(T[0] + o, "py", refzone) for o in offs]
    hist_cls = []
    if kind == "track":
        if not offs:
            return {"undef": True}
        refpre = case.get("refpre") or []
        for stp in refpre:
            so = stp["offs"]
            if len(so) != len(offs) or so != sorted(so) or any(not isinstance(o, int) for o in so):
                return {"undef": True}
            if any(T[0] + o < 0 or T[0] + o > gen.MAX_MS for o in so):
                return {"undef": True}
            if T[0] + stp.get("tshift", 0) < 0 or T[-1] + stp.get("tshift", 0) > gen.MAX_MS:
                return {"undef": True}
        first = refpre[0]["offs"] if refpre else offs
        arg = Track([], 2)
        for i, o in enumerate(first):
            arg.addObs(Obs(ENUCoords(-float(i), 7.0, 1.0), _obstime(T[0] + o, "py", refzone)))
        # earlier uses of the SAME reference Track object: its stamps are set in place (same number of fixes), then it
        # serves another resampling call (another track object, possibly another algorithm).  Linear calls are judged.
        for k, stp in enumerate(refpre):
            _set_ref_stamps(arg, T[0], stp["offs"], stp.get("set", "assign"), refzone)
            sh = stp.get("tshift", 0)
            c2 = dict(case, t0=case["t0"] + sh, pre=None)
            tr2, T2 = _build(c2)
            algo = stp["algo"]
            what2 = "earlier call %d of %d on the same reference Track object (%s, reference offsets %s ms, track shifted by %d ms)" % (
                k + 1, len(refpre), algo, stp["offs"][:20], sh)
            if algo == "linear":
                res2 = _apply_temporal(tr2, arg, stp.get("via", "resample"))
                _judge_temporal(c2, res2, T2, _listed_expected(T2, [o - sh for o in stp["offs"]]), what2)
            else:
                try:          # spline resamplers are not the subject of the property: they only have to leave the reference alone
                    code = interp.ALGO_THIN_SPLINES if algo == "thin" else interp.ALGO_B_SPLINES
                    if stp.get("via") == "algo":
                        interp.resample(tr2, arg, code, interp.MODE_TEMPORAL)
                    else:
                        tr2.resample(arg, algo=code, mode=interp.MODE_TEMPORAL)
                except (Exception, SystemExit):
                    hist_cls.append("ref:earlier-spline-call-raised")
            hist_cls.append("ref:used-before-by-" + algo)
        if refpre:
            if refpre[-1]["offs"] != offs:
                hist_cls.append("ref:stamps-changed-in-place-since-last-use")
            _set_ref_stamps(arg, T[0], offs, case.get("refset", "assign"), refzone)
            hist_cls.append("ref:reused")
        else:
            hist_cls.append("ref:fresh")
        if arg.size() != len(offs):
            raise HarnessError("reference track size")
    else:
        if via == "floordiv":
            return {"undef": True}
        arg = stamps
    expected = _listed_expected(T, offs)
    res = _apply_temporal(tr, arg, via)
    what = "resample(%s of offsets %s ms, temporal) via %s" % (kind, offs[:20], via)
    got, legs = _judge_temporal(case, res, T, expected, what)
    if via != "algo":
        _check_no_features(res, got, "features-not-reset")
    D = T[-1] - T[0]
    cls = _cls_track(case, T) + ["via-" + via, "arg-" + kind] + sorted(set(hist_cls))
    if D in offs:
        cls.append("instant=tfin")
    if 0 in offs:
        cls.append("instant=tini")
    if any(o < 0 for o in offs):
        cls.append("instant<tini")
    if any(o > D for o in offs):
        cls.append("instant>tfin")
    if len(set(offs)) < len(offs):
        cls.append("duplicate-instants")
    if any(T[0] + o in T[1:-1] for o in offs):
        cls.append("instant-on-interior-fix")
    if not got:
        cls.append("empty-result")
    return {"nt": len(set(case["dt"])) > 1 and len(legs) >= 2, "cls": cls}


def body_temporal_npts(case):
    """npts= / factor= / ** : 'resampled regularly' - regular step duration/npts (the front end inflates it by 1e-8)"""
    if not _valid_track(case):
        return {"undef": True}
    via, k = case["via"], case["k"]
    if not (isinstance(k, int) and k >= 1):
        return {"undef": True}
    tr, T = _build(case)
    npts = k * len(T) if via == "factor" else k
    D = T[-1] - T[0]
    expected = _numeric_expected(T, Fr(D, npts), 2e-8)
    if via == "npts":
        tr.resample(npts=k, mode=2)
        res = tr
    elif via == "factor":
        tr.resample(factor=k, mode=2)
        res = tr
    elif via == "pow":
        res = tr ** k
    else:
        raise ValueError(via)
    what = "temporal resample to %d points via %s" % (npts, via)
    got, legs = _judge_temporal(case, res, T, expected, what)
    _check_no_features(res, got, "features-not-reset")
    cls = _cls_track(case, T) + ["via-" + via]
    if not got:
        cls.append("empty-result")
    return {"nt": len(set(case["dt"])) > 1 and len(legs) >= 2, "cls": cls}


# --- spatial oracle -----------------------------------------------------------------------------
def _exact_sqrt(fr):
    """sqrt of a non-negative Fraction if rational, else None"""
    n, d = fr.numerator, fr.denominator
    a, b = math.isqrt(n), math.isqrt(d)
    if a * a == n and b * b == d:
        return Fr(a, b)
    return None


def _leg_lengths_exact(pts):
    out = []
    for i in range(len(pts) - 1):
        dx = Fr(pts[i + 1][0]) - Fr(pts[i][0])
        dy = Fr(pts[i + 1][1]) - Fr(pts[i][1])
        s = _exact_sqrt(dx * dx + dy * dy)
        if s is None:
            return None
        out.append(s)
    return out


def _admissible(pts, T, S, s, eps):
    """candidate (x, y, z, t_ms, leg) at abscissa s (+-eps) of the polyline; zero-length legs give both ends"""
    out = []
    for i in range(len(pts) - 1):
        a, b = S[i], S[i + 1]
        if s < a - eps or s > b + eps:
            continue
        if b == a:
            for j in (i, i + 1):
                out.append((pts[j][0], pts[j][1], pts[j][2], float(T[j]), i))
            continue
        w = min(max((s - a) / (b - a), 0), 1)
        p, q = pts[i], pts[i + 1]
        out.append(tuple(float(p[c] + w * (q[c] - p[c])) if not isinstance(w, Fr)
                         else float(Fr(p[c]) + w * (Fr(q[c]) - Fr(p[c]))) for c in range(3))
                   + (float(T[i] + w * (T[i + 1] - T[i])), i))
    return out


def _judge_spatial(case, res, T, S, ds, count, eps, what):
    pts = case["pts"]
    got = _read(res)
    if len(got) != count:
        raise Violation("spatial-count", "%s: %d observations, expected floor(L/ds)+1 = %d (L=%r)" % (what, len(got), count, float(S[-1])))
    first = (pts[0][0], pts[0][1], pts[0][2], T[0])
    if tuple(got[0][:4]) != tuple(float(v) if i < 3 else v for i, v in enumerate(first)):
        raise Violation("spatial-first", "%s: first observation %s, first fix is %s" % (what, got[0][:4], first))
    scale = 1.0 + _maxabs(pts) + float(S[-1])
    pos = [float(S[i + 1] - S[i]) for i in range(len(S) - 1)]
    lipz = max([abs(pts[i + 1][2] - pts[i][2]) / pos[i] for i in range(len(pos)) if pos[i] > 0] or [0.0])
    lipt = max([(T[i + 1] - T[i]) / pos[i] for i in range(len(pos)) if pos[i] > 0] or [0.0])
    legs = set()
    on_vertex = False
    for k in range(1, count):
        s = k * ds
        cands = _admissible(pts, T, S, s, eps)
        g = got[k]
        best = None
        for c in cands:
            okp = abs(g[0] - c[0]) <= BASE_TOL * scale + eps and abs(g[1] - c[1]) <= BASE_TOL * scale + eps
            okz = abs(g[2] - c[2]) <= BASE_TOL * scale + lipz * eps
            okt = abs(g[3] - c[3]) <= 1.0 + 5e-3 + lipt * eps
            if okp and okz and okt:
                best = c
                break
        if best is None:
            c = cands[0] if cands else None
            if c is not None and not (abs(g[0] - c[0]) <= BASE_TOL * scale + eps and abs(g[1] - c[1]) <= BASE_TOL * scale + eps):
                key = "spatial-position"
            elif c is not None and not abs(g[2] - c[2]) <= BASE_TOL * scale + lipz * eps:
                key = "spatial-height"
            else:
                key = "spatial-stamp"
            raise Violation(key, "%s: point %d (abscissa %r) is (x,y,z,t-t0)=%s, polyline there: %s" % (
                what, k, float(s), (g[0], g[1], g[2], g[3] - T[0]), [(c[0], c[1], c[2], c[3] - T[0]) for c in cands]))
        legs.add(best[4])
        if len(cands) > 1:
            on_vertex = True
    for k in range(len(got) - 1):
        if got[k + 1][3] < got[k][3]:
            raise Violation("spatial-time-decreases", "%s: stamps %d -> %d ms at point %d" % (what, got[k][3] - T[0], got[k + 1][3] - T[0], k + 1))
    return got, legs, on_vertex


def _apply_spatial(tr, ds, via):
    if via == "resample":
        tr.resample(ds, mode=1)
    elif via == "resample-default":
        tr.resample(ds)
    elif via == "resample-kw":
        tr.resample(delta=ds, algo=1, mode=interp.MODE_SPATIAL)
    elif via == "algo":
        interp.resample(tr, ds)
    else:
        raise ValueError(via)
    return tr


def _cls_spatial(case, lens, legs, got, on_vertex):
    cls = []
    posl = set(l for l in lens if l > 0)
    cls.append("irregular-legs" if len(posl) > 1 else "regular-legs")
    if any(l == 0 for l in lens):
        cls.append("repeated-position")
    if on_vertex:
        cls.append("point-on-a-fix")
    if len(got) == 1:
        cls.append("only-first-fix")
    cls.append(_cls_ints(case))
    cls.extend(_cls_types(case))
    if any(l != int(l) for l in lens):
        cls.append("non-integer-leg-length")
        if case.get("ints") and all(float(c) == int(c) for p in case["pts"] for c in p[:2]):
            cls.append("ints:all-xy-int+non-integer-leg-length")
    return cls, len(posl) > 1 and len(legs) >= 2


def body_spatial_exact(case):
    if not _valid_track(case):
        return {"undef": True}
    ds = case["ds"]
    if not (isinstance(ds, (int, float)) and not isinstance(ds, bool) and ds > 0 and math.isfinite(ds)):
        return {"undef": True}
    pts = case["pts"]
    lens = _leg_lengths_exact(pts)
    if lens is None:
        return {"undef": True}
    S = [Fr(0)]
    for l in lens:
        S.append(S[-1] + l)
    if any(float(v) != v for v in S) or any(Fr(float(k * Fr(ds))) != k * Fr(ds) for k in (1, int(S[-1] / Fr(ds)))):
        return {"undef": True}           # not exactly representable: the float-track check judges such cases
    q = S[-1] / Fr(ds)
    if q > 3000:
        return {"undef": True}
    count = int(q) + 1                    # floor, exact
    tr, T = _build(case)
    via = case.get("via", "resample")
    arg = _step_as(ds, case.get("stepnum", "py"))
    if arg is None:
        return {"undef": True}
    res = _apply_spatial(tr, arg, via)
    what = "resample(ds=%r, spatial) via %s" % (arg, via)
    try:
        got, legs, on_vertex = _judge_spatial(case, res, T, S, Fr(ds), count, 0, what)
    except Violation as v:
        if case.get("stepnum") != "np.float32":
            raise
        # narrow key, by differential attribution: the same case with the same step value as a Python float is right
        tr2, _ = _build(case)
        try:
            _judge_spatial(case, _apply_spatial(tr2, float(ds), via), T, S, Fr(ds), count, 0, what)
        except Violation:
            raise v
        raise Violation("spatial-float32-step-single-precision", "the step as np.float32 makes the interpolation single precision "
                        "(the same step as a Python float is resampled correctly): [%s] %s" % (v.key, v.msg))
    if via != "algo":
        _check_no_features(res, got, "features-not-reset")
    cls, nt = _cls_spatial(case, lens, legs, got, on_vertex)
    cls.append("ds-divides-L" if q.denominator == 1 else "ds-does-not-divide")
    cls.append("via-" + via)
    cls.append("ds-type:" + case.get("stepnum", "py"))
    cls.append("pre-%s" % case.get("pre"))
    if Fr(ds) > S[-1]:
        cls.append("ds>L")
    if S[-1] == 0:
        cls.append("L=0")
    return {"nt": nt, "cls": cls}


def body_spatial_float(case):
    if not _valid_track(case):
        return {"undef": True}
    ds = case["ds"]
    if not (isinstance(ds, (int, float)) and not isinstance(ds, bool) and ds > 0 and math.isfinite(ds)):
        return {"undef": True}
    pts = case["pts"]
    lens = [math.hypot(pts[i + 1][0] - pts[i][0], pts[i + 1][1] - pts[i][1]) for i in range(len(pts) - 1)]
    S = [0.0]
    for l in lens:
        S.append(S[-1] + l)
    L = S[-1]
    if any(0 < l < 1e-3 * (1 + L) * 1e-3 for l in lens):
        return {"undef": True}            # micro-legs: the leg parameter itself is decided by rounding
    q = L / ds
    if q > 3000:
        return {"undef": True}
    if abs(q - round(q)) < 1e-9:
        return {"undef": True, "cls": ["dropped-near-integer-quotient"]}
    count = int(math.floor(q)) + 1
    tr, T = _build(case)
    via = case.get("via", "resample")
    res = _apply_spatial(tr, ds, via)
    eps = 1e-9 * (1.0 + L + _maxabs(pts))
    what = "resample(ds=%r, spatial) via %s" % (ds, via)
    got, legs, on_vertex = _judge_spatial(case, res, T, S, ds, count, eps, what)
    if via != "algo":
        _check_no_features(res, got, "features-not-reset")
    cls, nt = _cls_spatial(case, lens, legs, got, on_vertex)
    cls.append("via-" + via)
    cls.append("pre-%s" % case.get("pre"))
    if ds > L:
        cls.append("ds>L")
    return {"nt": nt, "cls": cls}


# --- generators ---------------------------------------------------------------------------------
def _t0():
    return _T0S


def _coord_lattice():
    return st.integers(-256, 256).map(lambda k: k * 0.25)


def _coord_float():
    return st.one_of(st.floats(-1e4, 1e4, allow_nan=False, allow_infinity=False),
                     st.sampled_from([0.1, 0.3, -123456.789e-2, 1e-3, 999.999]))


def _points(n):
    """n fixes; one in six repeats the previous position (its height may still change).
    Drawn as one flat list of integers (cheap to generate, shrinks towards the origin)."""
    def mk(lo, hi, unit):
        def post(v):
            pts = []
            for i in range(n):
                flag, x, y, z = v[4 * i] % 12, v[4 * i + 1] * unit, v[4 * i + 2] * unit, v[4 * i + 3] * unit
                if flag in (2, 3, 4):
                    z = 0.0
                if i and flag < 2:
                    pts.append([pts[-1][0], pts[-1][1], z if flag else pts[-1][2]])
                else:
                    pts.append([x, y, z])
            return pts
        return st.lists(st.integers(lo, hi), min_size=4 * n, max_size=4 * n).map(post)
    return st.one_of(mk(-256, 256, 0.25), mk(-10 ** 9, 10 ** 9, 1e-5), mk(-300, 300, 1.0))


@st.composite
def _dts(draw, n):
    mode = draw(st.sampled_from(["lattice", "lattice", "lattice", "ms", "ms", "regular"]))
    if mode == "regular":
        d = draw(st.sampled_from([125, 250, 1000, 2000, 5000]))
        return [d] * (n - 1)
    if mode == "lattice":
        return [TICK * k for k in draw(st.lists(st.integers(1, 40), min_size=n - 1, max_size=n - 1))]
    return draw(st.lists(st.one_of(st.integers(1, 20000), st.sampled_from([1, 2, 999, 1000, 1001])), min_size=n - 1, max_size=n - 1))


_NS = st.one_of(st.integers(2, 10), st.integers(4, 10))
_T0S = st.one_of(st.integers(86400, 4102444800 - 11 * 86400).map(lambda s: s * 1000),
                 st.sampled_from([gen.ms_of_fields(2019, 12, 31, 23, 59, 50), gen.ms_of_fields(2024, 2, 28, 23, 59, 30),
                                  gen.ms_of_fields(2000, 1, 1), gen.ms_of_fields(1971, 1, 1) - 20000,
                                  gen.ms_of_fields(2021, 6, 30, 23, 58, 0),
                                  # undated data: default ObsTime() + incrementTime starts exactly at the epoch (t = 0.0 s)
                                  0, 0, 125, 1000]))


ZONES = [0, 0, 0, 0, 1, 2, -5, 12, -11, -1]
_TN = ["py", "py", "py", "int64:sec", "int64:all", "int32:sec", "int32:all", "int64:sec"]
_TYPES = st.integers(0, 10 * 3 * 8 * 3 - 1)


def _with_types(case, v):
    """one integer decides the time-zone label of the track (6 in 10 non-zero; given to the constructor / setTimeZone /
    convertToTimeZone), the type of the timestamp fields (5 in 8 numpy) and of the coordinates (1 in 3 numpy float64)"""
    T_end = case["t0"] + sum(case["dt"])
    zone, how = ZONES[v % 10], ZONEHOWS[(v // 10) % 3]
    tnum = _TN[(v // 30) % 8]
    if tnum.startswith("int32") and T_end > INT32_MAX_MS:
        tnum = tnum.replace("int32", "int64")
    if zone:
        dyadic = case["t0"] % TICK == 0 and all(d % TICK == 0 for d in case["dt"])
        if how == "convert" and not (dyadic and case["t0"] - 1000 - HOUR * zone >= 0 and T_end - HOUR * zone <= gen.MAX_MS):
            how = "set"
        case["zone"], case["zonehow"] = zone, how
    if tnum != "py":
        case["tnum"] = tnum
    if (v // 240) % 3 == 2:
        case["cnum"], case["ints"] = "np64", False
    return case


@st.composite
def _ttrack(draw):
    n = draw(_NS)
    return _with_types({"t0": draw(_t0()), "dt": draw(_dts(n)), "pts": draw(_points(n)), "nf": draw(st.integers(0, 1)),
                        "pre": draw(st.sampled_from(PRES)), "ints": draw(st.booleans())}, draw(_TYPES))


@st.composite
def strat_temporal_step_(draw):
    case = draw(_ttrack())
    D = sum(case["dt"])
    kind = draw(st.sampled_from(["divisor", "divisor", "divisor", "ticks", "ticks", "float", "float", "fraction", "fraction", "big", "int"]))
    # the type the step is handed over in is drawn first: a numpy integer needs a whole number of seconds, a float32 a dyadic step
    sn = draw(st.sampled_from(["py", "py", "py", "py", "np.float64", "np.float64", "np.int64", "np.int32", "np.float32", "np.float32"]))
    if sn in ("np.int64", "np.int32"):
        kind = "int"
    elif sn == "np.float32" and kind in ("float", "fraction", "int"):
        kind = "ticks"
    if kind == "int":
        step_ms = 1000 * draw(st.integers(1, 12))
    elif kind == "divisor" and D % TICK == 0:
        ticks = D // TICK
        divs = [d for d in range(1, ticks + 1) if ticks % d == 0]
        step_ms = TICK * draw(st.sampled_from(divs))
    elif kind in ("divisor", "float"):
        step_ms = None
        step = draw(st.one_of(st.sampled_from([0.1, 0.3, 0.7, 1.1, 2.5, 1 / 3.0]), st.floats(0.05, 30.0)))
    elif kind == "ticks":
        step_ms = TICK * draw(st.integers(1, 80))
    elif kind == "fraction":
        step_ms = None
        step = D / 1000.0 / draw(st.integers(1, 12))
    else:
        step_ms = D + TICK * draw(st.integers(0, 8))
    if step_ms is not None:
        step = step_ms // 1000 if (step_ms % 1000 == 0 and (kind == "int" or draw(st.booleans()))) else step_ms / 1000.0
    if D / 1000.0 / step > 150:
        step = D / 1000.0 / 150
    case["step"] = step
    if _step_as(step, sn) is None:
        sn = "np.float64"
    if sn != "py":
        case["stepnum"] = sn
    case["via"] = draw(st.sampled_from(["resample", "resample", "resample-kw", "algo"]))
    if case["via"] == "algo":
        case["nf"] = 0
        case["pre"] = None
    return case


@st.composite
def _offsets(draw, case):
    T = [0]
    for d in case["dt"]:
        T.append(T[-1] + d)
    D = T[-1]
    inside = st.integers(1, max(1, D - 1))
    on_fix = st.sampled_from(T)
    mid = st.integers(0, len(T) - 2).map(lambda i: (T[i] + T[i + 1]) // 2)
    tickish = st.integers(-8, D // TICK + 8).map(lambda k: k * TICK)
    outside = st.one_of(st.integers(-5000, 0), st.integers(D, D + 5000))
    one = st.one_of(inside, on_fix, on_fix, mid, tickish, outside)
    offs = draw(st.lists(one, min_size=0, max_size=12))
    if offs and draw(st.integers(0, 3)) == 0:
        offs.append(draw(st.sampled_from(offs)))           # duplicate instant
    if draw(st.integers(0, 2)) == 0:
        offs.append(D)
    if draw(st.integers(0, 4)) == 0:
        offs.append(0)
    if all(t % TICK == 0 for t in T) and draw(st.booleans()):
        offs = [o - o % TICK for o in offs]                # keep the whole case dyadic (tight comparison)
    lo = -min(case["t0"], 5000)
    return sorted(max(o, lo) for o in offs)


@st.composite
def strat_temporal_instants_(draw):
    case = draw(_ttrack())
    case["offs"] = draw(_offsets(case))
    case["kind"] = draw(st.sampled_from(["list", "track"]))
    case["refzone"] = [0, 0, case.get("zone", 0), case.get("zone", 0), 3, -7][draw(st.integers(0, 5))]
    if case["kind"] == "track" and not case["offs"]:
        case["offs"] = [sum(case["dt"])]
    vias = ["resample", "resample", "resample-kw", "algo"] + (["floordiv", "floordiv"] if case["kind"] == "track" else [])
    case["via"] = draw(st.sampled_from(vias))
    if case["via"] == "algo":
        case["nf"] = 0
        case["pre"] = None
    if case["kind"] == "track" and draw(st.integers(0, 9)) < 7:
        # the reference Track object has been used before (1..2 earlier resampling calls on other track objects), with
        # the same stamps, with all stamps shifted, or with other stamps (same number of fixes), changed in place since
        offs, m = case["offs"], len(case["offs"])
        lo = -min(case["t0"], 5000)
        D = sum(case["dt"])
        pre = []
        for _ in range(draw(st.sampled_from([1, 1, 1, 2]))):
            how = draw(st.sampled_from(["same", "same", "shift", "shift", "redraw"]))
            if how == "same":
                so = list(offs)
            elif how == "shift":
                c = draw(st.sampled_from([-3000, -1000, -125, -2, 2, 125, 250, 1000, 3000, 10000]))
                so = [max(o + c, lo) for o in offs]
            else:
                so = sorted(draw(st.lists(st.integers(lo, D + 5000), min_size=m, max_size=m)))
            sh = draw(st.sampled_from([0, 0, 0, 1000, -1000, 125, 7]))
            if case["t0"] + sh < 0:
                sh = 0
            pre.append({"offs": so, "algo": draw(st.sampled_from(["linear", "linear", "thin", "thin", "bspline"])),
                        "tshift": sh, "via": draw(st.sampled_from(["resample", "floordiv", "algo"])),
                        "set": draw(st.sampled_from(["assign", "setobs"]))})
        case["refpre"] = pre
        case["refset"] = draw(st.sampled_from(["assign", "assign", "setobs"]))
    return case


@st.composite
def strat_temporal_npts_(draw):
    case = draw(_ttrack())
    case["via"] = draw(st.sampled_from(["npts", "pow", "factor"]))
    case["k"] = draw(st.integers(1, 4)) if case["via"] == "factor" else draw(st.one_of(st.integers(1, 40), st.sampled_from([1, 2, len(case["pts"])])))
    return case


LEGS_345 = [(3, 4), (4, 3), (-3, 4), (-4, 3), (3, -4), (4, -3), (-3, -4), (-4, -3)]
AXES = [(1, 0), (0, 1), (-1, 0), (0, -1)]


@st.composite
def strat_spatial_exact_(draw):
    n = draw(_NS)
    unit = draw(st.sampled_from([0.25, 0.25, 1.0]))    # 1.0: every coordinate is integer-valued
    x, y = draw(_coord_lattice()), draw(_coord_lattice())
    if unit == 1.0:
        x, y = float(int(x)), float(int(y))
    zc = st.one_of(st.just(0.0), _coord_lattice(), _coord_float())
    pts = [[x, y, draw(zc)]]
    regular = draw(st.integers(0, 4)) == 0
    a0 = draw(st.integers(1, 40))
    ticks = 0                                        # L in units
    for _ in range(n - 1):
        kind = draw(st.sampled_from(["axis", "axis", "345", "345", "zero"]))
        if kind == "zero":
            dx = dy = 0.0
        elif kind == "axis":
            a = a0 if regular else draw(st.integers(1, 40))
            ux, uy = draw(st.sampled_from(AXES))
            dx, dy = ux * a * unit, uy * a * unit
            ticks += a
        else:
            u = draw(st.integers(1, 8))
            ux, uy = draw(st.sampled_from(LEGS_345))
            dx, dy = ux * u * unit, uy * u * unit
            ticks += 5 * u
        x, y = x + dx, y + dy
        pts.append([x, y, draw(zc)])
    L8 = int(ticks * unit * 8)                       # L in units of 1/8 m
    kind = draw(st.sampled_from(["divisor", "divisor", "eighths", "first-leg", "big", "equal"]))
    if L8 == 0:
        d8 = draw(st.integers(1, 40))
    elif kind == "divisor":
        d8 = draw(st.sampled_from([d for d in range(1, L8 + 1) if L8 % d == 0]))
    elif kind == "eighths":
        d8 = draw(st.integers(1, max(1, L8)))
    elif kind == "first-leg":
        first = next(math.hypot(pts[i + 1][0] - pts[i][0], pts[i + 1][1] - pts[i][1]) for i in range(n - 1)
                     if pts[i + 1][:2] != pts[i][:2])
        d8 = int(round(first * 8))
    elif kind == "big":
        d8 = L8 + draw(st.integers(1, 16))
    else:
        d8 = L8
    if L8 / d8 > 150:
        d8 = -(-L8 // 150)
    sn = draw(st.sampled_from(["py", "py", "py", "py", "np.float64", "np.int64", "np.int32", "np.float32", "np.float32"]))
    if sn in ("np.int64", "np.int32") and d8 % 8:
        d8 = 8 * (d8 // 8 + 1)                       # a numpy integer step: whole metres
    ds = d8 // 8 if (d8 % 8 == 0 and (sn in ("np.int64", "np.int32") or draw(st.booleans()))) else d8 / 8.0
    via = draw(st.sampled_from(["resample", "resample", "resample-default", "resample-kw", "algo"]))
    if _step_as(ds, sn) is None:
        sn = "np.float64"
    return _with_types({"stepnum": sn, "t0": draw(_t0()), "dt": draw(_dts(n)), "pts": pts, "nf": 0 if via == "algo" else draw(st.integers(0, 1)),
                        "ds": ds, "via": via, "pre": None if via == "algo" else draw(st.sampled_from(PRES)),
                        "ints": draw(st.booleans())}, draw(_TYPES))


OBLIQUE = [(1, 1), (1, -1), (2, 1), (-1, 2), (1, 3), (-3, 1), (2, -3), (5, 2), (-2, -5), (1, 0), (0, 1), (3, 4), (-7, 1)]


@st.composite
def _grid_points(draw, n):
    """integer coordinates, legs in oblique directions: leg lengths are not integers although every coordinate is"""
    v = draw(st.lists(st.integers(0, 10 ** 6), min_size=3 * n, max_size=3 * n))
    x, y = v[0] % 2001 - 1000, v[1] % 2001 - 1000
    pts = [[float(x), float(y), float(v[2] % 7)]]
    for i in range(1, n):
        flag, k, zk = v[3 * i] % 12, v[3 * i + 1], v[3 * i + 2]
        z = float(zk % 50) if flag % 2 else zk % 1000 * 0.125
        if flag >= 1:
            ux, uy = OBLIQUE[k % len(OBLIQUE)]
            m = 1 + (k // 16) % 12
            x, y = x + ux * m, y + uy * m
        pts.append([float(x), float(y), z])
    return pts


@st.composite
def strat_spatial_float_(draw):
    n = draw(_NS)
    if draw(st.integers(0, 2)) == 0:
        pts = draw(_grid_points(n))
        L = sum(math.hypot(pts[i + 1][0] - pts[i][0], pts[i + 1][1] - pts[i][1]) for i in range(n - 1))
        if L > 0:
            ds = draw(st.one_of(st.floats(L / 149.3, 1.47 * L), st.floats(L / 149.3, L / 2.13),
                                st.sampled_from([1, 2, 3, 5, 7, 10, 0.5, 2.5, 12.5, 7.0])))
            if L / ds > 150:
                ds = L / 149.5
        else:
            ds = draw(st.floats(0.01, 10.0))
        via = draw(st.sampled_from(["resample", "resample", "resample-default", "resample-kw", "algo"]))
        return _with_types({"t0": draw(_t0()), "dt": draw(_dts(n)), "pts": pts, "nf": 0 if via == "algo" else draw(st.integers(0, 1)),
                            "ds": ds, "via": via, "pre": None if via == "algo" else draw(st.sampled_from(PRES)),
                            "ints": draw(st.sampled_from([True, True, False]))}, draw(_TYPES))
    v = draw(st.lists(st.integers(0, 10 ** 9), min_size=4 * n, max_size=4 * n))
    x, y = (v[0] - 5 * 10 ** 8) * 1e-5, (v[1] - 5 * 10 ** 8) * 1e-5
    pts = [[x, y, 0.0 if v[2] % 3 == 0 else (v[3] - 5 * 10 ** 8) * 1e-5]]
    for i in range(1, n):
        flag, lk, ak, zk = v[4 * i] % 12, v[4 * i + 1], v[4 * i + 2], v[4 * i + 3]
        z = 0.0 if flag in (2, 3, 4) else (zk - 5 * 10 ** 8) * 1e-5
        if flag < 2:
            pts.append([x, y, z])                    # repeated position
            continue
        ln = 0.01 + (lk % 999901) * 1e-4 if flag < 10 else [0.01, 0.1, 1.0, 3.3, 100.0][lk % 5]
        ang = (ak % 6283186) * 1e-6
        x, y = x + ln * math.cos(ang), y + ln * math.sin(ang)
        pts.append([x, y, z])
    L = sum(math.hypot(pts[i + 1][0] - pts[i][0], pts[i + 1][1] - pts[i][1]) for i in range(n - 1))
    if L > 0:
        ds = draw(st.one_of(st.floats(L / 149.3, 1.47 * L), st.floats(L / 149.3, L / 2.13), st.sampled_from([0.1, 0.3, 1.0, 2.5, 10.0, 3])))
        if L / ds > 150:
            ds = L / 149.5
    else:
        ds = draw(st.floats(0.01, 10.0))
    via = draw(st.sampled_from(["resample", "resample", "resample-default", "resample-kw", "algo"]))
    return _with_types({"t0": draw(_t0()), "dt": draw(_dts(n)), "pts": pts, "nf": 0 if via == "algo" else draw(st.integers(0, 1)),
                        "ds": ds, "via": via, "pre": None if via == "algo" else draw(st.sampled_from(PRES)),
                        "ints": draw(st.booleans())}, draw(_TYPES))


def strat_temporal_step():
    return strat_temporal_step_()


def strat_temporal_instants():
    return strat_temporal_instants_()


def strat_temporal_npts():
    return strat_temporal_npts_()


def strat_spatial_exact():
    return strat_spatial_exact_()


def strat_spatial_float():
    return strat_spatial_float_()


RULE = ("Hypothesis. Tracks: 2..10 fixes, time increments regular / multiples of 1/8 s / arbitrary ms, positions on a 1/4 lattice or floats "
        "in +-1e4, one fix in six repeats the previous position. temporal_step: steps that divide the duration, other multiples of 1/8 s, "
        "decimal floats, duration/k, steps >= duration; int and float. temporal_instants: sorted lists / reference tracks of instants inside, "
        "on fixes, on tini and tfin, outside, duplicated; 7 in 10 reference tracks have been used before by 1..2 other resampling "
        "calls (linear / thin spline / B-spline, via resample / // / interpolation.resample) with the same, shifted or other stamps "
        "set in place. temporal_npts: npts=, factor=, **. spatial_exact: axis-parallel and 3-4-5 legs on "
        "the 1/4 lattice, ds in eighths (divisors of L, the first leg's length, ds = L, ds > L). spatial_float: float legs of 0.01..100 m in "
        "any direction, float ds; one third on the integer grid (oblique integer legs x 1..12, ds float or small integers / halves). "
        "Every generator draws 'ints' (integer-valued coordinates handed over as Python ints); positions are on a 1/4 lattice, "
        "an integer lattice or floats. Every generator also draws one integer that decides the time-zone label of the track "
        "(6 in 10 non-zero: +1, +2, -5, +12, -11, -1; given to the ObsTime constructor, set with setTimeZone, or reached with "
        "convertToTimeZone from a track built that many hours earlier), the type of the timestamp fields (Python ints 3 in 8, "
        "else seconds / all fields as numpy int64 / int32) and of the coordinates (1 in 3 numpy float64); temporal_instants "
        "labels the instants of the list / reference track with zone 0, the track's zone, +3 or -7; temporal_step and "
        "spatial_exact draw the type of the numeric step (Python number 4 in 10, numpy float64, int64, int32, float32) "
        "and a step that type can hold (whole seconds or metres / multiples of 1/8). Non-trivial: at least two different time increments (temporal) or positive leg lengths (spatial) and "
        "output points in at least two different legs. Distinct = hash of the case.")

SUBCHECKS = [
    SubCheck("temporal_step", _guard(body_temporal_step), strategy=strat_temporal_step, quick=4000, thorough=150000),
    SubCheck("temporal_instants", _guard(body_temporal_instants), strategy=strat_temporal_instants, quick=4000, thorough=150000),
    SubCheck("temporal_npts", _guard(body_temporal_npts), strategy=strat_temporal_npts, quick=1500, thorough=50000, qshards=2),
    SubCheck("spatial_exact", _guard(body_spatial_exact), strategy=strat_spatial_exact, quick=4000, thorough=150000),
    SubCheck("spatial_float", _guard(body_spatial_float), strategy=strat_spatial_float, quick=3000, thorough=100000, qshards=2),
]
