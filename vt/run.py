"""CLI:  python -m vt.run <ID> [--tier quick|thorough] [--replay file] [--repo dir] [--jobs n]
exit 0 = held on everything explored (KNOWN-FINDING lines allowed), 1 = VIOLATION, 2 = harness error."""
import argparse
import glob
import importlib
import json
import multiprocessing
import os
import sys
import time
import traceback


def _setup_repo(repo):
    repo = os.path.realpath(repo)
    os.environ["VT_REPO"] = repo
    sys.path.insert(0, repo)
    from vt import core
    core.REPO = repo
    with core.quiet():
        import tracklib
    got = os.path.realpath(os.path.dirname(tracklib.__file__))
    if got != os.path.join(repo, "tracklib"):
        print("HARNESS-ERROR: tracklib imported from %s, expected %s" % (got, repo))
        sys.exit(2)
    return core


_G = {}


def _p(*a):
    """print that survives a closed pipe (./check ... | head): the exit status must still be the verdict"""
    try:
        print(*a, flush=True)
    except BrokenPipeError:
        try:
            sys.stdout = open(os.devnull, "w")
        except OSError:
            pass


def _worker(task):
    prop, subname, tier, seed, shard, nshards = task
    core = _G["core"]
    mod = _G["mod"]
    sub = next(s for s in mod.SUBCHECKS if s.name == subname)
    try:
        r = core.ShardRunner(prop, sub, tier, seed, shard, nshards).run()
        r["error"] = None
        return r
    except core.HarnessError as e:
        return {"sub": subname, "error": str(e)}
    except BaseException as e:
        return {"sub": subname, "error": "".join(traceback.format_exception(type(e), e, e.__traceback__))}


def _replay_one(core, mod, path):
    with open(path) as f:
        rec = core.unjson(json.load(f))
    sub = next((s for s in mod.SUBCHECKS if s.name == rec["subcheck"]), None)
    if sub is None:
        raise core.HarnessError("replay %s names unknown sub-check %s" % (path, rec["subcheck"]))
    info, bad = core.run_body(sub, rec["case"])
    return rec, bad


def _start_fuzz(core, mod, prop, subs, a, seed):
    """spawns one atheris child per sub-check listed in the module's FUZZ = {sub: runs}; returns (jobs, note)"""
    import shutil
    import subprocess
    import tempfile
    plan = getattr(mod, "FUZZ", {})
    want = a.fuzz == "on" or (a.fuzz == "auto" and a.tier == "thorough")
    plan = {k: v for k, v in plan.items() if any(s.name == k for s in subs)}
    if not want or not plan:
        return [], None
    try:
        import atheris  # noqa: F401
    except Exception as e:
        return [], "atheris not importable (%s): coverage-guided stage skipped" % type(e).__name__
    jobs = []
    for name, runs in plan.items():
        d = tempfile.mkdtemp(prefix="vt-fuzz-")
        out = os.path.join(d, "stats.json")
        cmd = [sys.executable, "-W", "ignore", "-m", "vt.fuzz", prop, name, "--runs", str(runs if a.tier == "thorough" else max(500, runs // 10)),
               "--seed", str(core.derive_seed(seed, prop, name, "fuzz") % (2 ** 31 - 1) + 1), "--repo", a.repo,
               "--out", out, "--corpus", os.path.join(d, "corpus")]
        p = subprocess.Popen(cmd, stdout=subprocess.PIPE, stderr=subprocess.STDOUT, text=True, cwd=core.VERIF)
        jobs.append((name, p, d, out, shutil))
    return jobs, None


def _collect_fuzz(core, jobs, found, errors):
    import re
    info = {}
    for name, p, d, out, shutil in jobs:
        log, _ = p.communicate()
        st = core.Stats()
        try:
            with open(out) as f:
                rec = core.unjson(json.load(f))
            st.merge(rec["stats"])
            found.extend(rec["violations"])
        except Exception as e:
            errors.append("[fuzz:%s] no statistics: %s\n%s" % (name, e, log[-1500:]))
        done = re.findall(r"#(\d+)\s+DONE\s+(?:cov: (\d+) ft: (\d+) )?corp: (\d+)", log)
        if p.returncode != 0 or not done:
            errors.append("[fuzz:%s] atheris child exit %s\n%s" % (name, p.returncode, log[-1500:]))
        info[name] = {"stats": st}
        if done:
            info[name].update(executions=int(done[-1][0]), cov=int(done[-1][1] or 0), ft=int(done[-1][2] or 0),
                              corpus_units=int(done[-1][3]))
            if st.evaluations == 0:
                info[name]["note"] = "no byte string decoded to a valid case: this campaign explored nothing"
        shutil.rmtree(d, ignore_errors=True)
    return info


def main(argv=None):
    ap = argparse.ArgumentParser()
    ap.add_argument("prop")
    ap.add_argument("--tier", default=os.environ.get("VERIF_TIER") or "quick", choices=["quick", "thorough"])
    ap.add_argument("--replay")
    ap.add_argument("--repo", default=os.environ.get("VT_REPO_DIR", "/repo"))
    ap.add_argument("--jobs", type=int, default=min(16, os.cpu_count() or 1))
    ap.add_argument("--only", help="comma-separated sub-check names")
    ap.add_argument("--no-evidence", action="store_true")
    ap.add_argument("--fuzz", choices=["auto", "on", "off"], default="auto",
                    help="coverage-guided stage (atheris) for the sub-checks a module lists in FUZZ: auto = thorough tier only")
    a = ap.parse_args(argv)
    prop = a.prop.upper()
    try:
        seed = int(os.environ.get("VERIF_SEED", "1") or "1")
    except ValueError:
        seed = 1
    t0 = time.time()
    core = _setup_repo(a.repo)
    try:
        with core.quiet():
            mod = importlib.import_module("vt.props." + prop.lower())
    except Exception:
        _p("HARNESS-ERROR: cannot import check module for %s\n%s" % (prop, traceback.format_exc()))
        return 2
    _G["core"], _G["mod"] = core, mod
    known = core.known_keys(prop)

    # ---- single replay --------------------------------------------------------------------
    if a.replay:
        try:
            rec, bad = _replay_one(core, mod, a.replay)
        except core.HarnessError as e:
            _p("HARNESS-ERROR: %s" % e)
            return 2
        if bad is None:
            _p("replay %s: property holds on this case" % a.replay)
            return 0
        if bad[0] in known:
            _p("KNOWN-FINDING: property=%s %s" % (prop, known[bad[0]]["what"]))
            return 0
        _p("replay %s: %s: %s" % (a.replay, bad[0], bad[1]))
        _p("VIOLATION property=%s replay=%s" % (prop, a.replay))
        return 1

    violations = []       # (key, msg, path)
    known_seen = {}
    errors = []

    # ---- replay tier -------------------------------------------------------------------------
    replays = sorted(glob.glob(os.path.join(core.VERIF, "replays", prop, "*.json")))
    n_replayed = 0
    for path in replays:
        try:
            rec, bad = _replay_one(core, mod, path)
        except core.HarnessError as e:
            errors.append(str(e))
            continue
        n_replayed += 1
        if bad is None:
            continue
        if bad[0] in known:
            known_seen[bad[0]] = known_seen.get(bad[0], 0) + 1
        else:
            violations.append((bad[0], bad[1], path))

    # ---- generated tier ----------------------------------------------------------------------
    subs = mod.SUBCHECKS
    if a.only:
        want = set(a.only.split(","))
        subs = [s for s in subs if s.name in want]
    tasks = []
    for s in subs:
        n = s.shards(a.tier)
        for k in range(n):
            tasks.append((prop, s.name, a.tier, seed, k, n))
    per_sub = {s.name: core.Stats() for s in subs}
    found = []
    fuzz_jobs, fuzz_note = _start_fuzz(core, mod, prop, subs, a, seed)
    if tasks:
        if a.jobs > 1:
            ctx = multiprocessing.get_context("fork")
            with ctx.Pool(min(a.jobs, len(tasks))) as pool:
                results = list(pool.imap_unordered(_worker, tasks, chunksize=1))
        else:
            results = [_worker(t) for t in tasks]
        for r in results:
            if r.get("error"):
                errors.append("[%s] %s" % (r["sub"], r["error"]))
                continue
            per_sub[r["sub"]].merge(r["stats"])
            found.extend(r["violations"])

    fuzz_info = _collect_fuzz(core, fuzz_jobs, found, errors)

    # ---- write replay files for new violations (one per root-cause key) ------------------------
    seen_keys = set(k for k, _, _ in violations)
    outdir = os.path.join(core.VERIF, "found", prop)
    for v in sorted(found, key=lambda v: (v["key"], len(json.dumps(v["case"])))):
        if v["key"] in seen_keys:
            continue
        seen_keys.add(v["key"])
        os.makedirs(outdir, exist_ok=True)
        safe = "".join(c if c.isalnum() or c in "-_." else "_" for c in v["key"])[:60]
        path = os.path.join(outdir, "%s-%08x.json" % (safe, core.derive_seed(json.dumps(v["case"], sort_keys=True))))
        with open(path, "w") as f:
            json.dump({"property": prop, "subcheck": v["subcheck"], "key": v["key"], "msg": v["msg"],
                       "case": v["case"]}, f, indent=1)
        violations.append((v["key"], v["msg"], path))

    # ---- evidence ------------------------------------------------------------------------------
    total = core.Stats()
    breakdown = {}
    exhaustive_any = False
    for s in subs:
        st = per_sub[s.name]
        d = st.dump()
        total.merge(d)
        for k, c in st.known.items():
            known_seen[k] = known_seen.get(k, 0) + c
        ran_enum = s.enum is not None and (a.tier == "thorough" or s.enum_in_quick)
        exhaustive_any = exhaustive_any or ran_enum
        breakdown[s.name] = {"evaluations": st.evaluations, "distinct_nontrivial": len(st.nontrivial),
                             "shrink_evaluations": st.shrink_evals, "undefined_domain": st.undefined,
                             "known_excluded": dict(st.known), "classes": dict(st.classes),
                             "enumerated_space": st.space if ran_enum else 0,
                             "enumerated_completely": bool(ran_enum), "rule": s.rule}
    for name, fi in fuzz_info.items():
        st = fi.pop("stats")
        total.merge(st.dump())
        for k, c in st.known.items():
            known_seen[k] = known_seen.get(k, 0) + c
        breakdown["fuzz:" + name] = dict(fi, evaluations=st.evaluations, distinct_nontrivial=len(st.nontrivial),
                                         shrink_evaluations=0, undefined_domain=st.undefined, known_excluded=dict(st.known),
                                         classes=dict(st.classes), enumerated_space=0, enumerated_completely=False,
                                         rule="coverage-guided (atheris/libFuzzer, tracklib instrumented) mutation of the byte "
                                              "stream behind the same Hypothesis strategy and oracle as sub-check '%s'" % name)
    if fuzz_note:
        breakdown["fuzz"] = {"skipped": fuzz_note}
    wall = time.time() - t0
    if not a.no_evidence and not a.only:
        ev = {
            "property_id": prop, "tier": a.tier, "seed": seed, "level": "exploration",
            "coverage": {
                "evaluations": total.evaluations + n_replayed,
                "distinct_nontrivial": len(total.nontrivial),
                "rule": getattr(mod, "RULE", "") or "; ".join("%s: %s" % (s.name, s.rule) for s in subs),
                "samples": total.samples,
                "exhaustive": False,
                "exhaustive_subdomains": [n for n, b in breakdown.items() if b["enumerated_completely"]],
                "replayed_regressions": n_replayed,
                "shrink_evaluations": total.shrink_evals,
                "undefined_domain": total.undefined,
                "known_excluded": known_seen,
                "subchecks": breakdown,
                "harness_errors": len(errors),
            },
            "assumptions": getattr(mod, "ASSUMPTIONS", []),
            "wall_s": round(wall, 2),
            "violations": len(violations),
        }
        os.makedirs(os.path.join(core.VERIF, "evidence"), exist_ok=True)
        with open(os.path.join(core.VERIF, "evidence", prop + ".json"), "w") as f:
            json.dump(core.jsonable(ev), f, indent=1, sort_keys=True)

    # ---- report --------------------------------------------------------------------------------
    _p("%s tier=%s seed=%d: %d evaluations (%d distinct non-trivial, %d undefined-domain, %d replayed) in %.1fs" % (
        prop, a.tier, seed, total.evaluations, len(total.nontrivial), total.undefined, n_replayed, wall))
    for n, b in breakdown.items():
        if "evaluations" not in b:
            _p("  %-28s %s" % (n, b))
            continue
        if n.startswith("fuzz:"):
            _p("  %-28s eval=%-8d nontrivial=%-7d executions=%s coverage-edges=%s features=%s" % (
                n, b["evaluations"], b["distinct_nontrivial"], b.get("executions"), b.get("cov"), b.get("ft")))
            continue
        _p("  %-28s eval=%-8d nontrivial=%-7d known=%s classes=%s" % (
            n, b["evaluations"], b["distinct_nontrivial"], b["known_excluded"] or "-",
            dict(sorted(b["classes"].items())) or "-"))
    for k in sorted(known_seen):
        if k in known:
            _p("KNOWN-FINDING: property=%s %s [key=%s, %d cases]" % (prop, known[k]["what"], k, known_seen[k]))
    if errors:
        for e in errors:
            _p("HARNESS-ERROR: %s" % e)
        return 2
    if violations:
        for k, m, p in violations:
            _p("  violation %s: %s" % (k, m[:300]))
            _p("VIOLATION property=%s replay=%s" % (prop, p))
        return 1
    return 0


if __name__ == "__main__":
    sys.exit(main())
