"""Hypothesis strategies shared by several properties (DESIGN.md section 3).
Every strategy yields plain JSON-able values; tracklib objects are built inside the bodies."""
import calendar
import datetime as _dt

from hypothesis import strategies as st

EPOCH = _dt.datetime(1970, 1, 1)
MAX_MS = int((_dt.datetime(2100, 1, 1) - EPOCH).total_seconds() * 1000) - 1   # 2099-12-31T23:59:59.999
DAY_MS = 86400000
N_DAYS = (MAX_MS + 1) // DAY_MS                                                # 47482


def fields_of_ms(ms):
    d = EPOCH + _dt.timedelta(milliseconds=ms)
    return (d.year, d.month, d.day, d.hour, d.minute, d.second, d.microsecond // 1000)


def ms_of_fields(y, mo, d, h=0, mi=0, s=0, ms=0):
    return calendar.timegm((y, mo, d, h, mi, s)) * 1000 + ms


def lattice(step, lo, hi):
    """k*step for integer k with lo <= k*step <= hi; exact in binary when step is a power of two."""
    a = int(lo / step)
    b = int(hi / step)
    return st.integers(a, b).map(lambda k: k * step)


# --- timestamps -------------------------------------------------------------------------------
def _boundary_day():
    """day index of a month end / month start / 28-29 Feb / 31 Dec / 1 Jan"""
    def mk(t):
        y, m, kind = t
        last = calendar.monthrange(y, m)[1]
        day = {0: 1, 1: last, 2: min(28, last), 3: last - 1 if last > 1 else 1}[kind]
        return ms_of_fields(y, m, day) // DAY_MS
    general = st.tuples(st.integers(1970, 2099), st.integers(1, 12), st.integers(0, 3)).map(mk)
    feb = st.tuples(st.integers(1970, 2099), st.just(2), st.integers(0, 3)).map(mk)
    year = st.tuples(st.integers(1970, 2099), st.sampled_from([1, 12]), st.integers(0, 1)).map(mk)
    return st.one_of(general, feb, year)


def _intraday(whole_seconds=False):
    sec = st.one_of(
        st.sampled_from([0, 1, 43200, 86398, 86399, 3599, 3600, 59, 60]),
        st.integers(0, 86399))
    if whole_seconds:
        return sec.map(lambda s: s * 1000)
    ms = st.one_of(st.sampled_from([0, 0, 1, 500, 999]), st.integers(0, 999))
    return st.tuples(sec, ms).map(lambda t: t[0] * 1000 + t[1])


def ts_ms(whole_seconds=False, lo_ms=0, hi_ms=MAX_MS):
    """epoch milliseconds in [lo_ms, hi_ms], weighted towards calendar boundaries"""
    day = st.one_of(_boundary_day(), st.integers(0, N_DAYS - 1))
    raw = st.tuples(day, _intraday(whole_seconds)).map(lambda t: t[0] * DAY_MS + t[1])
    return raw.map(lambda v: min(max(v, lo_ms), hi_ms))


def obstime_of_ms(ms):
    """ObsTime built field-wise (does not go through readUnixTime, which C03 tests)."""
    from tracklib.core.obs_time import ObsTime
    return ObsTime(*fields_of_ms(ms))


def ms_of_obstime(t):
    return ms_of_fields(t.year, t.month, t.day, t.hour, t.min, t.sec, t.ms)


# --- tracks -------------------------------------------------------------------------------------
def as_int_if_integral(v):
    """the same number as a Python int when it is integer-valued (users build ENUCoords(10, 0, 0) as often as
    ENUCoords(10.0, 0.0, 0.0)); code that lets numpy infer an integer dtype from such input then truncates"""
    return int(v) if isinstance(v, float) and v == int(v) and abs(v) < 2 ** 52 else v


def make_track(pts, times_ms=None, features=None, ints=False):
    """ENU track from pts = [(x, y) | (x, y, z)], times in epoch ms (default: 1 s apart from 2020-01-01),
    features = {name: [values]} (optional).  ints=True hands integer-valued coordinates over as Python ints."""
    from tracklib.core.obs import Obs
    from tracklib.core.obs_coords import ENUCoords
    from tracklib.core.track import Track
    if times_ms is None:
        t0 = ms_of_fields(2020, 1, 1)
        times_ms = [t0 + 1000 * i for i in range(len(pts))]
    tr = Track([], 1)
    for p, t in zip(pts, times_ms):
        z = p[2] if len(p) > 2 else 0.0
        if ints:
            tr.addObs(Obs(ENUCoords(as_int_if_integral(p[0]), as_int_if_integral(p[1]), as_int_if_integral(z)), obstime_of_ms(t)))
        else:
            tr.addObs(Obs(ENUCoords(p[0], p[1], z), obstime_of_ms(t)))
    for name, vals in (features or {}).items():
        tr.createAnalyticalFeature(name, list(vals))
    return tr


def track_records(tr):
    """model view of a track: list of (x, y, z, t_ms, tuple(features)) in track order"""
    out = []
    names = tr.getListAnalyticalFeatures()
    for i in range(tr.size()):
        o = tr.getObs(i)
        out.append((o.position.getX(), o.position.getY(), o.position.getZ(), ms_of_obstime(o.timestamp),
                    tuple(tr.getObsAnalyticalFeature(n, i) for n in names)))
    return out
